#!/usr/bin/env python3
"""Regenerates MANIFEST.json from the table below (keeps it valid at all times)."""
import json, os, subprocess
HERE = os.path.dirname(os.path.abspath(__file__))
props = [json.loads(l) for l in open(os.path.join(HERE, 'properties.jsonl'))]
CLAIMED = json.load(open(os.path.join(HERE, 'claimed.json')))
checks = []
na = []
for p in props:
    pid = p['id']
    c = CLAIMED.get(pid)
    if not c or c.get('not_applicable'):
        na.append({'property_id': pid, 'reason': (c or {}).get('reason', 'monitor not built yet (work in progress; see DESIGN.md section 5)')})
        continue
    checks.append({
        'property_id': pid,
        'quick_cmd': './check %s --tier quick' % pid,
        'thorough_cmd': './check %s --tier thorough' % pid,
        'evidence_file': 'evidence/%s.json' % pid,
        'replay_cmd_template': './check %s --replay {path}' % pid,
        'engine': 'aegmon',
        'level_claimed': {'category': c.get('category', 'exploration'), 'text': c['text'], 'design_ref': 'DESIGN.md section 5, ' + pid},
        'level_note': c['note'],
        'technique': c['technique'],
    })
hooks_commits = json.load(open(os.path.join(HERE, 'hook_commits.json'))) if os.path.exists(os.path.join(HERE, 'hook_commits.json')) else []
m = {
    'version': 1,
    'setup_cmd': 'PIP_NO_INDEX=1 /venv/bin/python -m pip install -q --no-index --find-links /opt/veriftools/wheels --target /verif/.deps icontract',
    'hooks': {
        'guard': 'AEGEAN_VERIF',
        'enable': 'environment variable AEGEAN_VERIF=1 (set by ./check for every child process); nothing to compile, checks import AegeanTools from /repo working tree',
        'baseline_off_cmd': 'cd /repo && env -u AEGEAN_VERIF /venv/bin/python -m pytest -ra -q -p no:cacheprovider --timeout=900 --continue-on-collection-errors',
        'source_commits': hooks_commits,
        'add_only': True,
    },
    'engines': [{'name': 'aegmon', 'path': 'aegmon/', 'serves_properties': [c['property_id'] for c in checks],
                 'kind_free_text': 'runtime monitoring: generated hostile workloads run against the real code in subprocesses; contracts (icontract) and wrappers on the real functions, shadow reference models, event-log checkers, watchdogs; sys.monitoring reach counters'}],
    'checks': checks,
    'not_applicable': na,
    'notes': 'Exit 0 held / 1 VIOLATION / 2 INCONCLUSIVE. Known findings: known_findings.json (read-only at run time).',
}
json.dump(m, open(os.path.join(HERE, 'MANIFEST.json'), 'w'), indent=1)
print('checks', len(checks), 'not_applicable', len(na))
