#!/bin/bash
# usage: tools/sweep.sh <tier> <seeds...>   -- runs every property, prints one line per (property, seed)
tier=$1; shift
for seed in "$@"; do
  for p in C01 C02 C03 C04 C05 C06 C07 C08 C09 C10 C11 C12 C13 C14 C15 C16 C17 C18 C19 C20; do
    t0=$(date +%s)
    out=$(VERIF_SEED=$seed ./check $p --tier $tier --no-evidence 2>&1); rc=$?
    t1=$(date +%s)
    echo "== $p seed=$seed tier=$tier exit=$rc wall=$((t1-t0))s"
    if [ $rc -ne 0 ]; then echo "$out" | grep -v "^  " | head -30 | cut -c1-1500; echo "$out" | grep "clause=" | cut -c1-1200 | head -8; fi
  done
done
