#!/bin/bash
# Runs the repository's own suite with the hook guard OFF and restores the tracked files the tests rewrite.
cd /repo && env -u AEGEAN_VERIF /venv/bin/python -m pytest -ra -q -p no:cacheprovider --timeout=900 --continue-on-collection-errors "$@"
rc=$?
git -C /repo checkout -- tests/test_files 2>/dev/null
exit $rc
