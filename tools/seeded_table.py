#!/usr/bin/env python3
"""Regenerates the table of seeded changes in DESIGN.md (between the SEEDED-TABLE markers) from seeded/*/meta.json."""
import glob, json, os, re
HERE = os.path.dirname(os.path.dirname(os.path.abspath(__file__)))
rows = []
for mp in sorted(glob.glob(os.path.join(HERE, 'seeded', '*', 'meta.json'))):
    d = json.load(open(mp))
    name = os.path.basename(os.path.dirname(mp))
    notes = os.path.join(os.path.dirname(mp), 'agent_notes.md')
    title = ''
    if os.path.exists(notes):
        n = name.split('-')[-1]
        for l in open(notes):
            if re.match(r'^#+\s*patch\s*%s' % n, l.strip(), re.I):
                title = re.sub(r'^#+\s*patch\s*\d(\.diff)?\s*[-–—:]*\s*', '', l.strip(), flags=re.I)
                break
    first_miss = any(not h.get('caught', True) for h in d.get('history', []) if 'caught' in h)
    chk = d.get('checks', {})
    if not d.get('caught') and d.get('caught_before_fix_D37'):
        chk = d.get('checks_before_fix_D37', {})
    clauses = sorted(set(c for v in chk.values() for c in v.get('clauses_reported', [])))[:4]
    rows.append((name, title[:110], 'yes' if d.get('repo_tests_pass', True) else 'NO',
                 '%s→%s' % (d.get('demo_exit_unmodified'), d.get('demo_exit_patched')),
                 'caught' if d.get('caught') else ('caught on the tree before fix D37 (harmless after it)' if d.get('caught_before_fix_D37') else
                                                  ('not judged: outside the statement (see meta.json note)' if d.get('outside_statement') else 'MISSED')),
                 'missed at first; check strengthened' if first_miss and (d.get('caught') or d.get('caught_before_fix_D37')) else '',
                 ', '.join(clauses)))
out = ['| change | mechanism (the sub-agent\'s words) | repo tests pass | demo exit clean→patched | quick check | note | clauses that fired |',
       '|---|---|---|---|---|---|---|']
for r in rows:
    out.append('| ' + ' | '.join(r) + ' |')
caught = sum(1 for r in rows if r[4].startswith('caught'))
outside = sum(1 for r in rows if r[4].startswith('not judged'))
out.append('')
out.append('%d seeded changes kept, %d caught by the quick tier of the property\'s own check (one of them, C13-r8-2, by C11\'s: it needs a region mask); %d of them were missed at first and are caught after strengthening; %d are not violations of the statement as written / lie outside its quantifier and are not judged (notes in their meta.json).' % (len(rows), caught, sum(1 for r in rows if r[5]), outside))
txt = '\n'.join(out)
p = os.path.join(HERE, 'DESIGN.md')
s = open(p).read()
a, b = '<!-- SEEDED-TABLE-BEGIN -->', '<!-- SEEDED-TABLE-END -->'
if a not in s:
    s += '\n' + a + '\n' + b + '\n'
s = s[:s.index(a) + len(a)] + '\n' + txt + '\n' + s[s.index(b):]
open(p, 'w').write(s)
print(len(rows), 'rows', caught, 'caught', sum(1 for r in rows if r[5]), 'missed at first')
