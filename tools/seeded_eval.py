#!/usr/bin/env python3
"""Confirm a seeded change in its own scratch worktree and run the property's check against it.

usage: tools/seeded_eval.py C09 1 [--tier quick|thorough] [--skip-tests]

/scratch/seed/<ID>/repo is the sub-agent's scratch worktree of /repo, /scratch/seed/<ID>/out holds patchN.diff, demoN.py.
Steps (all in that scratch worktree, never in /repo):
  1. demo on the unmodified worktree (expect exit 0)
  2. apply the patch; repository test suite (expect all passed); demo (expect exit != 0)
  3. ./check <ID> --tier <tier> with AEGMON_REPO=<worktree>  (expect exit 1 = VIOLATION)
  4. revert the worktree
Writes /verif/seeded/<ID>-<N>/{patch.diff, demo.py, meta.json}.
"""
import json
import os
import re
import shutil
import subprocess
import sys
import time

VERIF = os.path.dirname(os.path.dirname(os.path.abspath(__file__)))
TAG = ''


def sh(cmd, cwd=None, env=None, timeout=3600):
    p = subprocess.run(cmd, shell=True, cwd=cwd, env=env, stdout=subprocess.PIPE, stderr=subprocess.STDOUT, timeout=timeout)
    return p.returncode, p.stdout.decode(errors='replace')


def main():
    pid, n = sys.argv[1], sys.argv[2]
    tier = 'quick'
    if '--tier' in sys.argv:
        tier = sys.argv[sys.argv.index('--tier') + 1]
    props = [pid]
    if '--also' in sys.argv:
        props += sys.argv[sys.argv.index('--also') + 1].split(',')
    root = '/scratch/seed'
    if '--root' in sys.argv:
        root = sys.argv[sys.argv.index('--root') + 1]
    global TAG
    TAG = sys.argv[sys.argv.index('--tag') + 1] if '--tag' in sys.argv else ''
    wt = '%s/%s/repo' % (root, pid)
    out = '%s/%s/out' % (root, pid)
    patch = os.path.join(out, 'patch%s.diff' % n)
    demo = os.path.join(out, 'demo%s.py' % n)
    env = dict(os.environ, OMP_NUM_THREADS='1', OPENBLAS_NUM_THREADS='1', TQDM_DISABLE='1', PYTHONPATH=wt,
               PYTHONDONTWRITEBYTECODE='1')
    env.pop('AEGEAN_VERIF', None)
    meta = {'property': pid, 'patch': 'patch%s.diff' % n, 'tier': tier}
    rc, o = sh('git status --short', cwd=wt)
    if o.strip():
        sh('git checkout -- . && git clean -fdq', cwd=wt)
    # judge the change on top of the CURRENT /repo HEAD (fix commits made after the change was written included)
    head = subprocess.check_output('git -C /repo rev-parse HEAD', shell=True).decode().strip()
    sh('git checkout -q -f --detach %s' % head, cwd=wt)
    base = subprocess.check_output('git rev-parse --short HEAD', shell=True, cwd=wt).decode().strip()
    meta['worktree_commit'] = base
    t0 = time.time()
    rc0, o0 = sh('timeout 600 /venv/bin/python %s' % demo, cwd=out, env=env)
    meta['demo_exit_unmodified'] = rc0
    rc, o = sh('git apply %s || git apply --3way %s' % (patch, patch), cwd=wt)
    if rc != 0:
        meta['error'] = 'patch does not apply: ' + o[-500:]
        return finish(meta, pid, n, patch, demo, out)
    try:
        if '--skip-tests' not in sys.argv:
            rc, o = sh('timeout 1500 /venv/bin/python -m pytest -q -p no:cacheprovider tests 2>&1 | tail -3', cwd=wt, env=env)
            m = re.search(r'(\d+) passed', o)
            f = re.search(r'(\d+) failed', o)
            meta['repo_tests_with_patch'] = o.strip().splitlines()[-1][:200] if o.strip() else ''
            meta['repo_tests_pass'] = bool(m and int(m.group(1)) >= 169 and not f)
            sh('git checkout -- tests/test_files; git clean -fdq', cwd=wt)
        rc1, o1 = sh('timeout 600 /venv/bin/python %s' % demo, cwd=out, env=env)
        meta['demo_exit_patched'] = rc1
        meta['demo_output_tail_patched'] = o1[-600:]
        meta['checks'] = {}
        for p in props:
            env2 = dict(os.environ, AEGMON_REPO=wt)
            rc2, o2 = sh('./check %s --tier %s --no-evidence' % (p, tier), cwd=VERIF, env=env2, timeout=7200)
            clauses = sorted(set(re.findall(r'clause=(\w+)', o2)))
            counts = dict(re.findall(r'"violations_(\w+)": (\d+)', o2))
            meta['checks'][p] = {'cmd': 'AEGMON_REPO=%s ./check %s --tier %s --no-evidence' % (wt, p, tier), 'exit': rc2,
                                 'clauses_reported': clauses, 'violation_counts': counts,
                                 'inconclusive': re.findall(r'INCONCLUSIVE.*', o2)[:3],
                                 'summary': [l[:300] for l in o2.splitlines() if 'tier=' in l][:1]}
        meta['caught'] = any(c['exit'] == 1 for c in meta['checks'].values())
    finally:
        sh('git checkout -- . && git clean -fdq', cwd=wt)
    meta['wall_s'] = round(time.time() - t0, 1)
    return finish(meta, pid, n, patch, demo, out)


def finish(meta, pid, n, patch, demo, out):
    d = os.path.join(VERIF, 'seeded', '%s-%s%s' % (pid, TAG, n))
    os.makedirs(d, exist_ok=True)
    shutil.copy(patch, os.path.join(d, 'patch.diff'))
    if os.path.exists(demo):
        shutil.copy(demo, os.path.join(d, 'demo.py'))
    notes = os.path.join(out, 'notes.md')
    if os.path.exists(notes):
        shutil.copy(notes, os.path.join(d, 'agent_notes.md'))
    old = {}
    mp = os.path.join(d, 'meta.json')
    if os.path.exists(mp):
        old = json.load(open(mp))
    hist = old.get('history', [])
    if old:
        hist.append({k: old[k] for k in old if k != 'history'})
    meta['history'] = hist[-5:]
    json.dump(meta, open(mp, 'w'), indent=1)
    print(json.dumps({k: meta[k] for k in meta if k not in ('history', 'demo_output_tail_patched')}, indent=1)[:2500])


if __name__ == '__main__':
    main()
