"""Parent side of the BANE runs: launches aegmon.bane_child in its own session, watches progress through the
result file and the hook event logs, and decides hangs by a *deadlock certificate* (stack dumps of every process
of the run, taken twice), never by wall clock alone."""
import json
import os
import re
import signal
import subprocess
import sys
import time

import numpy as np

POINTS = ['start', 'bkg_written', 'after_barrier1', 'bkg_subtracted', 'rms_written', 'after_barrier2', 'end']


def write_fits(path, data, header=None, bscale=None, extra_axes=0):
    from astropy.io import fits
    d = np.asarray(data)
    for _ in range(extra_axes):
        d = d[None]
    hdu = fits.PrimaryHDU(d)
    if header:
        for k, v in header.items():
            hdu.header[k] = v
    hdu.writeto(path, overwrite=True)


def _session_pids(sid):
    pids = []
    for d in os.listdir('/proc'):
        if not d.isdigit():
            continue
        try:
            with open('/proc/%s/stat' % d) as f:
                st = f.read()
            rp = st.rindex(')')
            fields = st[rp + 2:].split()
            if int(fields[3]) == sid and fields[0] != 'Z':      # field 6 overall = session id
                pids.append(int(d))
        except (OSError, ValueError):
            continue
    return sorted(pids)


def _dump_stacks(sid, stacks_path):
    """ask every process of the session for its Python stacks, one at a time; returns {pid: text}"""
    out = {}
    for pid in _session_pids(sid):
        try:
            with open('/proc/%d/cmdline' % pid) as f:
                if 'resource_tracker' in f.read():
                    continue
        except OSError:
            continue
        try:
            before = os.path.getsize(stacks_path)
        except OSError:
            before = 0
        try:
            os.kill(pid, signal.SIGUSR1)
        except OSError:
            continue
        t_end = time.monotonic() + 2.0
        txt = ''
        last = -1
        while time.monotonic() < t_end:
            time.sleep(0.08)
            try:
                size = os.path.getsize(stacks_path)
            except OSError:
                size = 0
            if size > before and size == last:
                break
            last = size
        try:
            with open(stacks_path) as f:
                f.seek(before)
                txt = f.read()
        except OSError:
            pass
        out[pid] = txt
    return out


def _classify_stack(txt):
    if not txt.strip():
        return 'no_dump'
    if 'sigma_filter' in txt:
        # most recent call first: is the innermost activity a barrier wait?
        head = txt.split('sigma_filter')[0]
        if re.search(r'threading\.py", line \d+ in (wait|_wait|_enter)', head) or \
                re.search(r'synchronize\.py", line \d+ in (wait|wait_for|__enter__)', head):
            return 'barrier_wait'
        return 'computing'
    if re.search(r'pool\.py", line \d+ in worker', txt):
        return 'idle_worker'
    if re.search(r'pool\.py", line \d+ in (get|wait|join)', txt) or 'filter_mc_sharemem' in txt:
        return 'parent_waiting'
    return 'other'


def parse_log(path):
    """-> list of (t_ns, pid, stripe_row, tag)"""
    ev = []
    if not os.path.exists(path):
        return ev
    with open(path) as f:
        for line in f:
            p = line.split()
            if len(p) != 4:
                continue
            try:
                ev.append((int(p[0]), int(p[1]), int(p[2]), p[3]))
            except ValueError:
                continue
    ev.sort()
    return ev


def check_log(ev, mask=True):
    """offline checker over one successful run's event log -> (problems, info)"""
    problems = []
    by = {}
    for t, pid, row, tag in ev:
        by.setdefault(row, []).append((t, tag, pid))
    expect = [p for p in POINTS if mask or p != 'after_barrier2']
    for row, lst in by.items():
        base = [tag for _, tag, _ in lst if not tag.endswith(':resume')]
        if base != expect:
            problems.append({'clause': 'log_exactly_once_in_order', 'stripe': row, 'saw': base})
        if len(set(pid for _, _, pid in lst)) != 1:
            problems.append({'clause': 'log_stripe_one_process', 'stripe': row})

    def arrivals(point):
        out = {}
        for row, lst in by.items():
            ts = [t for t, tag, _ in lst if tag in (point, point + ':resume')]
            if ts:
                out[row] = max(ts)
        return out

    def first(point):
        return {row: min(t for t, tag, _ in lst if tag == point) for row, lst in by.items()
                if any(tag == point for _, tag, _ in lst)}
    info = {'stripes': sorted(by)}
    for arr_pt, dep_pt in (('bkg_written', 'after_barrier1'), ('rms_written', 'after_barrier2')):
        if dep_pt == 'after_barrier2' and not mask:
            continue
        a = arrivals(arr_pt)
        d = first(dep_pt)
        if a and d and max(a.values()) > min(d.values()):
            late = max(a, key=a.get)
            early = min(d, key=d.get)
            problems.append({'clause': 'barrier_safety', 'barrier': dep_pt,
                             'detail': 'stripe %d passed %s %.3f ms before stripe %d arrived' % (
                                 early, dep_pt, (a[late] - d[early]) / 1e6, late)})
        info['order_' + arr_pt] = [r for r in sorted(a, key=a.get)]
        info['order_' + dep_pt] = [r for r in sorted(d, key=d.get)]
    return problems, info


def run_specs(specs, scratch, quiet_s=20.0, hard_s=240.0, env_extra=None):
    """Execute the specs (each a dict for bane_child, 'k' unique) -> {k: record}.

    record['status'] in ok | raised | hang (with 'certificate') | stuck (no certificate: inconclusive) | crashed
    """
    results = {}
    todo = list(specs)
    attempt = 0
    for s in todo:
        s.setdefault('log', os.path.join(scratch, 'run_%s.log' % s['k']))
    while todo:
        attempt += 1
        sp = os.path.join(scratch, 'specs_%d.json' % attempt)
        rp = os.path.join(scratch, 'results_%d.jsonl' % attempt)
        with open(sp, 'w') as f:
            json.dump(todo, f)
        env = dict(os.environ)
        env.update(env_extra or {})
        proc = subprocess.Popen([sys.executable, '-m', 'aegmon.bane_child', sp, rp], env=env,
                                start_new_session=True, stdout=subprocess.DEVNULL, stderr=subprocess.PIPE)
        current = None
        t_begin = time.monotonic()
        last_sig = None
        last_change = time.monotonic()
        verdict = None
        while True:
            rc = proc.poll()
            cur, recs = _read_results(rp)
            for r in recs:
                results[r['k']] = r
            if cur != current:
                current = cur
                t_begin = time.monotonic()
                last_change = time.monotonic()
            if rc is not None:
                break
            sig = (os.path.getsize(rp) if os.path.exists(rp) else 0,
                   _size(next((s['log'] for s in todo if s['k'] == current), None)))
            if sig != last_sig:
                last_sig = sig
                last_change = time.monotonic()
            # signal injection: once the current run's log shows `count` events `after_event`, signal the whole group
            if current is not None:
                spc = next((s_ for s_ in todo if s_['k'] == current), None)
                sg = (spc or {}).get('signal')
                if sg and not spc.get('_signalled'):
                    n_ev = sum(1 for e in parse_log(spc['log']) if e[3] == sg['after_event'])
                    if n_ev >= sg['count']:
                        time.sleep(sg.get('settle', 0.2))
                        try:
                            os.killpg(proc.pid, getattr(signal, 'SIG' + sg['sig']))
                        except ProcessLookupError:
                            pass
                        spc['_signalled'] = time.monotonic()
            quiet = time.monotonic() - last_change
            if current is not None and quiet > quiet_s:
                cert = _certificate(proc.pid, rp + '.stacks', next(s for s in todo if s['k'] == current))
                if cert['deadlock']:
                    verdict = ('hang', cert)
                    break
                if time.monotonic() - t_begin > hard_s:
                    verdict = ('stuck', cert)
                    break
                last_change = time.monotonic() - quiet_s / 2      # look again in a while
            if current is None and time.monotonic() - last_change > quiet_s:
                # nothing is being judged (between runs, or all runs recorded) and the child does not move: e.g. the
                # interpreter blocked at shutdown by a pool the subject abandoned.  Not a judged run: end the child.
                break
            time.sleep(0.05)
        if verdict is not None:
            _kill(proc)
            spec = next(s for s in todo if s['k'] == current)
            results[current] = {'k': current, 'status': verdict[0], 'certificate': verdict[1],
                                't': time.monotonic() - t_begin}
            _cleanup_shm(verdict[1].get('shm_names', []))
        else:
            cur, recs = _read_results(rp)
            for r in recs:
                results[r['k']] = r
            if current is not None and current not in results:
                err = (proc.stderr.read() or b'').decode(errors='replace')[-1500:]
                results[current] = {'k': current, 'status': 'crashed', 'returncode': proc.returncode, 'stderr': err}
            _kill(proc)
        todo = [s for s in todo if s['k'] not in results]
        if attempt > len(specs) + 2:
            break
    return results


def _size(p):
    try:
        return os.path.getsize(p) if p else 0
    except OSError:
        return 0


def _read_results(rp):
    cur = None
    recs = []
    if not os.path.exists(rp):
        return cur, recs
    with open(rp) as f:
        for line in f:
            try:
                r = json.loads(line)
            except ValueError:
                continue
            if 'begin' in r:
                cur = r['begin']
            elif 'k' in r:
                recs.append(r)
                if r['k'] == cur:
                    cur = None
    return cur, recs


def _kill(proc):
    try:
        os.killpg(proc.pid, signal.SIGKILL)
    except (ProcessLookupError, PermissionError):
        pass
    try:
        proc.wait(timeout=10)
    except Exception:
        pass
    try:
        if proc.stderr:
            proc.stderr.close()
    except Exception:
        pass


def _cleanup_shm(names):
    for n in names:
        try:
            os.unlink('/dev/shm/' + n.lstrip('/'))
        except OSError:
            pass


def _certificate(sid, stacks_path, spec):
    """two rounds of stack dumps; deadlock iff both rounds agree, nobody is computing, somebody waits at the
    barrier, and the event log did not move in between"""
    size0 = _size(spec['log'])
    d1 = _dump_stacks(sid, stacks_path)
    time.sleep(1.0)
    d2 = _dump_stacks(sid, stacks_path)
    size1 = _size(spec['log'])
    c1 = {pid: _classify_stack(t) for pid, t in d1.items()}
    c2 = {pid: _classify_stack(t) for pid, t in d2.items()}
    kinds = sorted(c2.values())
    ev = parse_log(spec['log'])
    last = {}
    for t, pid, row, tag in ev:
        last[row] = tag
    # shared memory segments of this run: opened by the parent of the workers
    shm = []
    for pid in c2:
        try:
            for fd in os.listdir('/proc/%d/fd' % pid):
                try:
                    tgt = os.readlink('/proc/%d/fd/%s' % (pid, fd))
                except OSError:
                    continue
                if tgt.startswith('/dev/shm/ibkg_') or tgt.startswith('/dev/shm/irms_'):
                    shm.append(os.path.basename(tgt.split(' ')[0]))
        except OSError:
            pass
    # no process has an enabled step: workers wait at the barrier or sit idle waiting for a task that the pool
    # is not handing out, and the parent waits for a result
    # (that includes a parent joining a pool whose workers are all gone)
    blocked = set(kinds) <= {'barrier_wait', 'idle_worker', 'parent_waiting'}
    deadlock = (c1 == c2 and size0 == size1 and 'computing' not in kinds and 'no_dump' not in kinds
                and 'other' not in kinds and 'parent_waiting' in kinds and blocked)
    return {'deadlock': bool(deadlock), 'process_states': kinds, 'last_event_per_stripe': last,
            'stripes_started': len(last), 'waiting_at_barrier': kinds.count('barrier_wait'),
            'idle_workers': kinds.count('idle_worker'), 'shm_names': sorted(set(shm)),
            'sample_stack': next((t[-700:] for p, t in d2.items() if c2[p] == 'barrier_wait'), '')}
