"""
Runner: tiers, seeds, fan-out over cores with subprocess batches, watchdogs, verdict folding,
VIOLATION / KNOWN-FINDING / INCONCLUSIVE lines, evidence writer.

A property module (aegmon.props.cXX) provides
    ID, LEVEL, RULE (str), ASSUMPTIONS (list of str)
    cases(seed, tier)        -> iterable of JSON-serialisable case dicts
    run(case)                -> result dict (see aegmon.common.Result)
  optional
    fold(cases, results, tier) -> dict(extra_coverage=..., violations=[...], inconclusive=[...])
    MIN_REACH                -> {"module:qualname": minimum PY_START count}   (zero => inconclusive)
    MIN_COUNTERS             -> {counter name: minimum}                        (below => inconclusive)
    BATCH_TIMEOUT, CASE_TIMEOUT_VERDICT, JOBS, BATCHES_PER_JOB
"""
import argparse
import concurrent.futures as cf
import hashlib
import importlib
import json
import os
import shutil
import signal
import subprocess
import sys
import tempfile
import time

HERE = os.path.dirname(os.path.dirname(os.path.abspath(__file__)))
PY = sys.executable


def case_hash(case):
    return hashlib.sha1(json.dumps(case, sort_keys=True, default=str).encode()).hexdigest()[:16]


def load_known():
    p = os.path.join(HERE, 'known_findings.json')
    if not os.path.exists(p):
        return []
    with open(p) as f:
        return json.load(f).get('findings', [])


def run_batch(prop, tier, cases, idxs, timeout, tmpdir, tag):
    """Run the cases[idxs] in one child process.  Returns (results{idx:res}, reach, note)."""
    results = {}
    reach = {}
    notes = []
    todo = list(idxs)
    attempt = 0
    while todo:
        attempt += 1
        inp = os.path.join(tmpdir, 'in_%s_%d.json' % (tag, attempt))
        out = os.path.join(tmpdir, 'out_%s_%d.jsonl' % (tag, attempt))
        with open(inp, 'w') as f:
            json.dump({'prop': prop, 'tier': tier, 'idxs': todo, 'cases': [cases[i] for i in todo]}, f)
        env = dict(os.environ)
        env['AEGMON_SCRATCH'] = os.path.join(tmpdir, 'w_%s_%d' % (tag, attempt))
        os.makedirs(env['AEGMON_SCRATCH'], exist_ok=True)
        proc = subprocess.Popen([PY, '-m', 'aegmon.worker', inp, out], env=env, start_new_session=True,
                                stdout=subprocess.PIPE, stderr=subprocess.STDOUT, cwd=HERE)
        timed_out = False
        try:
            outtxt, _ = proc.communicate(timeout=timeout)
        except subprocess.TimeoutExpired:
            timed_out = True
            try:
                os.killpg(proc.pid, signal.SIGKILL)
            except ProcessLookupError:
                pass
            outtxt, _ = proc.communicate()
        else:
            # make sure nothing of the group is left (BANE workers etc.)
            try:
                os.killpg(proc.pid, signal.SIGKILL)
            except (ProcessLookupError, PermissionError):
                pass
        done = set()
        started = None
        if os.path.exists(out):
            with open(out) as f:
                for line in f:
                    try:
                        rec = json.loads(line)
                    except ValueError:
                        continue
                    if 'start' in rec:
                        started = rec['start']
                    elif 'i' in rec:
                        results[rec['i']] = rec['result']
                        done.add(rec['i'])
                    elif 'reach' in rec:
                        for k, v in rec['reach'].items():
                            reach[k] = reach.get(k, 0) + v
        shutil.rmtree(env['AEGMON_SCRATCH'], ignore_errors=True)
        remaining = [i for i in todo if i not in done]
        if not remaining:
            break
        # the child died or hung on case `started`
        culprit = started if (started in remaining) else remaining[0]
        tail = (outtxt or b'').decode(errors='replace')[-3000:]
        results[culprit] = {'verdict': 'timeout' if timed_out else 'crash',
                            'returncode': proc.returncode, 'output_tail': tail}
        notes.append('case %d: %s' % (culprit, results[culprit]['verdict']))
        todo = [i for i in remaining if i != culprit]
    return results, reach, notes


def merge_obs(agg, res):
    for k, v in (res.get('counters') or {}).items():
        agg['counters'][k] = agg['counters'].get(k, 0) + v
    for k, v in (res.get('maxima') or {}).items():
        if v is None:
            continue
        if k not in agg['maxima'] or v > agg['maxima'][k]:
            agg['maxima'][k] = v
    for k, v in (res.get('sets') or {}).items():
        s = agg['sets'].setdefault(k, set())
        for x in v:
            s.add(x if not isinstance(x, list) else tuple(x))


def main(argv=None):
    ap = argparse.ArgumentParser()
    ap.add_argument('prop')
    ap.add_argument('--tier', default=os.environ.get('VERIF_TIER', 'quick'), choices=['quick', 'thorough'])
    ap.add_argument('--replay')
    ap.add_argument('--jobs', type=int, default=int(os.environ.get('VERIF_JOBS', '16')))
    ap.add_argument('--no-evidence', action='store_true')
    ap.add_argument('--limit', type=int, default=0, help='debug: only the first N cases')
    a = ap.parse_args(argv)
    prop = a.prop.upper()
    seed = int(os.environ.get('VERIF_SEED', '0') or 0)
    mod = importlib.import_module('aegmon.props.' + prop.lower())

    if a.replay:
        sys.path.insert(0, os.environ.get('AEGMON_REPO', '/repo'))      # same import rule as the workers
        with open(a.replay) as f:
            rp = json.load(f)
        from aegmon import worker
        res = worker.run_one(mod, rp['case'])
        print(json.dumps(res, indent=1, default=str)[:20000])
        known = [k for k in load_known() if k.get('property') == prop and k.get('status') == 'known']
        viol = [v for v in res.get('violations', [])]
        unknown = [v for v in viol if not any(k['key'] == v.get('mechanism') for k in known)]
        if unknown or res.get('verdict') in ('timeout', 'crash'):
            print('VIOLATION property=%s replay=%s' % (prop, a.replay))
            return 1
        for v in viol:
            print('KNOWN-FINDING: property=%s %s' % (prop, v.get('mechanism')))
        print('replay: held')
        return 0

    t0 = time.time()
    cases = list(mod.cases(seed, a.tier))
    if a.limit:
        cases = cases[:a.limit]
    # every fifth case (seed dependent) runs with the logging level at DEBUG; the flag travels in the case so replays repeat it
    for i, c in enumerate(cases):
        if isinstance(c, dict) and (i + 3 * seed) % 5 == 2:
            c['_debug_logging'] = True
    n = len(cases)
    jobs = min(a.jobs, getattr(mod, 'JOBS', a.jobs))
    bpj = getattr(mod, 'BATCHES_PER_JOB', 3)
    nb = max(1, min(n, jobs * bpj))
    # round-robin so that expensive neighbours spread over batches
    batches = [list(range(b, n, nb)) for b in range(nb)]
    timeout = getattr(mod, 'BATCH_TIMEOUT', 900 if a.tier == 'quick' else 3600)
    tmpdir = tempfile.mkdtemp(prefix='aegmon_%s_' % prop)
    results = {}
    reach = {}
    notes = []
    try:
        with cf.ThreadPoolExecutor(max_workers=jobs) as ex:
            futs = [ex.submit(run_batch, prop, a.tier, cases, b, timeout, tmpdir, str(k))
                    for k, b in enumerate(batches) if b]
            for fu in cf.as_completed(futs):
                r, rc, nt = fu.result()
                results.update(r)
                for k, v in rc.items():
                    reach[k] = reach.get(k, 0) + v
                notes.extend(nt)
    finally:
        shutil.rmtree(tmpdir, ignore_errors=True)

    # ---------------------------------------------------------------- fold
    agg = {'counters': {}, 'maxima': {}, 'sets': {}}
    violations = []      # (case index or None, violation dict)
    inconclusive = []
    n_eval = 0
    nontriv_hashes = {}
    n_undet = 0
    timeout_verdict = getattr(mod, 'CASE_TIMEOUT_VERDICT', 'inconclusive')
    for i in range(n):
        res = results.get(i)
        if res is None:
            inconclusive.append('case %d produced no result' % i)
            continue
        v = res.get('verdict')
        if v in ('timeout', 'crash'):
            hv = None
            if hasattr(mod, 'on_abnormal'):
                hv = mod.on_abnormal(cases[i], res)
            if hv is not None:
                res = hv
                results[i] = res
                v = res.get('verdict')
            elif timeout_verdict == 'inconclusive' or v == 'crash':
                inconclusive.append('case %d %s: %s' % (i, v, (res.get('output_tail') or '')[-400:]))
                continue
        if v == 'error':
            inconclusive.append('case %d harness error: %s' % (i, str(res.get('error'))[-600:]))
            continue
        n_eval += int(res.get('n_eval', 1))
        merge_obs(agg, res)
        if v == 'undetermined':
            n_undet += 1
        nn = int(res.get('n_nontrivial', 1 if v in ('held', 'violated') else 0))
        if nn > 0:
            h = case_hash(cases[i])
            nontriv_hashes[h] = max(nontriv_hashes.get(h, 0), nn)
        for viol in res.get('violations', []) or []:
            violations.append((i, viol))
    extra = {}
    if hasattr(mod, 'fold'):
        fr = mod.fold(cases, [results.get(i) for i in range(n)], a.tier) or {}
        extra = fr.get('extra_coverage', {})
        for viol in fr.get('violations', []):
            violations.append((viol.get('case_index'), viol))
        inconclusive.extend(fr.get('inconclusive', []))
    for k, mn in getattr(mod, 'MIN_REACH', {}).items():
        if reach.get(k, 0) < mn:
            inconclusive.append('reach %s = %d < %d' % (k, reach.get(k, 0), mn))
    mc = getattr(mod, 'MIN_COUNTERS', {})
    if isinstance(mc, dict) and a.tier in mc and isinstance(mc[a.tier], dict):
        mc = mc[a.tier]
    for k, mn in mc.items():
        if isinstance(mn, dict):
            continue
        if agg['counters'].get(k, 0) < mn:
            inconclusive.append('counter %s = %d < %d' % (k, agg['counters'].get(k, 0), mn))
    distinct_nontrivial = sum(nontriv_hashes.values())

    # ---------------------------------------------------------------- known findings
    known = [k for k in load_known() if k.get('property') == prop and k.get('status') == 'known']
    known_hits = {}
    unknown = []
    for i, viol in violations:
        mech = viol.get('mechanism')
        hit = next((k for k in known if k['key'] == mech), None) if mech else None
        if hit:
            known_hits.setdefault(hit['key'], []).append((i, viol))
        else:
            unknown.append((i, viol))

    out_lines = []
    replay_paths = []
    rdir = os.path.join(HERE, 'replays', prop)
    seen_vk = set()
    for i, viol in unknown:
        vk = (i, viol.get('clause'))
        if vk in seen_vk or len(seen_vk) >= 12:
            continue
        seen_vk.add(vk)
        os.makedirs(rdir, exist_ok=True)
        case = cases[i] if i is not None else {'fold': True}
        p = os.path.join(rdir, case_hash([case, viol.get('clause')]) + '.json')
        with open(p, 'w') as f:
            json.dump({'property': prop, 'tier': a.tier, 'seed': seed, 'case': case, 'violation': viol},
                      f, indent=1, default=str)
        replay_paths.append(p)
        out_lines.append('VIOLATION property=%s replay=%s' % (prop, p))
        out_lines.append('  clause=%s mechanism=%s witness=%s' % (
            viol.get('clause'), viol.get('mechanism'), json.dumps(viol.get('witness'), default=str)[:600]))
    for key, hits in known_hits.items():
        desc = next(k for k in known if k['key'] == key).get('what', key)
        out_lines.append('KNOWN-FINDING: property=%s %s [%s] (%d occurrences this run)' % (prop, desc, key, len(hits)))

    wall = time.time() - t0
    samples = []
    step = max(1, n // 5)
    for i in list(range(0, n, step))[:5]:
        s = {'case': cases[i]}
        r = results.get(i) or {}
        s['verdict'] = r.get('verdict')
        if r.get('sample') is not None:
            s['observed'] = r['sample']
        samples.append(json.loads(json.dumps(s, default=str)[:4000] if len(json.dumps(s, default=str)) <= 4000
                                  else json.dumps({'case_hash': case_hash(cases[i]), 'kind': cases[i].get('kind'),
                                                   'verdict': r.get('verdict'),
                                                   'observed': str(r.get('sample'))[:1500]})))
    coverage = {
        'evaluations': int(n_eval),
        'distinct_nontrivial': int(distinct_nontrivial),
        'rule': getattr(mod, 'RULE', ''),
        'samples': samples,
        'cases': n,
        'undetermined_cases': n_undet,
        'counters': agg['counters'],
        'worst_margins': agg['maxima'],
        'distinct_values_seen': {k: sorted(v, key=str)[:200] for k, v in agg['sets'].items()},
        'reach_py_start': {k: reach[k] for k in sorted(reach, key=lambda x: -reach[x])[:60]},
        'known_findings_observed': {k: len(v) for k, v in known_hits.items()},
        'inconclusive_reasons': inconclusive[:20],
        'abnormal_notes': notes[:20],
    }
    coverage.update(extra)
    ev = {
        'property_id': prop, 'tier': a.tier, 'seed': seed, 'level': getattr(mod, 'LEVEL', 'exploration'),
        'coverage': coverage, 'assumptions': getattr(mod, 'ASSUMPTIONS', []),
        'wall_s': round(wall, 2), 'violations': len(unknown),
        'verdict': 'violated' if unknown else ('inconclusive' if inconclusive else 'held on what was observed'),
    }
    if not a.no_evidence:
        os.makedirs(os.path.join(HERE, 'evidence'), exist_ok=True)
        with open(os.path.join(HERE, 'evidence', prop + '.json'), 'w') as f:
            json.dump(ev, f, indent=1, default=str)
    for l in out_lines:
        print(l)
    print('%s tier=%s seed=%d cases=%d evaluations=%d distinct_nontrivial=%d undetermined=%d wall=%.1fs' % (
        prop, a.tier, seed, n, n_eval, distinct_nontrivial, n_undet, wall))
    print('  counters: %s' % json.dumps(agg['counters'], sort_keys=True)[:1500])
    print('  worst margins: %s' % json.dumps(agg['maxima'], sort_keys=True)[:1500])
    if unknown:
        return 1
    if inconclusive:
        for r in inconclusive[:10]:
            print('INCONCLUSIVE property=%s reason=%s' % (prop, r))
        return 2
    print('%s: held on what was observed' % prop)
    return 0


if __name__ == '__main__':
    sys.exit(main())
