"""C16 - pixel <-> sky conversion of positions, vectors and ellipses: inverse and correct.

icontract postconditions (recording conditions, never raising) are installed on the real methods of
AegeanTools.wcs_helpers.WCSHelper.  They compare every call with an independent FITS-WCS implementation
(aegmon.refs.wcs_zenithal, no astropy) and independent spherical geometry (aegmon.refs.sphere), and close the
round trip through the *unwrapped* partner method.  `install()` / `set_obs(o)` let other property modules arm the
same contracts during their workloads (C01/C05/C14); outside the domain below the contracts only count.

Conventions of the subject: a "pixel" is (x, y) = (row, column), 1-based, i.e. FITS pixel (p1, p2) = (y, x);
pixel angles theta are measured from the +x (row) axis towards +y (column); sky angles are position angles.

Domain (DESIGN.md C16/B):
  * positions: finite, <= DOM_POS deg from the reference point (far inside every zenithal projection's validity)
  * vectors: length > 0, origin in the position domain, length <= 1 deg
  * ellipses: origin <= 3 deg from the reference point and both axes <= 0.1 deg.  The ellipse transform is the image
    of two vectors, so the round trip is exact for a linear pixel<->sky map and only first-order exact on the
    sphere (error ~ angular length x off-axis angle): 4.5e-4 was measured with 0.33 deg ellipses at 3 deg, the
    same scaling gives <= 1.5e-4 inside this domain.  The observed maximum is reported; > 5e-4 is flagged thin.
  * the position angle of an ellipse is judged modulo 180 deg (an ellipse has no head), that of a vector modulo 360.
"""
import os
import shutil

import numpy as np

from aegmon.common import Obs, rng_for, n_distinct_rows, scratch_dir
from aegmon.refs import sphere, wcs_zenithal as wz

ID = 'C16'
LEVEL = 'exploration'
RULE = ('a case is one FITS header (projection x reference point x pixel scale(s) x CRPIX x CDELT/CD form) with n seeded '
        'pixel positions; per position the six WCSHelper transforms are called (pix2sky, sky2pix, *_vec, *_ellipse) and '
        'every call, including the nested ones the subject makes itself, is one contract evaluation; strata: five '
        'projections, CRVAL dec 0/+-30/+-60/+-85, RA wrap, scales 1..60 arcsec, non-square pixels, CD form, CRPIX off '
        'the image, image corners/edges, PAs on the cardinal values and +-180; whole-number positions spelled as Python '
        'ints, int lists, int32/int64 ndarrays, numpy integer scalars and mixed int/float (must equal the float spelling, '
        'for every method, also with integer lengths/angles); non-trivial = finite input with non-zero '
        'length inside the domain; distinct = unique argument rows within a case (cases with equal hash counted once)')
ASSUMPTIONS = ['oracle: aegmon/refs/wcs_zenithal.py (geometric formulation of FITS paper II zenithal projections, no astropy), '
               'cross-checked at start-up against astropy.wcs to 1e-10 deg; aegmon/refs/sphere.py for lengths and angles',
               'ellipse round trip judged only for origin <= 3 deg off axis and axes <= 0.1 deg (first-order exactness)',
               'CDELT, CDELT+PC, CDELT+CROTA2 or CD headers; TAN-SIP with the forward polynomial applied by the oracle (corner distortion <= 0.8 px on >= 1000 px images at 1-2 arcsec/px, so that astropy\'s iterative inverse - terminated at 1e-4 px, contraction <= 3.4e-3 - is within 3.4e-7 px of exact); PV terms and look-up-table distortions are counted as unsupported, not judged',
               'psf maps: the expected beam is only defined where it does not depend on the look-up convention (3 x 3 constant neighbourhood inside the map; >= 1.5 map pixels beyond an edge the nearest edge rows/columns, the map being clamped there)',
               'IEEE double arithmetic']
MIN_REACH = {'wcs_helpers:WCSHelper.pix2sky': 1, 'wcs_helpers:WCSHelper.sky2pix': 1,
             'wcs_helpers:WCSHelper.sky2pix_vec': 1, 'wcs_helpers:WCSHelper.pix2sky_vec': 1,
             'wcs_helpers:WCSHelper.sky2pix_ellipse': 1, 'wcs_helpers:WCSHelper.pix2sky_ellipse': 1,
             'wcs_helpers:WCSHelper.get_psf_pix2pix': 1, 'wcs_helpers:WCSHelper.get_psf_sky2pix': 1,
             'wcs_helpers:WCSHelper.get_psf_sky2sky': 1, 'wcs_helpers:WCSHelper.get_skybeam': 1,
             'wcs_helpers:WCSHelper.get_beamarea_pix': 1, 'wcs_helpers:WCSHelper.psf_sky2pix': 1, 'wcs_helpers:WCSHelper.from_file': 1, 'wcs_helpers:get_beam': 1}
MIN_COUNTERS = {'contract_pix2sky': 1000, 'contract_sky2pix': 1000, 'contract_sky2pix_vec': 500,
                'contract_pix2sky_vec': 500, 'contract_sky2pix_ellipse': 500, 'contract_pix2sky_ellipse': 500,
                'east_of_north_checked': 50, 'psf_roundtrip_checked': 10, 'nonsquare_ellipse_roundtrips': 100,
                'int_spellings_checked': 1000, 'int_sky_spellings_checked': 100,
                'rotated_header_cases': 10, 'psf_lookups_judged': 300, 'psfmap_constant_maps': 5, 'psfmap_blocks_maps': 5,
                'psfmap_lookups_judged': 1000, 'psfmap_lookups_offdiagonal': 200,
                'psfmap_lookups_transposition_sensitive': 100, 'psfmap_areas_judged': 200,
                'sequence_helpers_judged': 100, 'sequence_rotated_helpers_judged': 40, 'sequence_lookups_judged': 500,
                'sip_header_cases': 6, 'sip_header_cases_with_inverse_polynomials': 2, 'psfmap_small_cols_maps': 3,
                'psfmap_small_rows_maps': 3, 'psfmap_beyond_edge_probes_judged': 150,
                'ctor_supplied_beam_helpers': 100, 'ctor_supplied_beam_header_same_beam': 30,
                'ctor_supplied_beam_header_different_beam': 30, 'ctor_supplied_beam_header_no_beam_keywords': 30,
                'ctor_lookups_judged': 1000,
                'ellipse_wide_domain_direct_only': 5000, 'ellipse_large_coarse_far_judged': 300}

TOL_PIX = 1e-6       # pixels, statement
TOL_SKY = 1e-9       # degrees, statement
TOL_REL = 1e-3       # relative length, statement
TOL_ANG = 0.01       # degrees, statement
DOM_POS = 20.0       # deg from the reference point: positions judged
DOM_ELL_OFF = 3.0    # deg from the reference point: ellipses judged
DOM_ELL_LEN = 0.1    # deg: ellipse axes judged
DOM_VEC_LEN = 1.0    # deg: vectors judged
DOM_ELL_WIDE = 0.4   # deg: ellipse axes for which the DIRECT clauses are judged (20 px at 60 arcsec = 0.33 deg), any position
                     # in the position domain: major axis and angle are, by definition, the image of the axis vector whose tip
                     # is carried through the oracle - exact at any size; only the round trip and the minor axis (conformal
                     # approximation) need the tight first-order domain above
THIN = 5e-4

_OBS = None
_installed = False
_ORIG = {}


class ContractBroken(Exception):
    pass


# ----------------------------------------------------------------------------- independent WCS of a helper
class _SipWCS(wz.ZenithalWCS):
    """ZenithalWCS preceded by the forward SIP polynomial (Shupe et al. 2005): with u, v the pixel offsets from CRPIX,
    u' = u + sum A_pq u^p v^q, v' = v + sum B_pq u^p v^q are what the CD matrix acts on.  The inverse is found by
    fixed-point iteration on the forward polynomial (contraction <= 1e-2 in the generated domain: 25 steps reach rounding
    level); the header's AP/BP approximation of the inverse is not used."""

    def __init__(self, d, a, b):
        wz.ZenithalWCS.__init__(self, d)
        self.sip_a = {k: float(v) for k, v in a.items() if float(v) != 0.0}
        self.sip_b = {k: float(v) for k, v in b.items() if float(v) != 0.0}

    @staticmethod
    def _poly(c, u, v):
        tot = np.zeros_like(u)
        for (p_, q_), val in c.items():
            tot = tot + val * u ** p_ * v ** q_
        return tot

    def pix2sky(self, p1, p2):
        u = np.asarray(p1, dtype=float) - self.crpix[0]
        v = np.asarray(p2, dtype=float) - self.crpix[1]
        return wz.ZenithalWCS.pix2sky(self, u + self._poly(self.sip_a, u, v) + self.crpix[0],
                                      v + self._poly(self.sip_b, u, v) + self.crpix[1])

    def sky2pix(self, ra, dec):
        f1, f2 = wz.ZenithalWCS.sky2pix(self, ra, dec)
        f1 = np.asarray(f1, dtype=float) - self.crpix[0]
        f2 = np.asarray(f2, dtype=float) - self.crpix[1]
        u, v = f1, f2
        for _ in range(25):
            u, v = f1 - self._poly(self.sip_a, u, v), f2 - self._poly(self.sip_b, u, v)
        return u + self.crpix[0], v + self.crpix[1]


def _strip_sip(ctype):
    ctype = str(ctype)
    return ctype[:-4] if ctype.endswith('-SIP') else ctype


def _zw(helper):
    """ZenithalWCS for this helper (cached on the instance); False when the header is outside the oracle's scope"""
    z = getattr(helper, '_aegmon_zwcs', None)
    if z is not None:
        return z
    try:
        w = helper.wcs
        ww = w.wcs
        if w.cpdis1 is not None or w.cpdis2 is not None or w.det2im1 is not None \
                or w.det2im2 is not None or len(ww.get_pv()) > 0:
            raise ValueError('distortions')
        m = np.asarray(w.pixel_scale_matrix, dtype=float)       # CDELT x PC or CD, parsed header values only
        hdr = {'CTYPE1': _strip_sip(ww.ctype[0]), 'CTYPE2': _strip_sip(ww.ctype[1]), 'CRVAL1': ww.crval[0], 'CRVAL2': ww.crval[1],
               'CRPIX1': ww.crpix[0], 'CRPIX2': ww.crpix[1],
               'CD1_1': m[0, 0], 'CD1_2': m[0, 1], 'CD2_1': m[1, 0], 'CD2_2': m[1, 1]}
        if np.isfinite(ww.lonpole) and ww.lonpole != 180.0:
            raise ValueError('lonpole')
        if w.sip is not None:               # parsed coefficient matrices a[p][q], b[p][q]
            sa, sb = np.asarray(w.sip.a, dtype=float), np.asarray(w.sip.b, dtype=float)
            z = _SipWCS(hdr, {(i, j): sa[i, j] for i in range(sa.shape[0]) for j in range(sa.shape[1])},
                        {(i, j): sb[i, j] for i in range(sb.shape[0]) for j in range(sb.shape[1])})
        else:
            z = wz.ZenithalWCS(hdr)         # general CD matrix: rotated grids are inside the oracle's formulation
    except Exception:
        z = False
    try:
        helper._aegmon_zwcs = z
    except Exception:
        pass
    return z


def _cd_from_header(h):
    """CD matrix (deg/pixel) from CDi_j, else CDELT x PCi_j, else CDELT + CROTA2 (FITS paper II, eq. 189) - parsed here,
    not by astropy"""
    if any(k in h for k in ('CD1_1', 'CD1_2', 'CD2_1', 'CD2_2')):
        return np.array([[h.get('CD1_1', 0.0), h.get('CD1_2', 0.0)], [h.get('CD2_1', 0.0), h.get('CD2_2', 0.0)]], dtype=float)
    c1, c2 = float(h['CDELT1']), float(h['CDELT2'])
    if any(k in h for k in ('PC1_1', 'PC1_2', 'PC2_1', 'PC2_2')):
        pc = np.array([[h.get('PC1_1', 1.0), h.get('PC1_2', 0.0)], [h.get('PC2_1', 0.0), h.get('PC2_2', 1.0)]], dtype=float)
        return np.array([[c1, 0.0], [0.0, c2]]) @ pc
    rho = np.radians(float(h.get('CROTA2', 0.0)))
    return np.array([[c1 * np.cos(rho), -c2 * np.sin(rho)], [c1 * np.sin(rho), c2 * np.cos(rho)]])


def _oracle_from_header(h):
    """ZenithalWCS of a header mapping, rotation (PC / CROTA2 / CD) included; raises outside the oracle's scope"""
    import re
    sip = str(h['CTYPE1']).endswith('-SIP') and str(h['CTYPE2']).endswith('-SIP')
    sa, sb = {}, {}
    for k in h.keys():
        k = str(k)
        if k.startswith(('PV', 'CROTA1', 'PC3', 'PC1_3', 'PC2_3', 'CPDIS', 'D2IM', 'DP', 'DQ')):
            raise ValueError('unsupported key %s' % k)
        m = re.match(r'^([AB])_(\d)_(\d)$', k)
        if m:
            if not sip:
                raise ValueError('SIP coefficients without -SIP in CTYPE')
            (sa if m.group(1) == 'A' else sb)[(int(m.group(2)), int(m.group(3)))] = float(h[k])
    cd = _cd_from_header(h)
    d = {'CTYPE1': _strip_sip(h['CTYPE1']), 'CTYPE2': _strip_sip(h['CTYPE2']), 'CRVAL1': h['CRVAL1'], 'CRVAL2': h['CRVAL2'],
         'CRPIX1': h['CRPIX1'], 'CRPIX2': h['CRPIX2'], 'CD1_1': cd[0, 0], 'CD1_2': cd[0, 1], 'CD2_1': cd[1, 0],
         'CD2_2': cd[1, 1]}
    for k in ('LONPOLE', 'LATPOLE'):
        if k in h:
            d[k] = h[k]
    if sip:
        return _SipWCS(d, sa, sb)
    return wz.ZenithalWCS(d)


def _attach_header(helper, header):
    """prefer the header itself (no astropy parsing at all) when it is a mapping the oracle supports"""
    try:
        if hasattr(header, 'keys') and 'CTYPE1' in header:
            helper._aegmon_zwcs = _oracle_from_header(header)
    except Exception:
        pass


_rot_checked = False


def _selfcheck_rotated():
    """the oracle on rotated grids (PC, CROTA2, CD spellings) against astropy.wcs, once per process; a disagreement is an
    oracle fault, never a violation"""
    global _rot_checked
    if _rot_checked:
        return
    from astropy.wcs import WCS
    worst = 0.0
    for proj in wz.PROJECTIONS:
        for crval in ((180.0, -30.0), (359.99, 85.0), (12.3, 0.0)):
            for rot in (40.0, -75.0, 120.0, 180.0):
                for form in ('pc_rot', 'crota', 'cd_rot'):
                    h = _rotate_header(wz.make_header(proj, crval, (20.3, 31.7), (-0.01, 0.01), (64, 48)), form, rot)
                    zz = _oracle_from_header(h)
                    p1, p2 = np.meshgrid(np.linspace(-10, 80, 5), np.linspace(-20, 90, 5))
                    sky = WCS(h, naxis=2).wcs_pix2world(np.column_stack([p1.ravel(), p2.ravel()]), 1)
                    ra, dec = zz.pix2sky(p1.ravel(), p2.ravel())
                    worst = max(worst, float(np.max(sphere.sep(sky[:, 0], sky[:, 1], ra, dec))))
    if not worst < 1e-10:
        raise RuntimeError('oracle fault: independent WCS disagrees with astropy.wcs on rotated grids by %g deg' % worst)
    _rot_checked = True


_sip_checked = False


def _selfcheck_sip():
    """forward SIP oracle against astropy's all_pix2world, and the oracle's own inverse, once per process"""
    global _sip_checked
    if _sip_checked:
        return
    from astropy.wcs import WCS
    import warnings
    h = wz.make_header('TAN', (201.0, -70.0), (400.3, 380.7), (-2.0 / 3600, 2.0 / 3600), (800, 820))
    sipc = {'A_2_0': 2.1e-6, 'A_1_1': 1.3e-6, 'A_0_2': -0.9e-6, 'A_3_0': 1.5e-9, 'B_2_0': -1.1e-6, 'B_1_1': 0.8e-6,
            'B_0_2': 1.9e-6, 'B_1_2': -2.0e-9}
    _add_sip(h, sipc, 3, False)
    zz = _oracle_from_header(h)
    p1, p2 = np.meshgrid(np.linspace(1, 820, 6), np.linspace(1, 800, 6))
    with warnings.catch_warnings():
        warnings.simplefilter('ignore')
        sky = WCS(h, naxis=2).all_pix2world(np.column_stack([p1.ravel(), p2.ravel()]), 1)
    ra, dec = zz.pix2sky(p1.ravel(), p2.ravel())
    worst = float(np.max(sphere.sep(sky[:, 0], sky[:, 1], ra, dec)))
    q1, q2 = zz.sky2pix(ra, dec)
    back = float(np.max(np.hypot(q1 - p1.ravel(), q2 - p2.ravel())))
    if not (worst < 1e-10 and back < 1e-9):
        raise RuntimeError('oracle fault: SIP oracle vs astropy %g deg, own inverse %g px' % (worst, back))
    _sip_checked = True


def _add_sip(h, coeffs, order, inverse):
    h['CTYPE1'] = _strip_sip(h['CTYPE1']) + '-SIP'
    h['CTYPE2'] = _strip_sip(h['CTYPE2']) + '-SIP'
    h['A_ORDER'] = int(order)
    h['B_ORDER'] = int(order)
    for k, v in coeffs.items():
        h[k] = float(v)
    if inverse:
        # first-order inverse polynomials (what many pipelines write); never used by all_world2pix nor by the oracle
        h['AP_ORDER'] = int(order)
        h['BP_ORDER'] = int(order)
        for k, v in coeffs.items():
            h[k[0] + 'P' + k[1:]] = float(-v)
    return h


def _rotate_header(h, form, rot):
    """re-express a north-up CDELT header on a grid rotated by `rot` degrees, in one of the three FITS spellings"""
    c1, c2 = float(h['CDELT1']) if 'CDELT1' in h else float(h['CD1_1']), float(h['CDELT2']) if 'CDELT2' in h else float(h['CD2_2'])
    r = np.radians(rot)
    if form == 'pc_rot':
        for k in ('CD1_1', 'CD1_2', 'CD2_1', 'CD2_2'):
            if k in h:
                del h[k]
        h['CDELT1'], h['CDELT2'] = c1, c2
        h['PC1_1'], h['PC1_2'], h['PC2_1'], h['PC2_2'] = float(np.cos(r)), float(-np.sin(r)), float(np.sin(r)), float(np.cos(r))
    elif form == 'crota':
        h['CDELT1'], h['CDELT2'] = c1, c2
        h['CROTA2'] = float(rot)
    elif form == 'cd_rot':
        for k in ('CDELT1', 'CDELT2'):
            if k in h:
                del h[k]
        h['CD1_1'], h['CD1_2'] = float(c1 * np.cos(r)), float(-c1 * np.sin(r))
        h['CD2_1'], h['CD2_2'] = float(c2 * np.sin(r)), float(c2 * np.cos(r))
    else:
        raise ValueError(form)
    return h


def _fin(*xs):
    try:
        return all(np.isfinite(float(x)) for x in xs)
    except (TypeError, ValueError):
        return False


def _off_axis(z, ra, dec):
    return float(sphere.sep(z.crval[0], z.crval[1], ra, dec))


def _pixel_in_domain(z, x, y):
    """a pixel position (Aegean order: x = FITS axis 2, y = FITS axis 1) whose intermediate world coordinates lie
    within DOM_POS degrees of the reference point.  Far outside that (a fit error of 1e8 pixels fed to pix2sky) the
    oracle's distance wraps around the sphere and a NaN from the subject is the right answer, not a violation."""
    d1 = float(y) - z.crpix[0]
    d2 = float(x) - z.crpix[1]
    u = z.cd[0, 0] * d1 + z.cd[0, 1] * d2
    v = z.cd[1, 0] * d1 + z.cd[1, 1] * d2
    return float(np.hypot(u, v)) <= DOM_POS


def _square(z):
    """square pixels on any orientation/parity: CD CD^T = s^2 I"""
    g = z.cd @ z.cd.T
    s2 = 0.5 * (g[0, 0] + g[1, 1])
    return abs(g[0, 0] - g[1, 1]) <= 2e-9 * s2 and abs(g[0, 1]) <= 1e-9 * s2


def _pixvec(z, ra0, dec0, ra1, dec1):
    """pixel displacement (length, theta from +row towards +column) between the images of two sky points"""
    a1, a2 = z.sky2pix(ra0, dec0)
    b1, b2 = z.sky2pix(ra1, dec1)
    dx = float(b2 - a2)      # rows
    dy = float(b1 - a1)      # columns
    return float(np.hypot(dx, dy)), float(np.degrees(np.arctan2(dy, dx)))


def _skyvec(z, x, y, x1, y1):
    ra0, dec0 = z.pix2sky(y, x)
    ra1, dec1 = z.pix2sky(y1, x1)
    return float(sphere.sep(ra0, dec0, ra1, dec1)), float(sphere.position_angle(ra0, dec0, ra1, dec1))


def _adiff(a, b, period):
    return abs(float(sphere.angdiff(a, b, period)))


def _rel(a, b):
    return abs(a - b) / abs(b)


# ----------------------------------------------------------------------------- contracts
def post_pix2sky(self, pixel, result):
    o = _OBS
    if o is None:
        return True
    z = _zw(self)
    if z is False:
        o.count('unsupported_wcs')
        return True
    x, y = pixel
    if not _fin(x, y):
        o.count('nonfinite_input')
        return True
    rra, rdec = z.pix2sky(y, x)
    if not (_pixel_in_domain(z, x, y) and _fin(rra, rdec) and _off_axis(z, rra, rdec) <= DOM_POS):
        o.count('position_out_of_domain')
        return True
    o.count('contract_pix2sky')
    o.n_eval += 1
    w = {'pixel_xy': [float(x), float(y)], 'result': [float(result[0]), float(result[1])],
         'fits_standard': [float(rra), float(rdec)], 'proj': z.proj, 'crval': list(z.crval), 'crpix': list(z.crpix),
         'cd': z.cd.tolist()}
    if not _fin(result[0], result[1]):
        o.violate('pix2sky_nonfinite', w)
        return True
    err = float(sphere.sep(result[0], result[1], rra, rdec))
    o.worst('pix2sky_vs_fits_deg', err)
    if not err <= TOL_SKY:
        o.violate('pix2sky_vs_fits', dict(w, error_deg=err))
    bx, by = _ORIG['sky2pix'](self, [result[0], result[1]])
    d = float(np.hypot(bx - x, by - y))
    o.worst('pix_roundtrip_px', d)
    if not d <= TOL_PIX:
        o.violate('pix_roundtrip', dict(w, back=[float(bx), float(by)], error_px=d))
    return True


def post_sky2pix(self, pos, result):
    o = _OBS
    if o is None:
        return True
    z = _zw(self)
    if z is False:
        o.count('unsupported_wcs')
        return True
    ra, dec = pos
    if not _fin(ra, dec):
        o.count('nonfinite_input')
        return True
    if not (abs(dec) <= 90 and _off_axis(z, ra, dec) <= DOM_POS):
        o.count('position_out_of_domain')
        return True
    o.count('contract_sky2pix')
    o.n_eval += 1
    x, y = result
    w = {'pos': [float(ra), float(dec)], 'result_xy': [float(x), float(y)], 'proj': z.proj, 'crval': list(z.crval),
         'crpix': list(z.crpix), 'cd': z.cd.tolist()}
    if not _fin(x, y):
        o.violate('sky2pix_nonfinite', w)
        return True
    sra, sdec = z.pix2sky(y, x)          # FITS-standard sky position of the returned pixel
    err = float(sphere.sep(sra, sdec, ra, dec))
    o.worst('sky2pix_vs_fits_deg', err)
    if not err <= TOL_SKY:
        r1, r2 = z.sky2pix(ra, dec)
        o.violate('sky2pix_vs_fits', dict(w, sky_of_result=[float(sra), float(sdec)], error_deg=err,
                                          reference_xy=[float(r2), float(r1)]))
    return True


def _vec_domain(o, z, ra, dec, r):
    if not (_fin(ra, dec, r) and abs(dec) <= 90):
        o.count('nonfinite_input')
        return False
    if not (r > 0):
        o.count('vector_zero_or_negative_length')
        return False
    if not (_off_axis(z, ra, dec) <= DOM_POS and r <= DOM_VEC_LEN):
        o.count('vector_out_of_domain')
        return False
    return True


def post_sky2pix_vec(self, pos, r, pa, result):
    o = _OBS
    if o is None:
        return True
    z = _zw(self)
    if z is False:
        o.count('unsupported_wcs')
        return True
    ra, dec = pos
    if not (_fin(pa) and _vec_domain(o, z, ra, dec, r)):
        return True
    x, y, a, theta = [float(v) for v in result]
    era, edec = sphere.destination(ra, dec, r, pa)
    lref, tref = _pixvec(z, ra, dec, era, edec)
    if not lref >= 1e-4:        # direction of a < 1e-4 px vector is rounding noise of the two positions
        o.count('vector_undetermined_tiny')
        return True
    o.count('contract_sky2pix_vec')
    o.n_eval += 1
    w = {'pos': [float(ra), float(dec)], 'r_deg': float(r), 'pa': float(pa), 'result': [x, y, a, theta],
         'reference_len_theta': [lref, tref], 'proj': z.proj, 'crval': list(z.crval), 'cd': z.cd.tolist()}
    if not _fin(a, theta):
        o.violate('sky2pix_vec_nonfinite', w)
        return True
    e1, e2 = _rel(a, lref), _adiff(theta, tref, 360.0)
    o.worst('sky2pix_vec_len_rel', e1)
    o.worst('sky2pix_vec_angle_deg', e2)
    if not (e1 <= TOL_REL and e2 <= TOL_ANG):
        o.violate('sky2pix_vec_vs_reference', dict(w, len_rel=e1, angle_deg=e2))
    _, _, rb, pb = _ORIG['pix2sky_vec'](self, (x, y), a, theta)
    e1, e2 = _rel(float(rb), r), _adiff(pb, pa, 360.0)
    o.worst('vec_roundtrip_len_rel', e1)
    o.worst('vec_roundtrip_angle_deg', e2)
    if not (e1 <= TOL_REL and e2 <= TOL_ANG):
        o.violate('vec_roundtrip_sky', dict(w, back=[float(rb), float(pb)], len_rel=e1, angle_deg=e2))
    return True


def post_pix2sky_vec(self, pixel, r, theta, result):
    o = _OBS
    if o is None:
        return True
    z = _zw(self)
    if z is False:
        o.count('unsupported_wcs')
        return True
    x, y = pixel
    if not _fin(x, y, r, theta):
        o.count('nonfinite_input')
        return True
    if not (r > 0):
        o.count('vector_zero_or_negative_length')
        return True
    x1 = x + r * np.cos(np.radians(theta))
    y1 = y + r * np.sin(np.radians(theta))
    ra0, dec0 = z.pix2sky(y, x)
    lref, pref = _skyvec(z, x, y, x1, y1)
    if not (_pixel_in_domain(z, x, y) and _pixel_in_domain(z, x1, y1) and _fin(ra0, dec0, lref)
            and _off_axis(z, ra0, dec0) <= DOM_POS and lref <= DOM_VEC_LEN):
        o.count('vector_out_of_domain')
        return True
    if not (r >= 1e-4 and lref >= 1e-9):
        o.count('vector_undetermined_tiny')
        return True
    o.count('contract_pix2sky_vec')
    o.n_eval += 1
    ra, dec, a, pa = [float(v) for v in result]
    w = {'pixel_xy': [float(x), float(y)], 'r_px': float(r), 'theta': float(theta), 'result': [ra, dec, a, pa],
         'reference_len_pa': [lref, pref], 'proj': z.proj, 'crval': list(z.crval), 'cd': z.cd.tolist()}
    if not _fin(a, pa):
        o.violate('pix2sky_vec_nonfinite', w)
        return True
    e1, e2 = _rel(a, lref), _adiff(pa, pref, 360.0)
    o.worst('pix2sky_vec_len_rel', e1)
    o.worst('pix2sky_vec_pa_deg', e2)
    if not (e1 <= TOL_REL and e2 <= TOL_ANG):
        o.violate('pix2sky_vec_vs_great_circle', dict(w, len_rel=e1, angle_deg=e2))
    _, _, rb, tb = _ORIG['sky2pix_vec'](self, (ra, dec), a, pa)
    e1, e2 = _rel(float(rb), r), _adiff(tb, theta, 360.0)
    o.worst('vec_roundtrip_len_rel', e1)
    o.worst('vec_roundtrip_angle_deg', e2)
    if not (e1 <= TOL_REL and e2 <= TOL_ANG):
        o.violate('vec_roundtrip_pix', dict(w, back=[float(rb), float(tb)], len_rel=e1, angle_deg=e2))
    return True


def post_sky2pix_ellipse(self, pos, a, b, pa, result):
    o = _OBS
    if o is None:
        return True
    z = _zw(self)
    if z is False:
        o.count('unsupported_wcs')
        return True
    ra, dec = pos
    if not (_fin(ra, dec, a, b, pa) and abs(dec) <= 90):
        o.count('nonfinite_input')
        return True
    if not (a > 0 and b > 0):
        o.count('ellipse_degenerate')
        return True
    tight = _off_axis(z, ra, dec) <= DOM_ELL_OFF and max(a, b) <= DOM_ELL_LEN
    if not (tight or (_off_axis(z, ra, dec) <= DOM_POS and max(a, b) <= DOM_ELL_WIDE and abs(dec) <= 89.0)):
        o.count('ellipse_out_of_domain')
        return True
    x, y, sx, sy, theta = [float(v) for v in result]
    e_ra, e_dec = sphere.destination(ra, dec, a, pa)
    lmaj, tmaj = _pixvec(z, ra, dec, e_ra, e_dec)
    e_ra, e_dec = sphere.destination(ra, dec, b, pa - 90.0)
    lmin, _ = _pixvec(z, ra, dec, e_ra, e_dec)
    if not (lmaj >= 1e-4 and lmin >= 1e-4):
        o.count('ellipse_undetermined_tiny')
        return True
    o.count('contract_sky2pix_ellipse')
    o.n_eval += 1
    w = {'pos': [float(ra), float(dec)], 'a_b_pa': [float(a), float(b), float(pa)], 'result': [x, y, sx, sy, theta],
         'reference_major_len_theta': [lmaj, tmaj], 'reference_minor_len': lmin, 'proj': z.proj,
         'crval': list(z.crval), 'crpix': list(z.crpix), 'cd': z.cd.tolist(),
         'off_axis_deg': _off_axis(z, ra, dec)}
    if not _fin(sx, sy, theta):
        o.violate('sky2pix_ellipse_nonfinite', w)
        return True
    e1, e2 = _rel(sx, lmaj), _adiff(theta, tmaj, 180.0)
    o.worst('sky2pix_ellipse_major_rel', e1)
    o.worst('sky2pix_ellipse_theta_deg', e2)
    if not (e1 <= TOL_REL and e2 <= TOL_ANG):
        o.violate('sky2pix_ellipse_vs_reference', dict(w, len_rel=e1, angle_deg=e2))
    if not tight:
        o.count('ellipse_wide_domain_direct_only')
        return True
    if _square(z):
        # conformal to first order: the image of the perpendicular sky vector is the minor axis
        e3 = _rel(sy, lmin)
        o.worst('sky2pix_ellipse_minor_rel', e3)
        if not e3 <= TOL_REL:
            o.violate('sky2pix_ellipse_minor_vs_reference', dict(w, len_rel=e3))
    else:
        o.count('nonsquare_ellipse_roundtrips')
    _, _, ab, bb, pb = _ORIG['pix2sky_ellipse'](self, (x, y), sx, sy, theta)
    e1, e2, e3 = _rel(float(ab), a), _rel(float(bb), b), _adiff(pb, pa, 180.0)
    o.worst('ellipse_roundtrip_major_rel', e1)
    o.worst('ellipse_roundtrip_minor_rel', e2)
    o.worst('ellipse_roundtrip_pa_deg', e3)
    if not (e1 <= TOL_REL and e2 <= TOL_REL and e3 <= TOL_ANG):
        o.violate('ellipse_roundtrip_sky', dict(w, back=[float(ab), float(bb), float(pb)],
                                                rel=[e1, e2], angle_deg=e3))
    return True


def post_pix2sky_ellipse(self, pixel, sx, sy, theta, result):
    o = _OBS
    if o is None:
        return True
    z = _zw(self)
    if z is False:
        o.count('unsupported_wcs')
        return True
    x, y = pixel
    if not _fin(x, y, sx, sy, theta):
        o.count('nonfinite_input')
        return True
    if not (sx > 0 and sy > 0):
        o.count('ellipse_degenerate')
        return True
    t = np.radians(theta)
    ra0, dec0 = z.pix2sky(y, x)
    lmaj, pmaj = _skyvec(z, x, y, x + sx * np.cos(t), y + sx * np.sin(t))
    lmin, _ = _skyvec(z, x, y, x + sy * np.cos(t - np.pi / 2), y + sy * np.sin(t - np.pi / 2))
    if not (_pixel_in_domain(z, x, y) and _pixel_in_domain(z, x + sx * np.cos(t), y + sx * np.sin(t))
            and _fin(ra0, dec0, lmaj, lmin)):
        o.count('ellipse_out_of_domain')
        return True
    tight = _off_axis(z, ra0, dec0) <= DOM_ELL_OFF and max(lmaj, lmin) <= DOM_ELL_LEN
    if not (tight or (_off_axis(z, ra0, dec0) <= DOM_POS and max(lmaj, lmin) <= DOM_ELL_WIDE and abs(float(dec0)) <= 89.0)):
        o.count('ellipse_out_of_domain')
        return True
    if not (min(sx, sy) >= 1e-4 and min(lmaj, lmin) >= 1e-9):
        o.count('ellipse_undetermined_tiny')
        return True
    o.count('contract_pix2sky_ellipse')
    o.n_eval += 1
    ra, dec, a, b, pa = [float(v) for v in result]
    w = {'pixel_xy': [float(x), float(y)], 'sx_sy_theta': [float(sx), float(sy), float(theta)],
         'result': [ra, dec, a, b, pa], 'reference_major_len_pa': [lmaj, pmaj], 'reference_minor_len': lmin,
         'proj': z.proj, 'crval': list(z.crval), 'crpix': list(z.crpix), 'cd': z.cd.tolist(),
         'off_axis_deg': _off_axis(z, ra0, dec0)}
    if not _fin(a, b, pa):
        o.violate('pix2sky_ellipse_nonfinite', w)
        return True
    e0 = float(sphere.sep(ra, dec, ra0, dec0))
    e1, e2 = _rel(a, lmaj), _adiff(pa, pmaj, 180.0)
    o.worst('pix2sky_ellipse_major_rel', e1)
    o.worst('pix2sky_ellipse_pa_deg', e2)
    if not (e0 <= TOL_SKY and e1 <= TOL_REL and e2 <= TOL_ANG):
        o.violate('pix2sky_ellipse_vs_great_circle', dict(w, centre_deg=e0, len_rel=e1, angle_deg=e2))
    if not tight:
        o.count('ellipse_wide_domain_direct_only')
        if sx >= 10.0 and np.sqrt(abs(np.linalg.det(z.cd))) * 3600.0 >= 30.0 and _off_axis(z, ra0, dec0) >= 2.0:
            o.count('ellipse_large_coarse_far_judged')      # 10-20 px, >= 30 arcsec pixels, >= 2 deg off axis
        return True
    if _square(z):
        e3 = _rel(b, lmin)
        o.worst('pix2sky_ellipse_minor_rel', e3)
        if not e3 <= TOL_REL:
            o.violate('pix2sky_ellipse_minor_vs_great_circle', dict(w, len_rel=e3))
    else:
        o.count('nonsquare_ellipse_roundtrips')
    _, _, sxb, syb, tb = _ORIG['sky2pix_ellipse'](self, (ra, dec), a, b, pa)
    e1, e2, e3 = _rel(float(sxb), sx), _rel(float(syb), sy), _adiff(tb, theta, 180.0)
    o.worst('ellipse_roundtrip_major_rel', e1)
    o.worst('ellipse_roundtrip_minor_rel', e2)
    o.worst('ellipse_roundtrip_pa_deg', e3)
    if not (e1 <= TOL_REL and e2 <= TOL_REL and e3 <= TOL_ANG):
        o.violate('ellipse_roundtrip_pix', dict(w, back=[float(sxb), float(syb), float(tb)],
                                                rel=[e1, e2], angle_deg=e3))
    return True


POSTS = {'pix2sky': post_pix2sky, 'sky2pix': post_sky2pix, 'sky2pix_vec': post_sky2pix_vec,
         'pix2sky_vec': post_pix2sky_vec, 'sky2pix_ellipse': post_sky2pix_ellipse,
         'pix2sky_ellipse': post_pix2sky_ellipse}


def install():
    """icontract postconditions on the WCSHelper methods (class attributes are replaced, so every instance and every
    internal self.<method> call sees them); from_header additionally hands the raw header to the oracle."""
    global _installed
    if _installed:
        return
    import icontract
    from AegeanTools import wcs_helpers
    cls = wcs_helpers.WCSHelper
    for name, cond in POSTS.items():
        orig = cls.__dict__[name]
        _ORIG[name] = orig
        setattr(cls, name, icontract.ensure(cond, error=ContractBroken)(orig))
    orig_fh = cls.__dict__['from_header'].__func__

    def from_header(klass, header, beam=None, psf_file=None):
        obj = orig_fh(klass, header, beam=beam, psf_file=psf_file)
        _attach_header(obj, header)
        return obj
    from_header.__doc__ = orig_fh.__doc__
    cls.from_header = classmethod(from_header)
    _installed = True


def set_obs(o):
    global _OBS
    _OBS = o


# ----------------------------------------------------------------------------- workload
CRVALS = [(180.0, -30.0), (0.0, 85.0), (359.9999, -85.0), (0.0001, 60.0), (12.3, 0.0), (359.5, -60.0),
          (270.0, 30.0), (0.0, 0.0)]


FORMS = ['square', 'pc_rot', 'nonsquare', 'cd', 'flipped', 'crota', 'square', 'cd_rot']
ROTS = [40.0, -75.0, 120.0, 180.0, 90.0, -1.5]


def _header_case(rng, proj, k, n, seed):
    crval = CRVALS[k % len(CRVALS)]
    if k >= len(CRVALS):
        crval = (float(rng.choice([0.0, 359.99, rng.uniform(0, 360)])), float(rng.uniform(-85, 85)))
    s1 = float(10 ** rng.uniform(0, np.log10(60.0)))            # arcsec
    form = FORMS[(k + wz.PROJECTIONS.index(proj)) % len(FORMS)]      # shifted per projection: forms meet all CRVALs
    rot = float(rng.choice(ROTS + [float(rng.uniform(-180, 180))])) if form in ('pc_rot', 'crota', 'cd_rot') else 0.0
    s2 = s1
    if form == 'nonsquare':
        s2 = float(np.clip(s1 * rng.uniform(0.5, 2.0), 1.0, 60.0))
    sg1, sg2 = -1.0, 1.0
    if form == 'flipped':
        sg1, sg2 = float(rng.choice([-1.0, 1.0])), float(rng.choice([-1.0, 1.0]))
    # image size: up to 2000 px, but keep the farthest corner <= ~DOM_POS/2 deg away
    smax = max(s1, s2) / 3600.0
    nmax = int(min(2000, 8.0 / smax))
    rows = int(rng.integers(20, max(21, nmax)))
    cols = int(rng.integers(20, max(21, nmax)))
    where = k % 4
    if where == 0:
        crpix = (cols / 2.0 + 0.5, rows / 2.0 + 0.5)
    elif where == 1:
        crpix = (float(rng.uniform(1, cols)), float(rng.uniform(1, rows)))
    elif where == 2:
        crpix = (float(rng.uniform(-0.3, 0) * cols), float(rng.uniform(1, 1.3) * rows))      # off the image
    else:
        crpix = (float(np.round(rng.uniform(1, cols))), float(np.round(rng.uniform(1, rows))))
    return {'kind': 'header', 'proj': proj, 'crval': list(crval), 'crpix': list(crpix),
            'cdelt': [sg1 * s1 / 3600.0, sg2 * s2 / 3600.0], 'shape': [rows, cols], 'use_cd': form == 'cd',
            'form': form, 'rot': rot, 'n': n, 'seed': [seed, proj, k]}


def _sip_case(rng, k, n, seed):
    """TAN-SIP, order 2 or 3, total distortion 0.4-0.8 px at the farthest corner of a >= 1000 px image at 1-2 arcsec/px,
    with and without AP/BP.  The subject inverts the distortion with astropy's iterative all_world2pix, which stops when
    a correction falls below 1e-4 px; the iteration contracts by (order x distortion / half-diagonal) <= 3.4e-3 per step,
    so its result is within 3.4e-7 px (1.9e-10 deg at 2 arcsec/px) of the exact inverse - inside the 1e-6 px / 1e-9 deg of
    the statement.  Smaller images or larger distortions would judge astropy's default tolerance, not Aegean."""
    rows, cols = int(rng.integers(1000, 1700)), int(rng.integers(1000, 1700))
    crpix = (cols / 2.0 + 0.5 + float(rng.uniform(-0.08, 0.08)) * cols, rows / 2.0 + 0.5 + float(rng.uniform(-0.08, 0.08)) * rows)
    far = float(np.hypot(max(crpix[0], cols - crpix[0]), max(crpix[1], rows - crpix[1])))
    order = 2 + k % 2
    terms = [(p_, q_) for p_ in range(order + 1) for q_ in range(order + 1) if 2 <= p_ + q_ <= order]
    d = float(rng.uniform(0.4, 0.8)) / np.sqrt(2.0)
    sip = {}
    for ax in 'AB':
        wts = rng.uniform(0.3, 1.0, len(terms)) * rng.choice([-1.0, 1.0], len(terms))
        wts *= d / np.abs(wts).sum()                       # |sum of terms| <= d at the farthest corner, per axis
        for (p_, q_), wt in zip(terms, wts):
            sip['%s_%d_%d' % (ax, p_, q_)] = float(wt / far ** (p_ + q_))
    # rescale so that the largest distortion over the four corners is 0.4-0.8 px
    def dist(u, v):
        return np.hypot(sum(cf * u ** int(kk[2]) * v ** int(kk[4]) for kk, cf in sip.items() if kk[0] == 'A'),
                        sum(cf * u ** int(kk[2]) * v ** int(kk[4]) for kk, cf in sip.items() if kk[0] == 'B'))
    worst = max(dist(u, v) for u in (0.5 - crpix[0], cols + 0.5 - crpix[0]) for v in (0.5 - crpix[1], rows + 0.5 - crpix[1]))
    fac = float(rng.uniform(0.4, 0.8)) / worst
    sip = {kk: cf * fac for kk, cf in sip.items()}
    scale = float(rng.uniform(1.0, 2.0)) / 3600.0
    c = {'kind': 'header', 'proj': 'TAN', 'crval': list(CRVALS[(k * 3) % len(CRVALS)]), 'crpix': [float(crpix[0]), float(crpix[1])],
         'cdelt': [-scale, scale], 'shape': [rows, cols], 'use_cd': bool(k % 3 == 2), 'form': 'sip', 'rot': 0.0,
         'sip': sip, 'sip_order': order, 'sip_inverse': bool(k % 4 >= 2), 'n': n, 'seed': [seed, 'sip', k]}
    return c


def cases(seed, tier):
    per_proj = 16 if tier == 'quick' else 100
    n = 300 if tier == 'quick' else 600
    out = []
    for proj in wz.PROJECTIONS:
        for k in range(per_proj):
            rng = rng_for(seed, 'hdr', proj, k)
            out.append(_header_case(rng, proj, k, n, seed))
    q = tier == 'quick'
    for k in range(8 if q else 40):
        out.append(_sip_case(rng_for(seed, 'sip', k), k, 100 if q else 250, seed))
    for proj in wz.PROJECTIONS:
        for k in range(2 if q else 8):
            out.append(_psfmap_small_case(rng_for(seed, 'psfsmall', proj, k), proj, k, seed))
        for k in range(4 if q else 16):
            out.append(_psfmap_case(rng_for(seed, 'psfmap', proj, k), proj, k, seed, 40 if q else 80))
        for k in range(2 if q else 8):
            out.append(_sequence_case(rng_for(seed, 'sequence', proj, k), proj, k, seed))
        for k in range(3 if q else 9):
            out.append(_ctor_case(rng_for(seed, 'ctor', proj, k), proj, k, seed))
    return out


_PAS = [0.0, 90.0, -90.0, 180.0, -179.999999, 45.0, 1e-7, 179.999999, -135.0]


def _angle(rng):
    if rng.random() < 0.2:
        return float(rng.choice(_PAS))
    return float(-rng.uniform(-180, 180))       # (-180, 180]


def _build_header(case, beam):
    hdr = wz.make_header(case['proj'], tuple(case['crval']), tuple(case['crpix']), tuple(case['cdelt']),
                         tuple(case['shape']), beam=beam, use_cd=bool(case.get('use_cd')))
    if case.get('form') in ('pc_rot', 'crota', 'cd_rot'):
        hdr = _rotate_header(hdr, case['form'], case['rot'])
    if case.get('sip'):
        hdr = _add_sip(hdr, case['sip'], case['sip_order'], case.get('sip_inverse', False))
    return hdr


def run(case):
    from AegeanTools import wcs_helpers
    install()
    sphere.selfcheck()
    wz.selfcheck()
    _selfcheck_rotated()
    _selfcheck_sip()
    if case['kind'] == 'psfmap':
        return _run_psfmap(case, wcs_helpers)
    if case['kind'] == 'sequence':
        return _run_sequence(case, wcs_helpers)
    if case['kind'] == 'ctor':
        return _run_ctor(case, wcs_helpers)
    o = Obs()
    set_obs(o)
    try:
        rng = rng_for(*case['seed'])
        rows, cols = case['shape']
        beam_a = float(min(0.09, 4 * max(abs(case['cdelt'][0]), abs(case['cdelt'][1]))))
        beam = (beam_a, beam_a * float(rng.uniform(0.3, 1.0)), _angle(rng))
        hdr = _build_header(case, beam)
        z = _oracle_from_header(hdr)
        if case.get('rot'):
            o.count('rotated_header_cases')
        if case.get('sip'):
            o.count('sip_header_cases')
            o.count('sip_header_cases_with_inverse_polynomials', int(bool(case.get('sip_inverse'))))
            cr = [(0.5, 0.5), (0.5, cols + 0.5), (rows + 0.5, 0.5), (rows + 0.5, cols + 0.5)]
            zb = _oracle_from_header(_build_header(dict(case, sip=None), beam))
            dmax = max(float(np.hypot(*np.subtract(zb.sky2pix(*z.pix2sky(c2, c1)), (c2, c1)))) for c1, c2 in cr)
            o.worst('sip_corner_distortion_px', dmax)
        try:
            w = wcs_helpers.WCSHelper.from_header(hdr)
        except Exception as e:
            o.n_eval += 1
            o.violate('raises', {'where': 'WCSHelper.from_header', 'exc': repr(e), 'header': dict(hdr)})
            return o.result()
        if getattr(w, '_aegmon_zwcs', None) is None:
            raise RuntimeError('oracle was not attached to the helper')
        o.see('projection', case['proj'])
        o.see('form', case['form'])
        scale = max(abs(case['cdelt'][0]), abs(case['cdelt'][1]))
        n = case['n']
        xs = rng.uniform(0.5, rows + 0.5, n)
        ys = rng.uniform(0.5, cols + 0.5, n)
        # corners, edges, the reference pixel, integer pixels
        special = [(0.5, 0.5), (rows + 0.5, cols + 0.5), (0.5, cols + 0.5), (rows + 0.5, 0.5), (1.0, 1.0),
                   (float(rows), float(cols)), (case['crpix'][1], case['crpix'][0])]
        for i, (sx_, sy_) in enumerate(special):
            xs[i], ys[i] = sx_, sy_
        xs[len(special):len(special) + 20] = np.round(xs[len(special):len(special) + 20])
        rows_in = []
        sample = None
        for i in range(n):
            x, y = float(xs[i]), float(ys[i])
            try:
                sky = w.pix2sky((x, y))
                back = w.sky2pix([sky[0], sky[1]])
                ra, dec = float(sky[0]), float(sky[1])
                off = _off_axis(z, ra, dec)
                r = float(10 ** rng.uniform(-1, 1.3))
                th = _angle(rng)
                v = w.pix2sky_vec((x, y), r, th)
                rs = float(10 ** rng.uniform(-1, 1.3)) * scale
                pv = _angle(rng)
                v2 = w.sky2pix_vec((ra, dec), rs, pv)
                e = e2 = None
                if off <= DOM_ELL_OFF:
                    smax = min(20.0, DOM_ELL_LEN * 0.98 / scale)
                    sx = float(rng.uniform(min(1.0, smax), smax))
                    sy = sx * float(rng.uniform(0.2, 1.0))
                    if i % 5 == 0:
                        sy = sx                 # exactly circular (BMAJ == BMIN is the commonest beam there is)
                    te = _angle(rng)
                    e = w.pix2sky_ellipse((x, y), sx, sy, te)
                    a = float(rng.uniform(min(1.0, smax), smax)) * min(abs(case['cdelt'][0]), abs(case['cdelt'][1]))
                    b = a * float(rng.uniform(0.2, 1.0))
                    if i % 5 == 1 or i % 5 == 0:
                        b = a                   # exactly circular on the sky
                        o.count('exactly_circular_ellipses')
                    pe = _angle(rng)
                    e2 = w.sky2pix_ellipse((ra, dec), a, b, pe)
                    rows_in.append((x, y, r, th, sx, sy, te, a, b, pe))
                else:
                    o.count('positions_beyond_ellipse_domain')
                    rows_in.append((x, y, r, th, 0, 0, 0, 0, 0, 0))
                # the statement's largest ellipses (10..20 px) at this position whatever the pixel scale: direct clauses
                lx = float(rng.uniform(10.0, 20.0))
                ly = lx * float(rng.uniform(0.2, 1.0))
                w.pix2sky_ellipse((x, y), lx, ly, _angle(rng))
                la = float(rng.uniform(10.0, 20.0)) * min(abs(case['cdelt'][0]), abs(case['cdelt'][1]))
                w.sky2pix_ellipse((ra, dec), la, la * float(rng.uniform(0.2, 1.0)), _angle(rng))
            except Exception as ex:
                import traceback
                o.n_eval += 1
                o.violate('raises', {'pixel_xy': [x, y], 'exc': repr(ex), 'tb': traceback.format_exc()[-600:],
                                     'header': {k: hdr[k] for k in hdr if k.startswith(('C', 'NAXIS'))}})
                continue
            if sample is None and i >= len(special):
                sample = {'pixel_xy': [x, y], 'pix2sky': [ra, dec], 'sky2pix_back': [float(back[0]), float(back[1])],
                          'pix2sky_vec': [float(t) for t in v], 'sky2pix_vec': [float(t) for t in v2],
                          'pix2sky_ellipse': None if e is None else [float(t) for t in e],
                          'sky2pix_ellipse': None if e2 is None else [float(t) for t in e2],
                          'off_axis_deg': off, 'header': {'proj': case['proj'], 'crval': case['crval'],
                                                          'cdelt_arcsec': [c * 3600 for c in case['cdelt']]}}
        _spellings(o, w, z, rng, rows, cols, case)
        # constructive east-of-north test: build the pixel vector with the oracle from a sky displacement
        for i in range(12):
            x, y = float(xs[i + 3]), float(ys[i + 3])
            ra, dec = z.pix2sky(y, x)
            ra, dec = float(ra), float(dec)
            if _off_axis(z, ra, dec) > DOM_POS or abs(dec) > 89.0:
                continue
            d = float(rng.uniform(2, 20)) * scale
            for name, (ra1, dec1), lo, hi in (
                    ('north', (ra, dec + d), -TOL_ANG, TOL_ANG),
                    ('east', ((ra + d / np.cos(np.radians(dec))) % 360.0, dec), 45.0, 135.0)):
                if abs(dec1) >= 90:
                    continue
                ln, th = _pixvec(z, ra, dec, ra1, dec1)
                try:
                    _, _, rr, pa = w.pix2sky_vec((x, y), ln, th)
                except Exception as ex:
                    o.violate('raises', {'where': 'pix2sky_vec', 'exc': repr(ex)})
                    continue
                o.count('east_of_north_checked')
                o.n_eval += 1
                pref = float(sphere.position_angle(ra, dec, ra1, dec1))
                ok = (lo <= float(pa) <= hi) and _adiff(pa, pref, 360.0) <= TOL_ANG and _rel(float(rr), d) <= TOL_REL \
                    if name == 'north' else (lo <= float(pa) <= hi) and _adiff(pa, pref, 360.0) <= TOL_ANG
                o.worst('east_of_north_pa_err_deg', _adiff(pa, pref, 360.0))
                if not ok:
                    o.violate('east_of_north', {'direction': name, 'pixel_xy': [x, y], 'vector_len_theta': [ln, th],
                                                'pa': float(pa), 'expected_pa': pref, 'length': float(rr),
                                                'expected_length': d, 'proj': case['proj'], 'crval': case['crval'],
                                                'cdelt': case['cdelt']})
        # the beam of the header converted to pixels at the reference point and back is the beam (psf look-ups)
        try:
            pa_, pb_, ppa_ = w.get_psf_sky2sky(case['crval'][0], case['crval'][1])
            o.count('psf_roundtrip_checked')
            o.n_eval += 1
            e1, e2, e3 = _rel(float(pa_), beam[0]), _rel(float(pb_), beam[1]), _adiff(ppa_, beam[2], 180.0)
            o.worst('psf_roundtrip_rel', max(e1, e2))
            o.worst('psf_roundtrip_pa_deg', e3)
            if not (e1 <= TOL_REL and e2 <= TOL_REL and e3 <= TOL_ANG):
                o.violate('psf_roundtrip', {'beam': list(beam), 'get_psf_sky2sky': [float(pa_), float(pb_), float(ppa_)],
                                            'proj': case['proj'], 'crval': case['crval'], 'cdelt': case['cdelt']})
        except Exception as ex:
            o.violate('raises', {'where': 'get_psf_sky2sky', 'exc': repr(ex)})
        _judge_nomap_psf(o, w, z, beam, rng, rows, cols, {'proj': case['proj'], 'crval': case['crval'], 'cdelt': case['cdelt'],
                                                          'form': case['form'], 'rot': case.get('rot', 0.0)})
        if rows_in:
            o.n_nontrivial += n_distinct_rows(*np.array(rows_in).T)
        o.sample = sample
        return o.result()
    finally:
        set_obs(None)


def _flat_result(res):
    return [float(v) for v in np.ravel(np.asarray(res, dtype=float))]


def _spellings(o, w, z, rng, rows, cols, case):
    """The same whole-number position given as Python ints, int list, integer ndarray, numpy integer scalars or mixed
    int/float must give the result obtained with floats, for every method.  (Every call is also judged by the contracts,
    whose oracle always works in floats.)  Lengths/angles are given both as floats and as Python ints."""
    def spell(i, j):
        return [('int_tuple', (int(i), int(j))), ('int_list', [int(i), int(j)]),
                ('int64_array', np.array([int(i), int(j)], dtype=np.int64)),
                ('int32_array', np.array([int(i), int(j)], dtype=np.int32)),
                ('numpy_int_scalars', (np.int64(i), np.int32(j))), ('mixed_int_float', (int(i), float(j))),
                ('mixed_float_int', [float(i), int(j)]), ('float_array', np.array([float(i), float(j)]))]

    def compare(method, name, args_desc, base, got):
        o.count('int_spellings_checked')
        o.n_eval += 1
        b, g = _flat_result(base), _flat_result(got)
        ok = len(b) == len(g) and all((abs(x - y) <= 1e-12 * max(1.0, abs(x))) or (x != x and y != y) for x, y in zip(b, g))
        if ok:
            return
        o.violate('int_spelling_differs_from_float', {'method': method, 'spelling': name, 'args': args_desc,
                                                     'with_floats': b, 'with_this_spelling': g, 'proj': case['proj'],
                                                     'crval': case['crval'], 'cdelt': case['cdelt']})

    def call(method, *args):
        try:
            return getattr(w, method)(*args)
        except Exception as ex:
            o.n_eval += 1
            o.violate('raises', {'where': method, 'args': repr(args)[:300], 'exc': repr(ex)})
            return None

    scale = max(abs(case['cdelt'][0]), abs(case['cdelt'][1]))
    smax = min(20.0, DOM_ELL_LEN * 0.98 / scale)
    for _ in range(6):
        i, j = int(rng.integers(1, rows + 1)), int(rng.integers(1, cols + 1))
        r, th = float(rng.uniform(0.5, 19.5)), _angle(rng)
        sx = float(rng.uniform(min(1.0, smax), smax))
        sy, te = sx * float(rng.uniform(0.2, 1.0)), _angle(rng)
        # whole-number lengths and angles as Python ints too (only when inside the ellipse domain: smax >= 2 px)
        ri, thi = int(rng.integers(1, 20)), int(rng.integers(-179, 181))
        base = {'pix2sky': call('pix2sky', (float(i), float(j))),
                'pix2sky_vec': call('pix2sky_vec', (float(i), float(j)), r, th),
                'pix2sky_ellipse': call('pix2sky_ellipse', (float(i), float(j)), sx, sy, te),
                'pix2sky_vec_int_args': call('pix2sky_vec', (float(i), float(j)), float(ri), float(thi))}
        if any(v is None for v in base.values()):
            continue
        for name, pix in spell(i, j):
            for method, args, key in (('pix2sky', (), 'pix2sky'), ('pix2sky_vec', (r, th), 'pix2sky_vec'),
                                      ('pix2sky_ellipse', (sx, sy, te), 'pix2sky_ellipse'),
                                      ('pix2sky_vec', (ri, thi), 'pix2sky_vec_int_args')):
                got = call(method, pix, *args)
                if got is not None:
                    compare(method, name, [i, j] + list(args), base[key], got)
    # sky side: whole-degree positions exist only where the reference point itself is at whole degrees
    ra0, dec0 = case['crval']
    if float(ra0).is_integer() and float(dec0).is_integer():
        a = float(rng.uniform(2.0, 5.0)) * scale
        b, pa = a * 0.5, _angle(rng)
        pai = int(rng.integers(-179, 181))
        fpos = (float(ra0), float(dec0))
        base = {'sky2pix': call('sky2pix', fpos), 'sky2pix_vec': call('sky2pix_vec', fpos, a, pa),
                'sky2pix_ellipse': call('sky2pix_ellipse', fpos, a, b, pa),
                'sky2pix_ellipse_int_pa': call('sky2pix_ellipse', fpos, a, b, float(pai))}
        if not any(v is None for v in base.values()):
            for name, pos in spell(int(ra0), int(dec0)):
                for method, args, key in (('sky2pix', (), 'sky2pix'), ('sky2pix_vec', (a, pa), 'sky2pix_vec'),
                                          ('sky2pix_ellipse', (a, b, pa), 'sky2pix_ellipse'),
                                          ('sky2pix_ellipse', (a, b, pai), 'sky2pix_ellipse_int_pa')):
                    got = call(method, pos, *args)
                    if got is not None:
                        o.count('int_sky_spellings_checked')
                        compare(method, name, [ra0, dec0] + list(args), base[key], got)


# ----------------------------------------------------------------------------- psf look-ups
def _expected_pixbeam(z, ra, dec, a, b, pa):
    """independent projection of the sky ellipse (a, b, pa) centred on (ra, dec): pixel lengths of the images of the
    major and minor axis vectors and the pixel angle of the major one"""
    era, edec = sphere.destination(ra, dec, a, pa)
    lmaj, tmaj = _pixvec(z, ra, dec, era, edec)
    era, edec = sphere.destination(ra, dec, b, pa - 90.0)
    lmin, _ = _pixvec(z, ra, dec, era, edec)
    return lmaj, lmin, tmaj


def _expected_skybeam(z, x, y, sx, sy, theta):
    """independent sky image of the pixel ellipse (sx, sy, theta) centred on pixel (x, y)"""
    t = np.radians(theta)
    lmaj, pmaj = _skyvec(z, x, y, x + sx * np.cos(t), y + sx * np.sin(t))
    lmin, _ = _skyvec(z, x, y, x + sy * np.cos(t - np.pi / 2), y + sy * np.sin(t - np.pi / 2))
    return lmaj, lmin, pmaj


def _judge_beam(o, clause, what, got, exp, wit, minor=True, prefix='psf'):
    """(major, minor, angle) against the expectation: 1e-3 relative, 0.01 deg modulo 180 (statement's ellipse tolerances)"""
    o.count(prefix + '_lookups_judged')
    o.n_eval += 1
    try:
        g = [float(v) for v in got]
    except (TypeError, ValueError):
        o.violate(clause, dict(wit, call=what, got=repr(got), expected=list(exp)))
        return False
    if not _fin(*g):
        o.violate(clause, dict(wit, call=what, got=g, expected=list(exp)))
        return False
    e1, e3 = _rel(g[0], exp[0]), _adiff(g[2], exp[2], 180.0)
    e2 = _rel(g[1], exp[1]) if minor else 0.0
    o.worst(prefix + '_lookup_len_rel', max(e1, e2))
    o.worst(prefix + '_lookup_angle_deg', e3)
    if not (e1 <= TOL_REL and e2 <= TOL_REL and e3 <= TOL_ANG):
        o.violate(clause, dict(wit, call=what, got=g, expected=[float(v) for v in exp], len_rel=[e1, e2], angle_deg=e3))
        return False
    return True


def _judge_area(o, clause, what, got, exp, wit, prefix='psf'):
    o.count(prefix + '_areas_judged')
    o.n_eval += 1
    e = _rel(float(got), exp) if _fin(got) else float('inf')
    o.worst(prefix + '_area_rel', e)
    if not e <= 2.5 * TOL_REL:          # product of two lengths each good to 1e-3 (+ their product term)
        o.violate(clause, dict(wit, call=what, got=float(got), expected=float(exp), rel=e))


def _subject(o, wit, what, f, *args):
    try:
        return f(*args)
    except Exception as ex:
        import traceback
        o.n_eval += 1
        o.violate('raises', dict(wit, where=what, args=repr(args)[:200], exc=repr(ex), tb=traceback.format_exc()[-500:]))
        return None


def _judge_nomap_psf(o, w, z, beam, rng, rows, cols, wit, prefix='psf', nprobe=3):
    """helper without a psf map: the pixel psf is the header beam projected at the reference point, wherever it is asked
    for; the sky psf at a position is that pixel ellipse taken back to the sky there"""
    if not (beam[0] <= DOM_ELL_LEN):
        return
    ra0, dec0 = z.crval
    exp = _expected_pixbeam(z, ra0, dec0, *beam)
    sq = _square(z)
    x0, y0 = z.crpix[1], z.crpix[0]
    probes = [(x0, y0)] + [(float(rng.uniform(0.5, rows + 0.5)), float(rng.uniform(0.5, cols + 0.5))) for _ in range(nprobe)]
    for n_, (x, y) in enumerate(probes):
        ra, dec = [float(v) for v in z.pix2sky(y, x)]
        if _off_axis(z, ra, dec) > DOM_ELL_OFF:
            o.count(prefix + '_probe_out_of_domain')
            continue
        wt = dict(wit, pixel_xy=[x, y], sky=[ra, dec], header_beam=list(beam))
        g = _subject(o, wt, 'get_psf_pix2pix', w.get_psf_pix2pix, x, y)
        if g is not None:
            _judge_beam(o, 'pixel_psf_vs_projection', 'get_psf_pix2pix(x, y)', g, exp, wt, sq, prefix)
        g = _subject(o, wt, 'get_psf_sky2pix', w.get_psf_sky2pix, ra, dec)
        if g is not None:
            _judge_beam(o, 'pixel_psf_vs_projection', 'get_psf_sky2pix(ra, dec)', g, exp, wt, sq, prefix)
        esky = beam if n_ == 0 else _expected_skybeam(z, x, y, *exp)
        if max(esky[0], esky[1]) > DOM_ELL_LEN:
            continue
        g = _subject(o, wt, 'get_psf_sky2sky', w.get_psf_sky2sky, ra, dec)
        if g is not None:
            _judge_beam(o, 'sky_psf_vs_projection', 'get_psf_sky2sky(ra, dec)', g, esky, wt, sq, prefix)
        g = _subject(o, wt, 'get_skybeam', w.get_skybeam, ra, dec)
        if g is not None:
            _judge_beam(o, 'sky_psf_vs_projection', 'get_skybeam(ra, dec)', (g.a, g.b, g.pa), esky, wt, sq, prefix)
        if sq:
            g = _subject(o, wt, 'get_beamarea_pix', w.get_beamarea_pix, ra, dec)
            if g is not None:
                _judge_area(o, 'beam_area', 'get_beamarea_pix', g, np.pi * exp[0] * exp[1], wt, prefix)
            g = _subject(o, wt, 'get_beamarea_deg2', w.get_beamarea_deg2, ra, dec)
            if g is not None:
                _judge_area(o, 'beam_area', 'get_beamarea_deg2', g, np.pi * esky[0] * esky[1], wt, prefix)


# ----------------------------------------------------------------------------- psf-map branch
class _MapOracle:
    """the psf cube as generated by the harness (planes a, b, pa in degrees over FITS axes (2, 1)) and the independent WCS
    of its header.  The beam at a sky position is the value of the nearest map pixel; where the 3 x 3 neighbourhood is not
    constant, or within one pixel of the map's border, the answer depends on the look-up convention (nearest / truncated /
    0- or 1-based) which C16 does not state: undetermined, not judged."""

    def __init__(self, zpsf, cube):
        self.z, self.cube = zpsf, cube

    def beam_at(self, ra, dec):
        p1, p2 = self.z.sky2pix(ra, dec)
        if not _fin(p1, p2):
            return None
        n2, n1 = self.cube.shape[1:]
        ri, rj = self._range(float(p2) - 1.0, n2), self._range(float(p1) - 1.0, n1)
        if ri is None or rj is None:
            return None
        nb = self.cube[:, ri[0]:ri[1], rj[0]:rj[1]]
        if not np.all(nb == nb[:, :1, :1]):
            return None
        return tuple(float(v) for v in nb[:, 0, 0])

    @staticmethod
    def _range(f, n):
        """0-based index range whose values must agree for the expectation to be independent of the look-up convention:
        the 3 neighbours of an interior position; the 3 rows/columns next to an edge for a position >= 1.5 map pixels
        beyond that edge (the map is clamped there: "clamping the x,y coords at the image boundaries"); None in the
        1.5-pixel zones either side of an edge"""
        r = int(np.round(f))
        if 1 <= r <= n - 2 and 0.5 <= f <= n - 1.5:
            return r - 1, r + 2
        if f <= -0.5 - 1.5:
            return 0, 3
        if f >= n - 0.5 + 1.5:
            return n - 3, n
        return None

    def side(self, ra, dec):
        """which edge(s) of the map the position lies beyond by >= 1.5 map pixels"""
        p1, p2 = self.z.sky2pix(ra, dec)
        n2, n1 = self.cube.shape[1:]
        out = []
        for f, n, nm in ((float(p1) - 1.0, n1, 'axis1'), (float(p2) - 1.0, n2, 'axis2')):
            if f <= -2.0:
                out.append(nm + '_low')
            elif f >= n + 1.0:
                out.append(nm + '_high')
        return out


def _psfmap_case(rng, proj, k, seed, n):
    """wide (half-diagonal 2.2-2.9 deg), clearly non-square image; reference points incl. |dec| 60-85"""
    crval = [(180.0, -30.0), (0.0, 85.0), (359.9999, -85.0), (0.0001, 60.0), (12.3, 0.0), (200.0, -72.0)][k % 6]
    long_ = int(rng.integers(240, 520))
    short = int(long_ / float(rng.uniform(1.6, 2.6)))
    rows, cols = (long_, short) if k % 2 else (short, long_)
    half = float(rng.uniform(2.2, 2.9))
    scale = half / (np.hypot(rows, cols) / 2.0)                      # deg / pixel
    form = ['square', 'flipped', 'cd', 'pc_rot'][k % 4]
    sg1 = 1.0 if form == 'flipped' else -1.0
    return {'kind': 'psfmap', 'proj': proj, 'crval': list(crval), 'crpix': [cols / 2.0 + float(rng.uniform(-5, 5)),
                                                                         rows / 2.0 + float(rng.uniform(-5, 5))],
            'cdelt': [sg1 * scale, scale], 'shape': [rows, cols], 'use_cd': form == 'cd', 'form': form,
            'rot': float(rng.choice([30.0, -110.0])) if form == 'pc_rot' else 0.0,
            'map': ['constant', 'blocks'][(k // 2) % 2], 'map_proj': wz.PROJECTIONS[(wz.PROJECTIONS.index(proj) + 2) % 5],
            'n': n, 'seed': [seed, 'psfmap', proj, k]}


def _psfmap_small_case(rng, proj, k, seed):
    """as _psfmap_case, but the psf map covers only the middle ~fifth of the image, off-centre, and varies along one of
    its axes only (bands of 4 columns, or of 4 rows): beyond the map the look-up is clamped to the nearest edge"""
    c = _psfmap_case(rng, proj, k + 1, seed, 0)
    c['map'] = ['small_cols', 'small_rows'][k % 2]
    c['map_offset'] = [float(rng.uniform(-0.08, 0.08)), float(rng.uniform(-0.08, 0.08))]
    c['seed'] = [seed, 'psfsmall', proj, k]
    return c


def _write_psf_map(case, rng, z, tmp, scale):
    """3-plane cube (a, b, pa [deg]) on its own, coarser, north-up grid in another projection centred on the image centre"""
    from astropy.io import fits
    rows, cols = case['shape']
    small = case['map'].startswith('small')
    off = case.get('map_offset', [0.0, 0.0])
    rac, decc = [float(v) for v in z.pix2sky(cols * (0.5 + off[0]) + 0.5, rows * (0.5 + off[1]) + 0.5)]
    n1, n2 = (16, 12) if small else (48, 40)
    extent = (0.15 if small else 1.5) * scale * np.hypot(rows, cols)   # degrees covered by the map (< or > the image)
    cd = extent / min(n1, n2)
    ph = wz.make_header(case['map_proj'], (rac, decc), (n1 / 2.0 + 0.5, n2 / 2.0 + 0.5), (-cd, cd), (n2, n1))
    ph['NAXIS'] = 3
    ph['NAXIS3'] = 3
    ph['CTYPE3'], ph['CRPIX3'], ph['CRVAL3'], ph['CDELT3'] = 'BEAM', 1.0, 1.0, 1.0
    amax = min(0.09, 6.0 * scale)

    def one():
        a = float(rng.uniform(0.5, 1.0)) * amax
        return a, a * float(rng.uniform(0.3, 0.8)), float(rng.uniform(-90, 90))
    cube = np.zeros((3, n2, n1))
    if case['map'] == 'constant':
        cube[:, :, :] = np.array(one())[:, None, None]
    elif case['map'] == 'small_cols':
        for bj in range(0, n1, 4):
            cube[:, :, bj:bj + 4] = np.array(one())[:, None, None]
    elif case['map'] == 'small_rows':
        for bi in range(0, n2, 4):
            cube[:, bi:bi + 4, :] = np.array(one())[:, None, None]
    else:
        blk = 8
        for bi in range(0, n2, blk):
            for bj in range(0, n1, blk):
                cube[:, bi:bi + blk, bj:bj + blk] = np.array(one())[:, None, None]
    path = os.path.join(tmp, 'psf.fits')
    fits.PrimaryHDU(cube.astype(np.float64), header=ph).writeto(path, overwrite=True)
    zp = wz.ZenithalWCS({k_: ph[k_] for k_ in ('CTYPE1', 'CTYPE2', 'CRVAL1', 'CRVAL2', 'CRPIX1', 'CRPIX2', 'CDELT1', 'CDELT2')})
    return path, _MapOracle(zp, cube)


def _run_psfmap(case, wcs_helpers):
    o = Obs()
    set_obs(o)
    tmp = scratch_dir()
    try:
        rng = rng_for(*case['seed'])
        rows, cols = case['shape']
        scale = abs(case['cdelt'][1])
        hb = (min(0.09, 4 * scale), min(0.09, 4 * scale) * 0.6, 20.0)
        hdr = _build_header(case, hb)
        z = _oracle_from_header(hdr)
        path, mp = _write_psf_map(case, rng, z, tmp, scale)
        wit0 = {'proj': case['proj'], 'crval': case['crval'], 'cdelt': case['cdelt'], 'shape': case['shape'],
                'form': case['form'], 'rot': case['rot'], 'psf_map': case['map'], 'psf_map_proj': case['map_proj']}
        w = _subject(o, wit0, 'WCSHelper.from_header(psf_file=...)', lambda: wcs_helpers.WCSHelper.from_header(hdr, psf_file=path))
        if w is None:
            return o.result()
        if getattr(w, '_aegmon_zwcs', None) is None:
            raise RuntimeError('oracle was not attached to the helper')
        o.count('psfmap_%s_maps' % case['map'])
        o.see('psfmap_projection', case['proj'])
        sq = _square(z)
        probes = [(rows / 2.0 + 0.5, cols / 2.0 + 0.5), (rows * 0.25, cols * 0.75), (rows * 0.8, cols * 0.1)]
        while len(probes) < case['n']:
            probes.append((float(rng.uniform(0.5, rows + 0.5)), float(rng.uniform(0.5, cols + 0.5))))
        if case['map'].startswith('small'):
            # positions 1.5-4 map pixels beyond each of the four edges of the map (other coordinate inside it), and inside
            n2m, n1m = mp.cube.shape[1:]
            mpix = []
            for _ in range(8):
                d = float(rng.uniform(1.5, 4.0))
                mpix += [(0.5 - d, float(rng.uniform(2, n2m - 1))), (n1m + 0.5 + d, float(rng.uniform(2, n2m - 1))),
                         (float(rng.uniform(2, n1m - 1)), 0.5 - d), (float(rng.uniform(2, n1m - 1)), n2m + 0.5 + d)]
            mpix += [(0.5 - 2.5, 0.5 - 3.0), (n1m + 3.0, n2m + 3.5), (0.5 - 2.0, n2m + 2.5), (n1m + 2.7, 0.5 - 1.8)]      # corners
            mpix += [(float(rng.uniform(2, n1m - 1)), float(rng.uniform(2, n2m - 1))) for _ in range(8)]
            for (m1, m2) in mpix:
                rr, dd = mp.z.pix2sky(m1, m2)
                q1, q2 = z.sky2pix(float(rr), float(dd))
                probes.append((float(q2), float(q1)))
        seen = []
        for (x, y) in probes:
            ra, dec = [float(v) for v in z.pix2sky(y, x)]
            if _off_axis(z, ra, dec) > DOM_ELL_OFF:
                o.count('psfmap_probe_out_of_domain')
                continue
            beam = mp.beam_at(ra, dec)
            if beam is None:
                o.count('psfmap_lookup_undetermined')
                continue
            for sd in mp.side(ra, dec):
                o.count('psfmap_beyond_edge_probes_judged')
                o.see('psfmap_beyond_edge_sides', sd)
            wt = dict(wit0, pixel_xy=[x, y], sky=[ra, dec], map_beam=list(beam))
            exp = _expected_pixbeam(z, ra, dec, *beam)
            if abs(x - y) > 2.0:
                o.count('psfmap_lookups_offdiagonal')
                # what the transposed pixel would give: the probe is decisive only if that differs
                rt, dt = [float(v) for v in z.pix2sky(x, y)]
                bt = mp.beam_at(rt, dt) or beam
                et = _expected_pixbeam(z, rt, dt, *bt)
                if _adiff(et[2], exp[2], 180.0) > 5 * TOL_ANG or _rel(et[0], exp[0]) > 5 * TOL_REL:
                    o.count('psfmap_lookups_transposition_sensitive')
            g = _subject(o, wt, 'get_psf_sky2sky', w.get_psf_sky2sky, ra, dec)
            if g is not None:
                _judge_beam(o, 'psfmap_sky_psf_vs_map', 'get_psf_sky2sky(ra, dec)', g, beam, wt, True, 'psfmap')
            g = _subject(o, wt, 'get_skybeam', w.get_skybeam, ra, dec)
            if g is not None:
                _judge_beam(o, 'psfmap_sky_psf_vs_map', 'get_skybeam(ra, dec)',
                            (g.a, g.b, g.pa) if g is not None and hasattr(g, 'a') else g, beam, wt, True, 'psfmap')
            g = _subject(o, wt, 'get_psf_sky2pix', w.get_psf_sky2pix, ra, dec)
            if g is not None:
                _judge_beam(o, 'psfmap_pixel_psf_vs_projection', 'get_psf_sky2pix(ra, dec)', g, exp, wt, sq, 'psfmap')
            g = _subject(o, wt, 'get_psf_pix2pix', w.get_psf_pix2pix, x, y)
            if g is not None:
                _judge_beam(o, 'psfmap_pixel_psf_vs_projection', 'get_psf_pix2pix(x, y)', g, exp, wt, sq, 'psfmap')
            if sq:
                g = _subject(o, wt, 'get_beamarea_pix', w.get_beamarea_pix, ra, dec)
                if g is not None:
                    _judge_area(o, 'psfmap_beam_area', 'get_beamarea_pix', g, np.pi * exp[0] * exp[1], wt, 'psfmap')
            g = _subject(o, wt, 'get_beamarea_deg2', w.get_beamarea_deg2, ra, dec)
            if g is not None:
                _judge_area(o, 'psfmap_beam_area', 'get_beamarea_deg2', g, np.pi * beam[0] * beam[1], wt, 'psfmap')
            seen.append((x, y) + beam)
        if seen:
            o.n_nontrivial += n_distinct_rows(*np.array(seen).T)
            o.see('psfmap_distinct_beams', len(set(t[2:] for t in seen)))
        o.sample = {'header': wit0, 'probes_judged': len(seen), 'first': None if not seen else list(seen[0])}
        return o.result()
    finally:
        set_obs(None)
        shutil.rmtree(tmp, ignore_errors=True)


# ----------------------------------------------------------------------------- several helpers in one process
def _sequence_case(rng, proj, k, seed):
    """headers that share BMAJ/BMIN/BPA and CDELT and differ in grid rotation (PC / CROTA2 / CD), projection or reference
    point; one header occurs twice; the order is part of the case"""
    scale = float(10 ** rng.uniform(0.3, np.log10(45.0))) / 3600.0
    a = float(rng.uniform(3.0, 6.0)) * scale
    beam = [min(a, 0.09), min(a, 0.09) * float(rng.uniform(0.35, 0.7)), float(rng.uniform(-90, 90))]
    base = {'proj': proj, 'crval': list(CRVALS[k % len(CRVALS)]), 'crpix': [60.5, 50.5], 'cdelt': [-scale, scale],
            'shape': [100, 120], 'use_cd': False, 'form': 'square', 'rot': 0.0}
    others = [p for p in wz.PROJECTIONS if p != proj]
    members = [dict(base),
               dict(base, form='pc_rot', rot=40.0),
               dict(base, form='crota', rot=-75.0),
               dict(base, form='cd_rot', rot=120.0),
               dict(base, form='pc_rot', rot=float(rng.uniform(-180, 180))),
               dict(base, proj=others[k % 4]),
               dict(base, crval=list(CRVALS[(k + 3) % len(CRVALS)])),
               dict(base, form='pc_rot', rot=40.0),                      # the same header a second time
               dict(base)]
    order = [int(i) for i in rng.permutation(len(members))]
    if k % 2 == 0:
        order = list(range(len(members)))                                # north-up first
    return {'kind': 'sequence', 'beam': beam, 'members': [members[i] for i in order], 'seed': [seed, 'sequence', proj, k]}


def _run_sequence(case, wcs_helpers):
    o = Obs()
    set_obs(o)
    try:
        rng = rng_for(*case['seed'])
        beam = tuple(case['beam'])

        def build(m):
            hdr = _build_header(m, beam)
            w = _subject(o, {'member': m}, 'WCSHelper.from_header', wcs_helpers.WCSHelper.from_header, hdr)
            if w is not None and getattr(w, '_aegmon_zwcs', None) is None:
                raise RuntimeError('oracle was not attached to the helper')
            return w, _oracle_from_header(hdr)

        def judge(idx, m, w, z, phase):
            wit = {'phase': phase, 'position_in_sequence': idx, 'member': m, 'built_before': [
                [mm['proj'], mm['form'], mm['rot']] for mm in case['members'][:idx]][-4:]}
            o.count('sequence_helpers_judged')
            if m['rot']:
                o.count('sequence_rotated_helpers_judged')
            _judge_nomap_psf(o, w, z, beam, rng, m['shape'][0], m['shape'][1], wit, prefix='sequence', nprobe=2)
            # the transforms themselves (judged by the contracts)
            x, y = float(rng.uniform(1, m['shape'][0])), float(rng.uniform(1, m['shape'][1]))
            e = _subject(o, wit, 'pix2sky_ellipse', w.pix2sky_ellipse, (x, y), 5.0, 2.5, float(rng.uniform(-180, 180)))
            if e is not None:
                _subject(o, wit, 'sky2pix_ellipse', w.sky2pix_ellipse, (e[0], e[1]), e[2], e[3], e[4])

        # phase 1: build all of them, then judge every one
        built = [build(m) for m in case['members']]
        for idx, (m, (w, z)) in enumerate(zip(case['members'], built)):
            if w is not None:
                judge(idx, m, w, z, 'after_all_built')
        # phase 2: fresh helpers in reverse order, each judged as soon as it exists, the older ones judged again
        fresh = []
        for idx, m in enumerate(case['members'][::-1]):
            w, z = build(m)
            if w is None:
                continue
            judge(idx, m, w, z, 'interleaved_reverse')
            fresh.append((m, w, z))
            if idx % 3 == 2:
                m0, w0, z0 = fresh[0]
                judge(0, m0, w0, z0, 'interleaved_revisit')
        o.n_nontrivial += len(case['members'])
        o.sample = {'beam': list(beam), 'members': [[m['proj'], m['crval'], m['form'], m['rot']] for m in case['members']]}
        return o.result()
    finally:
        set_obs(None)


# ----------------------------------------------------------------------------- the constructor's arguments
def _ctor_case(rng, proj, k, seed):
    """a beam SUPPLIED to from_header / from_file while the header carries the same beam, a different beam, or no beam
    keywords: everything the helper says about the beam must describe the supplied one"""
    c = _header_case(rng, proj, k, 0, seed)
    c['kind'] = 'ctor'
    c['form'] = ['square', 'pc_rot', 'flipped'][k % 3]
    c['rot'] = 35.0 if c['form'] == 'pc_rot' else 0.0
    c['use_cd'] = False
    scale = float(10 ** rng.uniform(0, np.log10(45.0))) / 3600.0
    c['cdelt'] = [(1.0 if c['form'] == 'flipped' else -1.0) * scale, scale]
    c['shape'] = [int(rng.integers(60, 300)), int(rng.integers(60, 300))]
    c['crpix'] = [c['shape'][1] / 2.0 + float(rng.uniform(-10, 10)), c['shape'][0] / 2.0 + float(rng.uniform(-10, 10))]
    a = float(rng.uniform(3.0, 6.0)) * scale
    c['supplied_beam'] = [a, a * float(rng.uniform(0.3, 0.8)), float(rng.uniform(-90, 90))]
    a2 = float(rng.uniform(6.5, 9.0)) * scale
    c['other_beam'] = [a2, a2 * float(rng.uniform(0.85, 1.0)), float(rng.uniform(-90, 90))]
    c['seed'] = [seed, 'ctor', proj, k]
    return c


def _run_ctor(case, wcs_helpers):
    from astropy.io import fits
    o = Obs()
    set_obs(o)
    tmp = scratch_dir()
    try:
        rng = rng_for(*case['seed'])
        rows, cols = case['shape']
        sup = tuple(min(v, 0.09) if i < 2 else v for i, v in enumerate(case['supplied_beam']))
        oth = tuple(min(v, 0.09) if i < 2 else v for i, v in enumerate(case['other_beam']))
        nvar = 0
        for hb_name, hb in (('same_beam', sup), ('different_beam', oth), ('no_beam_keywords', None), ('bpa_missing', 'nobpa')):
            hdr = _build_header(case, oth if hb == 'nobpa' else hb)
            if hb == 'nobpa':
                del hdr['BPA']                      # header beam then reads (BMAJ, BMIN, 0)
            z = _oracle_from_header(hdr)
            path = os.path.join(tmp, 'img_%s.fits' % hb_name)
            fits.PrimaryHDU(np.zeros((rows, cols), dtype=np.float32), header=hdr).writeto(path, overwrite=True)
            for how in ('from_header', 'from_file', 'from_header_positional'):
                wit = {'constructor': how, 'header_has': hb_name, 'supplied_beam': list(sup),
                       'header_beam': None if hb is None else [hdr.get('BMAJ'), hdr.get('BMIN'), hdr.get('BPA')],
                       'proj': case['proj'], 'crval': case['crval'], 'cdelt': case['cdelt'], 'form': case['form']}
                bm = wcs_helpers.Beam(*sup)
                if how == 'from_header':
                    w = _subject(o, wit, how, lambda: wcs_helpers.WCSHelper.from_header(hdr, beam=bm))
                elif how == 'from_file':
                    w = _subject(o, wit, how, lambda: wcs_helpers.WCSHelper.from_file(path, beam=bm))
                else:
                    w = _subject(o, wit, how, lambda: wcs_helpers.WCSHelper.from_header(hdr, bm))
                if w is None:
                    continue
                if getattr(w, '_aegmon_zwcs', None) is None:
                    raise RuntimeError('oracle was not attached to the helper')
                o.count('ctor_supplied_beam_helpers')
                o.count('ctor_supplied_beam_header_' + hb_name)
                o.see('ctor_constructors', how)
                o.n_eval += 1
                nvar += 1
                got = [float(w.beam.a), float(w.beam.b), float(w.beam.pa)]
                if got != [float(v) for v in sup]:
                    o.violate('supplied_beam_not_used', dict(wit, helper_beam=got))
                _judge_nomap_psf(o, w, z, sup, rng, rows, cols, wit, prefix='ctor', nprobe=2)
            # control: nothing supplied -> the header beam (when there is one)
            if hb is not None and hb != 'nobpa':
                wit = {'constructor': 'from_file, no beam supplied', 'header_has': hb_name, 'header_beam': list(hb),
                       'proj': case['proj'], 'crval': case['crval'], 'cdelt': case['cdelt']}
                w = _subject(o, wit, 'from_file', lambda: wcs_helpers.WCSHelper.from_file(path))
                if w is not None:
                    o.count('ctor_header_beam_helpers')
                    _judge_nomap_psf(o, w, z, hb, rng, rows, cols, wit, prefix='ctor', nprobe=1)
        o.n_nontrivial += nvar
        o.sample = {'supplied_beam': list(sup), 'other_beam': list(oth), 'helpers': nvar}
        return o.result()
    finally:
        set_obs(None)
        shutil.rmtree(tmp, ignore_errors=True)


def fold(cases, results, tier):
    worst = 0.0
    for r in results:
        if not r:
            continue
        m = r.get('maxima') or {}
        for k in ('ellipse_roundtrip_major_rel', 'ellipse_roundtrip_minor_rel'):
            worst = max(worst, m.get(k, 0.0))
    return {'extra_coverage': {'ellipse_roundtrip_worst_rel': worst, 'thin_margin': bool(THIN < worst <= TOL_REL),
                               'tolerances': {'pix': TOL_PIX, 'sky_deg': TOL_SKY, 'rel': TOL_REL, 'angle_deg': TOL_ANG},
                               'domain': {'position_deg': DOM_POS, 'ellipse_off_axis_deg': DOM_ELL_OFF,
                                          'ellipse_axis_deg': DOM_ELL_LEN}}}
