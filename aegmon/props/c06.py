"""C06 - BANE background/noise maps obey the estimator contract.

Metamorphic relations between runs of the real BANE.filter_image on related images (exactly representable shifts
and scales on a dyadic grid), plus single-run bounds, the masking rules and the Gaussian-noise clause.
Every run sits under the C07 watchdog (aegmon.bane_harness); a hang is C07's business and makes this run
inconclusive, never a C06 violation.
"""
import os
import shutil

import numpy as np

from aegmon import bane_harness as bh
from aegmon.common import Obs, rng_for, scratch_dir

ID = 'C06'
LEVEL = 'exploration'
USE_REACH = False
RULE = ('a case is one image family (shape 5x5..400x300, noise quantised to 2^-10, optional gradient, DC offset, NaN/inf '
        'blocks, borders, single pixels) with one (grid, box, cores, stripes, mask) setting, run as base / +c / *k '
        '(c = +-2^j, k = +-2^j so the related images are exact in float32), as a constant image, as a 3-D/4-D cube '
        'slice, with BSCALE, or as stationary Gaussian noise; an evaluation is one BANE.filter_image call in a fresh '
        'process; non-trivial = the image has >= 25 finite pixels; distinct = distinct case dicts')
ASSUMPTIONS = ['shift/scale relations are judged to 2 float32 ulp of |bkg|+|c| because the related images are exact '
               'and only the final float32 cast differs',
               '3-sigma clipping iterated to its fixed point lowers the rms of Gaussian data to 0.985 s; the '
               'Gaussian clause is judged on the median of the maps with an 8-sigma sampling band']
MIN_COUNTERS = {'reuse_pairs_compared': 2, 'runs_ok': 30, 'shift_relations': 5, 'scale_relations': 5, 'scale_relations_far_from_one': 3, 'bscale_compressed_files_checked': 2, 'bscale_negative_compared': 1, 'late_stripe_runs': 1, 'masked_pixels_checked': 50,
                'far_pixels_checked': 1000, 'constant_images': 2, 'gauss_images': 1}
BATCHES_PER_JOB = 4

F32 = np.float32


def ulp32(x):
    return float(np.spacing(F32(abs(x)))) if np.isfinite(x) else np.inf


# ------------------------------------------------------------------------------------------ images
def make_image(spec):
    rng = rng_for('c06img', *spec['seed'])
    rows, cols = spec['shape']
    if spec.get('const') is not None:
        img = np.full((rows, cols), float(spec['const']))
    else:
        s = spec.get('noise', 1.0)
        img = np.round(rng.normal(0, s, (rows, cols)) * 1024) / 1024
        if spec.get('gauss'):
            img = rng.normal(spec['mean'], s, (rows, cols))
        if spec.get('gradient'):
            yy, xx = np.mgrid[0:rows, 0:cols]
            gy, gx = spec['gradient']
            img = img + np.round((gy * yy + gx * xx) * 1024) / 1024
        if spec.get('dc'):
            img = img + spec['dc']
    for blk in spec.get('blanks', []):
        r0, r1, c0, c1, val = blk
        img[r0:r1, c0:c1] = {'nan': np.nan, 'inf': np.inf, '-inf': -np.inf}[val]
    return img.astype(F32)


def _blanks(rng, rows, cols):
    out = []
    kind = rng.choice(['none', 'block', 'border', 'pixels', 'stripe', 'mixed'], p=[0.25, 0.2, 0.15, 0.15, 0.1, 0.15])
    if kind in ('block', 'mixed'):
        h, w = int(rng.integers(1, max(2, rows // 2))), int(rng.integers(1, max(2, cols // 2)))
        r0, c0 = int(rng.integers(0, rows - h + 1)), int(rng.integers(0, cols - w + 1))
        out.append([r0, r0 + h, c0, c0 + w, 'nan'])
    if kind in ('border', 'mixed'):
        b = int(rng.integers(1, max(2, min(rows, cols) // 6 + 1)))
        out += [[0, b, 0, cols, 'nan'], [rows - b, rows, 0, cols, 'nan'], [0, rows, 0, b, 'nan'], [0, rows, cols - b, cols, 'nan']]
    if kind in ('pixels', 'mixed'):
        for _ in range(int(rng.integers(1, 6))):
            r, c = int(rng.integers(0, rows)), int(rng.integers(0, cols))
            out.append([r, r + 1, c, c + 1, str(rng.choice(['nan', 'nan', 'inf', '-inf']))])
    if kind == 'stripe':
        r0 = int(rng.integers(0, rows))
        out.append([r0, min(rows, r0 + int(rng.integers(1, max(2, rows // 3)))), 0, cols, 'nan'])
    return out


def cases(seed, tier):
    rng = rng_for(seed, 'c06cases')
    out = []
    n_rel = 70 if tier == 'quick' else 1200
    for i in range(n_rel):
        big = rng.random() < 0.25
        rows = int(rng.integers(5, 400 if big else 90))
        cols = int(rng.integers(5, 300 if big else 70))
        gy, gx = int(rng.integers(1, 33)), int(rng.integers(1, 33))
        if rng.random() < 0.6:
            gx = gy
        if rows * cols > 20000:
            gy, gx = max(gy, 4), max(gx, 4)
        by = int(rng.integers(max(4, gy), 6 * gy + 5))
        bx = by if gx == gy and rng.random() < 0.7 else int(rng.integers(max(4, gx), 6 * gx + 5))
        cores = int(rng.choice([1, 1, 2, 3, 4, 6, 8, 16]))
        nslice = int(rng.integers(1, 2 * cores + 1)) if rng.random() < 0.7 else None
        spec = {'shape': [rows, cols], 'seed': [seed, 'rel', i], 'noise': float(2.0 ** rng.integers(-3, 4)),
                'blanks': _blanks(rng, rows, cols)}
        if rng.random() < 0.5:
            spec['gradient'] = [float(rng.uniform(-0.05, 0.05)), float(rng.uniform(-0.05, 0.05))]
        if rng.random() < 0.5:
            spec['dc'] = float(rng.choice([-1, 1]) * 2.0 ** rng.integers(0, 13))
        out.append({'kind': 'relations', 'image': spec, 'grid': [gy, gx], 'box': [by, bx], 'cores': cores,
                    'nslice': nslice, 'mask': bool(rng.random() < 0.85),
                    'shift': float(rng.choice([-1, 1]) * 2.0 ** rng.integers(0, 13)),
                    'scale': float(rng.choice([-1, 1]) * 2.0 ** rng.integers(-3, 6))})
        if i % 3 == 1:
            # image units are arbitrary (nJy ... counts): scales far from one, still exact powers of two
            out[-1]['scale'] = float(rng.choice([-1, 1]) * 2.0 ** int(rng.choice([-60, -40, -30, -20, 20, 30, 40])))
            out[-1]['extreme_scale'] = True
    n_const = 8 if tier == 'quick' else 80
    for i in range(n_const):
        rows, cols = int(rng.integers(5, 120)), int(rng.integers(5, 120))
        g = int(rng.integers(1, 17))
        b = int(rng.integers(max(4, g), 6 * g + 5))
        cores = int(rng.choice([1, 2, 4]))
        c = float(rng.choice([0.0, 1.0, -1.0, 3.5, 1e-3, -2.5e4, 4096.0, 1e10, 1.0 / 3.0]))
        out.append({'kind': 'constant', 'image': {'shape': [rows, cols], 'seed': [seed, 'const', i], 'const': c,
                                                  'blanks': _blanks(rng, rows, cols) if rng.random() < 0.4 else []},
                    'grid': [g, g], 'box': [b, b], 'cores': cores, 'nslice': int(rng.integers(1, 2 * cores + 1))})
    n_g = 6 if tier == 'quick' else 60
    for i in range(n_g):
        rows, cols = int(rng.integers(150, 320)), int(rng.integers(150, 320))
        g = int(rng.choice([4, 5, 8, 10]))
        b = int(rng.integers(max(12, g), 6 * g + 1))
        cores = int(rng.choice([1, 2, 4]))
        mean = float(rng.choice([0.0, 5.0, -300.0, 1e4])) * float(rng.choice([1, 1e-3]))
        noise = float(10 ** rng.uniform(-4, 3))
        # the image is stored as float32: the noise must stay well above the representation error of the mean
        noise = max(noise, 1e3 * ulp32(abs(mean))) if mean else noise
        out.append({'kind': 'gauss', 'image': {'shape': [rows, cols], 'seed': [seed, 'gauss', i], 'gauss': True,
                                               'mean': mean, 'noise': noise},
                    'grid': [g, g], 'box': [b, b], 'cores': cores, 'nslice': int(rng.integers(1, cores + 1))})
    n_c = 4 if tier == 'quick' else 40
    for i in range(n_c):
        rows, cols, n3 = int(rng.integers(8, 60)), int(rng.integers(8, 60)), int(rng.integers(1, 5))
        g = int(rng.integers(2, 9))
        naxis = int(rng.choice([3, 4]))
        if i < 2:
            # stratified, not drawn: every run sees a 4-D cube with several planes (a non-zero cube_index on NAXIS=4
            # was left to chance before seeded change C06-r10-1) and a 3-D one
            naxis, n3 = (4, max(n3, 2)) if i == 0 else (3, max(n3, 2))
        out.append({'kind': 'cube', 'shape': [rows, cols], 'n3': n3, 'naxis': naxis,
                    'seed': [seed, 'cube', i], 'grid': [g, g], 'box': [3 * g + 1, 3 * g + 1], 'cores': int(rng.choice([1, 2]))})
    n_b = 8 if tier == 'quick' else 40
    for i in range(n_b):
        rows, cols = int(rng.integers(8, 70)), int(rng.integers(8, 70))
        g = int(rng.integers(2, 9))
        out.append({'kind': 'bscale', 'shape': [rows, cols], 'seed': [seed, 'bs', i], 'grid': [g, g], 'box': [4 * g, 4 * g],
                    'cores': int(rng.choice([1, 2])), 'bscale': (float(2.0 ** rng.integers(-3, 4)) or 2.0) * (-1.0 if (i % 4 in (1, 2) or i % 8 == 4) else 1.0),
                    'raw': str(rng.choice(['float32', 'int16']))})
    n_r = 4 if tier == 'quick' else 40
    for i in range(n_r):
        rows, cols = int(rng.integers(10, 70)), int(rng.integers(10, 70))
        g = int(rng.integers(2, 9))
        out.append({'kind': 'reuse', 'shape': [rows, cols], 'seed': [seed, 'reuse', i], 'grid': [g, g], 'box': [4 * g, 4 * g],
                    'cores': int(rng.choice([1, 2])), 'change': ['bscale', 'naxis', 'content', 'shape'][i % 4]})
    # stripes that do not arrive together: one stripe is held back for longer than any plausible internal time limit while the
    # others wait at the barrier; the maps must not care (the statement's clauses are about the maps, whenever they arrive)
    for i, (pt, d) in enumerate([('start', 36.0)] if tier == 'quick' else [('start', 36.0), ('start', 70.0), ('bkg_subtracted', 36.0)]):
        out.append({'kind': 'skew', 'shape': [120, 40], 'seed': [seed, 'skew', i], 'grid': [8, 8], 'box': [32, 32], 'cores': 2,
                    'nslice': 2, 'point': pt, 'delay': d})
    n_f = 4 if tier == 'quick' else 30
    for i in range(n_f):
        rows, cols = int(rng.integers(20, 90)), int(rng.integers(20, 90))
        g = int(rng.integers(2, 9))
        out.append({'kind': 'files', 'image': {'shape': [rows, cols], 'seed': [seed, 'files', i], 'noise': 1.0,
                                               'dc': 16.0, 'blanks': _blanks(rng, rows, cols)},
                    'grid': [g, g], 'box': [4 * g, 4 * g], 'cores': int(rng.choice([1, 2])),
                    'compressed': bool(rng.random() < 0.5)})
    return out


# ------------------------------------------------------------------------------------------ judging
def _run(specs, sc):
    res = bh.run_specs(specs, sc)
    for sp in specs:
        st = res[sp['k']].get('status')
        if st in ('hang', 'stuck', 'crashed'):
            # C07's business; here the case cannot be judged
            raise RuntimeError('BANE run did not complete (%s) - judged by C07, inconclusive for C06: %r' % (
                st, {k: sp.get(k) for k in ('grid', 'box', 'cores', 'nslice')}))
    return res


def _maps(sp):
    return np.load(sp['save'] + '_bkg.npy'), np.load(sp['save'] + '_rms.npy')


def _single_run_clauses(o, img, bkg, rms, case, what):
    """shape, bounds, masking"""
    wit = {'what': what, 'image': case.get('image', {'shape': list(img.shape)}),
           'config': {k: case.get(k) for k in ('grid', 'box', 'cores', 'nslice', 'mask')}}
    if bkg.shape != img.shape or rms.shape != img.shape:
        o.violate('shape', dict(wit, bkg_shape=bkg.shape, rms_shape=rms.shape))
        return
    fin = np.isfinite(img)
    if fin.sum() == 0:
        return
    lo, hi = float(img[fin].min()), float(img[fin].max())
    rng_ = hi - lo
    tol = 2 * max(ulp32(lo), ulp32(hi))
    bf = np.isfinite(bkg)
    rf = np.isfinite(rms)
    if bf.any():
        over = max(float(np.max(bkg[bf])) - hi, lo - float(np.min(bkg[bf])))
        o.worst('bkg_outside_input_range_in_ulp', over / max(ulp32(lo), ulp32(hi)))
        if over > tol:
            o.violate('bkg_within_input_range', dict(wit, input_range=[lo, hi],
                                                     bkg_range=[float(np.min(bkg[bf])), float(np.max(bkg[bf]))]),
                      None)
    if rf.any():
        if float(np.min(rms[rf])) < 0 or float(np.max(rms[rf])) > rng_ + tol:
            o.violate('rms_within_0_and_range', dict(wit, input_range=[lo, hi],
                                                     rms_range=[float(np.min(rms[rf])), float(np.max(rms[rf]))]))
    o.count('bounds_checked')
    if case.get('mask', True):
        blank = ~fin
        nb = int(blank.sum())
        if nb:
            bad = blank & (np.isfinite(bkg) | np.isfinite(rms))
            o.count('masked_pixels_checked', nb)
            if bad.any():
                i, j = np.argwhere(bad)[0]
                o.violate('blank_input_not_blank_in_maps', dict(wit, pixel=[int(i), int(j)], n=int(bad.sum())))
        from scipy.ndimage import maximum_filter
        gy, gx = case['grid']
        by, bx = case['box']
        ry, rx = int(np.ceil(by / 2.0 + gy)), int(np.ceil(bx / 2.0 + gx))
        near = maximum_filter(blank.astype(np.uint8), size=(2 * ry + 1, 2 * rx + 1), mode='constant', cval=0) > 0
        far = ~near
        o.count('far_pixels_checked', int(far.sum()))
        badfar = far & ~(np.isfinite(bkg) & np.isfinite(rms))
        if badfar.any():
            i, j = np.argwhere(badfar)[0]
            o.violate('far_pixel_blank_in_maps', dict(wit, pixel=[int(i), int(j)], n=int(badfar.sum()),
                                                     n_blank_input=nb))


def run(case):
    o = Obs()
    sc = scratch_dir()
    try:
        kind = case['kind']
        base = {'grid': case.get('grid'), 'box': case.get('box'), 'cores': case.get('cores'),
                'nslice': case.get('nslice'), 'mask': case.get('mask', True)}
        if kind == 'relations':
            img = make_image(case['image'])
            c, k = F32(case['shift']), F32(case['scale'])
            variants = [('base', img), ('shift', img + c), ('scale', img * k)]
            specs = []
            for n, (name, im) in enumerate(variants):
                p = os.path.join(sc, name + '.fits')
                bh.write_fits(p, im)
                specs.append(dict(base, k=n, image=p, shape=list(img.shape), save=os.path.join(sc, name)))
            # exactness of the related images (else the relation is only approximate: do not judge it)
            exact_shift = np.array_equal((img + c).astype(np.float64)[np.isfinite(img)],
                                         (img.astype(np.float64) + float(c))[np.isfinite(img)])
            exact_scale = np.array_equal((img * k).astype(np.float64)[np.isfinite(img)],
                                         (img.astype(np.float64) * float(k))[np.isfinite(img)])
            res = _run(specs, sc)
            maps = {}
            for sp, (name, im) in zip(specs, variants):
                o.n_eval += 1
                rec = res[sp['k']]
                if rec['status'] != 'ok':
                    o.violate('raises', {'what': name, 'image': case['image'], 'config': base, 'exception': rec.get('exc')},
                              _mech_exc(rec))
                    continue
                o.count('runs_ok')
                b, r = _maps(sp)
                maps[name] = (b, r)
                _single_run_clauses(o, im, b, r, case, name)
            if np.isfinite(img).sum() >= 25:
                o.n_nontrivial += 1
            if 'base' in maps and 'shift' in maps and exact_shift:
                b0, r0 = [m.astype(np.float64) for m in maps['base']]
                b1, r1 = [m.astype(np.float64) for m in maps['shift']]
                ok = np.isfinite(b0) & np.isfinite(b1)
                if not np.array_equal(np.isfinite(b0), np.isfinite(b1)) or not np.array_equal(np.isfinite(r0), np.isfinite(r1)):
                    o.violate('shift_changes_blank_pattern', {'image': case['image'], 'config': base, 'shift': float(c)})
                if ok.any():
                    u = np.spacing((np.abs(b0[ok]) + abs(float(c))).astype(F32)).astype(np.float64)
                    eb = np.abs(b1[ok] - (b0[ok] + float(c))) / u
                    okr = np.isfinite(r0) & np.isfinite(r1)
                    ur = np.maximum(np.spacing(np.abs(r0[okr]).astype(F32)).astype(np.float64), 1e-300)
                    er = np.abs(r1[okr] - r0[okr]) / ur
                    o.worst('shift_bkg_err_ulp', float(eb.max()))
                    o.worst('shift_rms_err_ulp', float(er.max()) if er.size else 0.0)
                    o.count('shift_relations')
                    # rms of (x+c) is computed from residuals (x+c)-(bkg+c): float64 rounding of the subtraction is
                    # ~1e-16*(|c|+|x|), i.e. up to |c|*2^-52/ulp32(rms) float32 ulps of the rms
                    slack_r = 2 + 8 * (abs(float(c)) + np.abs(b0[ok]).max()) * 2.0 ** -52 / max(float(ur.min()), 1e-300)
                    if eb.max() > 2 or (er.size and er.max() > slack_r):
                        i = int(np.argmax(eb))
                        o.violate('shift_relation', {'image': case['image'], 'config': base, 'shift': float(c),
                                                     'max_bkg_err_ulp': float(eb.max()),
                                                     'max_rms_err_ulp': float(er.max()) if er.size else 0.0,
                                                     'rms_slack_ulp': float(slack_r),
                                                     'max_rms_change_over_rms': float(np.max(np.abs(r1[okr] - r0[okr]) / np.maximum(r0[okr], 1e-300)))},
                                  None)
            if 'base' in maps and 'scale' in maps and exact_scale:
                b0, r0 = [m.astype(np.float64) for m in maps['base']]
                b2, r2 = [m.astype(np.float64) for m in maps['scale']]
                ok = np.isfinite(b0) & np.isfinite(b2) & np.isfinite(r0) & np.isfinite(r2)
                if ok.any():
                    kk = float(k)
                    ub = np.maximum(np.spacing(np.abs(b0[ok] * kk).astype(F32)).astype(np.float64), 1e-300)
                    ur = np.maximum(np.spacing(np.abs(r0[ok] * kk).astype(F32)).astype(np.float64), 1e-300)
                    eb = np.abs(b2[ok] - kk * b0[ok]) / ub
                    er = np.abs(r2[ok] - abs(kk) * r0[ok]) / ur
                    o.worst('scale_bkg_err_ulp', float(eb.max()))
                    o.worst('scale_rms_err_ulp', float(er.max()))
                    o.count('scale_relations')
                    if case.get('extreme_scale'):
                        o.count('scale_relations_far_from_one')
                    if eb.max() > 2 or er.max() > 2:
                        o.violate('scale_relation', {'image': case['image'], 'config': base, 'scale': kk,
                                                     'max_bkg_err_ulp': float(eb.max()), 'max_rms_err_ulp': float(er.max())})
            o.sample = {'image': case['image'], 'config': base,
                        'bkg_median': float(np.nanmedian(maps['base'][0])) if 'base' in maps and np.isfinite(maps['base'][0]).any() else None}
        elif kind == 'constant':
            img = make_image(case['image'])
            p = os.path.join(sc, 'c.fits')
            bh.write_fits(p, img)
            sp = dict(base, k=0, image=p, shape=list(img.shape), save=os.path.join(sc, 'c'))
            rec = _run([sp], sc)[0]
            o.n_eval += 1
            o.n_nontrivial += 1
            if rec['status'] != 'ok':
                o.violate('raises', {'image': case['image'], 'config': base, 'exception': rec.get('exc')}, _mech_exc(rec))
            else:
                o.count('runs_ok')
                o.count('constant_images')
                b, r = _maps(sp)
                _single_run_clauses(o, img, b, r, case, 'constant')
                c = float(F32(case['image']['const']))
                bf = np.isfinite(b)
                if bf.any():
                    eb = float(np.max(np.abs(b[bf].astype(np.float64) - c))) / ulp32(c if c else 1e-45)
                    er = float(np.max(r[np.isfinite(r)])) if np.isfinite(r).any() else 0.0
                    o.worst('constant_bkg_err_ulp', eb if c else 0.0)
                    o.worst('constant_rms_over_scale', er / max(1.0, abs(c)))
                    if (c != 0 and eb > 1) or (c == 0 and float(np.max(np.abs(b[bf]))) > 0) or er > 1e-9 * max(1.0, abs(c)):
                        o.violate('constant_image', {'image': case['image'], 'config': base, 'max_bkg_err_ulp': eb,
                                                     'max_rms': er})
            o.sample = {'const': case['image']['const'], 'config': base}
        elif kind == 'gauss':
            img = make_image(case['image'])
            p = os.path.join(sc, 'g.fits')
            bh.write_fits(p, img)
            sp = dict(base, k=0, image=p, shape=list(img.shape), save=os.path.join(sc, 'g'))
            rec = _run([sp], sc)[0]
            o.n_eval += 1
            o.n_nontrivial += 1
            if rec['status'] != 'ok':
                o.violate('raises', {'image': case['image'], 'config': base, 'exception': rec.get('exc')}, _mech_exc(rec))
            else:
                o.count('runs_ok')
                o.count('gauss_images')
                b, r = _maps(sp)
                _single_run_clauses(o, img, b, r, case, 'gauss')
                m, s = case['image']['mean'], case['image']['noise']
                npx = img.size
                # image values were cast to float32: representation error of the mean
                rep = ulp32(abs(m) + 5 * s)
                tol_b = 8 * 1.2533 * s / np.sqrt(npx) + rep
                band = 8 * 1.2533 / np.sqrt(2.0 * npx)
                mb = float(np.median(b)) - m
                mr = float(np.median(r)) / s
                o.worst('gauss_bkg_median_err_over_tol', abs(mb) / tol_b)
                o.worst('gauss_rms_ratio_max', mr)
                o.worst('gauss_rms_ratio_min_neg', -mr)
                # float32 quantisation adds rep^2/12 variance
                qn = (rep / s) ** 2 / 12
                lo, hi = 0.94 * (1 - band), 1.02 * (1 + band) * np.sqrt(1 + qn)
                if abs(mb) > tol_b or not (lo <= mr <= hi):
                    o.violate('gaussian_noise_maps', {'image': case['image'], 'config': base,
                                                      'median_bkg_minus_m': mb, 'tol': tol_b,
                                                      'median_rms_over_s': mr, 'band': [lo, hi]})
            o.sample = {'image': case['image'], 'config': base}
        elif kind == 'cube':
            rng = rng_for(*case['seed'])
            rows, cols = case['shape']
            n3 = case['n3']
            cube = (np.round(rng.normal(0, 1, (n3, rows, cols)) * 1024) / 1024 + np.arange(n3)[:, None, None] * 8.0).astype(F32)
            pc = os.path.join(sc, 'cube.fits')
            bh.write_fits(pc, cube, extra_axes=1 if case['naxis'] == 4 else 0)
            specs = []
            for i in range(n3):
                p2 = os.path.join(sc, 'plane%d.fits' % i)
                bh.write_fits(p2, cube[i])
                specs.append(dict(base, k=2 * i, image=pc, cube_index=i, shape=[rows, cols], save=os.path.join(sc, 'cube%d' % i)))
                specs.append(dict(base, k=2 * i + 1, image=p2, shape=[rows, cols], save=os.path.join(sc, 'plane%d' % i)))
            specs.append(dict(base, k=1000, image=pc, cube_index=None, shape=[rows, cols], save=os.path.join(sc, 'cubeNone')))
            res = _run(specs, sc)
            for sp in specs:
                o.n_eval += 1
                if res[sp['k']]['status'] != 'ok':
                    o.violate('raises', {'what': 'cube', 'case': case, 'cube_index': sp.get('cube_index'),
                                         'exception': res[sp['k']].get('exc')}, _mech_exc(res[sp['k']]))
                else:
                    o.count('runs_ok')
            o.n_nontrivial += 1
            for i in range(n3):
                if res[2 * i]['status'] == 'ok' and res[2 * i + 1]['status'] == 'ok':
                    a = _maps(specs[2 * i])
                    b = _maps(specs[2 * i + 1])
                    o.count('cube_slices_compared')
                    if not (a[0].tobytes() == b[0].tobytes() and a[1].tobytes() == b[1].tobytes()):
                        o.violate('cube_slice_differs_from_plane', {'case': case, 'cube_index': i,
                                                                   'max_dbkg': float(np.nanmax(np.abs(a[0] - b[0])))})
            if res[1000]['status'] == 'ok' and res[0]['status'] == 'ok':
                a = _maps(specs[-1])
                b = _maps(specs[0])
                if not (a[0].tobytes() == b[0].tobytes()):
                    o.violate('default_slice_is_not_first', {'case': case})
            o.sample = {'cube': [n3, rows, cols], 'naxis': case['naxis']}
        elif kind == 'bscale':
            rng = rng_for(*case['seed'])
            rows, cols = case['shape']
            bs = case['bscale']
            if case['raw'] == 'int16':
                raw = rng.integers(-2000, 2000, (rows, cols)).astype(np.int16)
            else:
                raw = (np.round(rng.normal(0, 4, (rows, cols)) * 256) / 256).astype(F32)
            phys = (raw.astype(np.float64) * bs).astype(F32)
            p1 = os.path.join(sc, 'scaled.fits')
            wcs_h = {'CTYPE1': 'RA---SIN', 'CTYPE2': 'DEC--SIN', 'CRVAL1': 10.0, 'CRVAL2': -30.0, 'CRPIX1': cols / 2.0,
                     'CRPIX2': rows / 2.0, 'CDELT1': -0.002, 'CDELT2': 0.002}
            _write_bscale(p1, raw, bs, header=wcs_h)
            p2 = os.path.join(sc, 'phys.fits')
            bh.write_fits(p2, phys, header=wcs_h)
            # (half of the scaled runs also write their maps to files: what is returned must not depend on that; and half of
            # those write COMPRESSED files, which must read back in physical units as well)
            with_files = bool(case['seed'][-1] % 2 == 0)
            comp = bool(with_files and (case['seed'][-1] // 2) % 2 == 0)
            specs = [dict(base, k=0, image=p1, shape=[rows, cols], save=os.path.join(sc, 's'),
                          out_base=os.path.join(sc, 'scaled_out') if with_files else None, compressed=comp),
                     dict(base, k=1, image=p2, shape=[rows, cols], save=os.path.join(sc, 'p'))]
            if with_files:
                o.count('bscale_runs_that_also_write_files')
            res = _run(specs, sc)
            o.n_eval += 2
            o.n_nontrivial += 1
            if res[0]['status'] != 'ok':
                o.violate('raises', {'what': 'BSCALE image', 'raw_dtype': case['raw'], 'bscale': bs, 'config': base,
                                     'exception': res[0].get('exc')},
                          _mech_exc(res[0]))
            elif res[1]['status'] == 'ok':
                o.count('runs_ok', 2)
                a = _maps(specs[0])
                b = _maps(specs[1])
                o.count('bscale_compared')
                if bs < 0:
                    o.count('bscale_negative_compared')
                if not (a[0].tobytes() == b[0].tobytes() and a[1].tobytes() == b[1].tobytes()):
                    o.violate('bscale_image_differs_from_physical', {'raw_dtype': case['raw'], 'bscale': bs, 'config': base,
                                                                    'files_written': with_files,
                                                                    'max_dbkg': float(np.nanmax(np.abs(a[0] - b[0])))})
                if with_files:
                    from astropy.io import fits
                    for name, arr in (('bkg', a[0]), ('rms', a[1])):
                        fn = os.path.join(sc, 'scaled_out_%s.fits' % name)
                        if not os.path.exists(fn):
                            o.violate('file_missing', {'file': os.path.basename(fn), 'case': case})
                            continue
                        if comp:
                            sys_path_repo()
                            from AegeanTools import fits_tools
                            d = fits_tools.expand(fn)[0].data           # (astropy applies the header's BSCALE on the way)
                            g = case['grid'][0]
                            dn, an = d[::g, ::g], arr[::g, ::g]
                            both = np.isfinite(dn) & np.isfinite(an)
                            o.count('bscale_compressed_files_checked')
                            if d.shape != arr.shape or not np.allclose(dn[both], an[both], rtol=2e-7, atol=0):
                                o.violate('bscale_file_differs_from_returned_map', {
                                    'file': name, 'raw_dtype': case['raw'], 'bscale': bs, 'compressed': True,
                                    'median_ratio_file_over_returned': float(np.nanmedian(dn[both] / an[both])) if both.any() else None})
                            continue
                        d = fits.getdata(fn)          # astropy applies the BSCALE of the header: physical units again
                        o.count('bscale_files_checked')
                        if d.shape != arr.shape or not np.allclose(d, arr, rtol=2e-7, atol=0, equal_nan=True):
                            o.violate('bscale_file_differs_from_returned_map', {'file': name, 'raw_dtype': case['raw'], 'bscale': bs})
            o.sample = {'raw': case['raw'], 'bscale': bs}
        elif kind == 'reuse':
            # two calls in ONE process on the SAME path whose content changed in between: the second answer must be the
            # one a fresh process gives for the new content (no per-name memory of header, scaling, shape)
            rng = rng_for(*case['seed'])
            rows, cols = case['shape']
            a = (np.round(rng.normal(3, 2, (rows, cols)) * 256) / 256).astype(F32)
            b = (np.round(rng.normal(-40, 5, (rows, cols)) * 256) / 256).astype(F32)
            first, second = os.path.join(sc, 'first.fits'), os.path.join(sc, 'second.fits')
            shape2 = [rows, cols]
            ch = case['change']
            if ch == 'bscale':
                _write_bscale(first, a, 2.0)
                _write_bscale(second, a, 0.25)
            elif ch == 'naxis':
                bh.write_fits(first, a)
                bh.write_fits(second, np.stack([b, a]), extra_axes=0)          # a cube whose plane 0 is b
            elif ch == 'shape':
                bh.write_fits(first, a)
                b = b[: max(6, rows // 2), : max(6, cols - 3)]
                shape2 = list(b.shape)
                bh.write_fits(second, b)
            else:
                bh.write_fits(first, a)
                bh.write_fits(second, b)
            target = os.path.join(sc, 'same_name.fits')
            specs = [dict(base, k=0, image=target, copy_from=first, shape=[rows, cols], save=os.path.join(sc, 'r0')),
                     dict(base, k=1, image=target, copy_from=second, shape=shape2, save=os.path.join(sc, 'r1'))]
            res = _run(specs, sc)
            fresh = [dict(base, k=2, image=second, shape=shape2, save=os.path.join(sc, 'r2'))]
            res.update(_run(fresh, sc))
            o.n_eval += 3
            o.n_nontrivial += 1
            if res[1]['status'] != 'ok' or res[2]['status'] != 'ok' or res[0]['status'] != 'ok':
                for k in (0, 1, 2):
                    if res[k]['status'] != 'ok':
                        o.violate('raises', {'what': 'same path, content changed (%s), run %d' % (ch, k), 'config': base,
                                             'exception': res[k].get('exc')}, _mech_exc(res[k]))
            else:
                o.count('runs_ok', 3)
                o.count('reuse_pairs_compared')
                x, y = _maps(specs[1]), _maps(fresh[0])
                if x[0].shape != y[0].shape or not (x[0].tobytes() == y[0].tobytes() and x[1].tobytes() == y[1].tobytes()):
                    o.violate('second_call_on_same_path_differs_from_fresh_process', {
                        'changed': ch, 'config': base, 'shape_second': list(x[0].shape), 'shape_fresh': list(y[0].shape),
                        'median_bkg_second': float(np.nanmedian(x[0])), 'median_bkg_fresh': float(np.nanmedian(y[0]))})
            o.sample = {'changed': ch, 'config': base}
        elif kind == 'skew':
            rng = rng_for(*case['seed'])
            rows, cols = case['shape']
            img = (np.round(rng.normal(200.0, 1.0, (rows, cols)) * 64) / 64).astype(F32)
            p = os.path.join(sc, 'skew.fits')
            bh.write_fits(p, img)
            ref = dict(base, k=0, image=p, shape=[rows, cols], save=os.path.join(sc, 'ref'))
            r0 = _run([ref], sc)[0]
            o.n_eval += 1
            if r0['status'] != 'ok':
                o.violate('raises', {'what': 'skew reference', 'exception': r0.get('exc')}, _mech_exc(r0))
            else:
                stripes = bh.check_log(bh.parse_log(ref['log']), mask=True)[1]['stripes']
                plan = {'delay': {'%s:%d' % (case['point'], stripes[0]): case['delay']}}
                late = dict(base, k=1, image=p, shape=[rows, cols], save=os.path.join(sc, 'late'), plan=plan)
                r1 = bh.run_specs([late], sc, hard_s=case['delay'] + 240.0)[1]
                o.n_eval += 1
                o.n_nontrivial += 1
                if r1.get('status') != 'ok':
                    if r1.get('status') == 'raised':
                        o.violate('raises', {'what': 'one stripe %.0f s late at %s' % (case['delay'], case['point']), 'exception': r1.get('exc')})
                    else:
                        raise RuntimeError('BANE run with a late stripe did not complete (%s): judged by C07' % r1.get('status'))
                else:
                    o.count('runs_ok', 2)
                    o.count('late_stripe_runs')
                    b0, n0 = _maps(ref)
                    b1, n1 = _maps(late)
                    _single_run_clauses(o, img, b1, n1, dict(case, image={'shape': [rows, cols]}), 'one stripe late')
                    if not (b0.tobytes() == b1.tobytes() and n0.tobytes() == n1.tobytes()):
                        o.violate('late_stripe_changes_maps', {'plan': plan, 'config': base, 'stripes': stripes,
                                                               'max_drms': float(np.nanmax(np.abs(n1 - n0))),
                                                               'max_dbkg': float(np.nanmax(np.abs(b1 - b0)))})
            o.sample = {'point': case['point'], 'delay_s': case['delay']}
        elif kind == 'files':
            from astropy.io import fits
            img = make_image(case['image'])
            p = os.path.join(sc, 'f.fits')
            # compressed output needs a celestial WCS in the header (compress rescales CRPIX/CDELT)
            bh.write_fits(p, img, header={'CTYPE1': 'RA---SIN', 'CTYPE2': 'DEC--SIN', 'CRVAL1': 10.0, 'CRVAL2': -30.0,
                                          'CRPIX1': img.shape[1] / 2.0, 'CRPIX2': img.shape[0] / 2.0,
                                          'CDELT1': -0.002, 'CDELT2': 0.002})
            ob = os.path.join(sc, 'out')
            sp = dict(base, k=0, image=p, shape=list(img.shape), save=os.path.join(sc, 'f'), out_base=ob,
                      compressed=case['compressed'])
            rec = _run([sp], sc)[0]
            o.n_eval += 1
            o.n_nontrivial += 1
            if rec['status'] != 'ok':
                o.violate('raises', {'what': 'files', 'case': case, 'exception': rec.get('exc')}, _mech_exc(rec))
            else:
                o.count('runs_ok')
                b, r = _maps(sp)
                _single_run_clauses(o, img, b, r, case, 'files')
                for name, arr in (('bkg', b), ('rms', r)):
                    fn = ob + '_%s.fits' % name
                    if not os.path.exists(fn):
                        o.violate('file_missing', {'file': os.path.basename(fn), 'case': case})
                        continue
                    o.count('files_checked')
                    if case['compressed']:
                        sys_path_repo()
                        from AegeanTools import fits_tools
                        h = fits_tools.expand(fn)
                        d = h[0].data
                    else:
                        d = fits.getdata(fn)
                    if d.shape != img.shape:
                        o.violate('file_shape', {'file': name, 'shape': list(d.shape), 'image_shape': list(img.shape), 'case': case})
                        continue
                    if not case['compressed']:
                        if not np.array_equal(d, arr, equal_nan=True):
                            o.violate('file_differs_from_returned_map', {'file': name, 'case': case})
                    else:
                        g = case['grid'][0]
                        # grid nodes of the compression must carry the returned values
                        a = d[::g, ::g]
                        bnode = arr[::g, ::g]
                        # (expand spreads a blank node to its neighbours - outside C15's judged domain - so nodes are
                        # compared where both are finite)
                        both = np.isfinite(a) & np.isfinite(bnode)
                        o.count('compressed_nodes_compared', int(both.sum()))
                        if both.any() and not np.array_equal(a[both], bnode[both]):
                            o.violate('compressed_file_nodes_differ', {'file': name, 'case': case,
                                                                       'max': float(np.max(np.abs(a[both] - bnode[both])))})
            o.sample = {'image': case['image'], 'compressed': case['compressed']}
        return o.result()
    finally:
        shutil.rmtree(sc, ignore_errors=True)


def sys_path_repo():
    import sys
    repo = os.environ.get('AEGMON_REPO', '/repo')
    if sys.path[0] != repo:
        sys.path.insert(0, repo)


def _write_bscale(path, raw, bscale, header=None):
    """a file whose stored array is `raw` and whose header says BSCALE=bscale"""
    from astropy.io import fits
    hdu = fits.PrimaryHDU(raw)
    for k_, v_ in (header or {}).items():
        hdu.header[k_] = v_
    hdu.writeto(path, overwrite=True)
    with fits.open(path, mode='update', do_not_scale_image_data=True) as h:
        h[0].header['BSCALE'] = bscale
        h[0].header['BZERO'] = 0.0
    with fits.open(path, do_not_scale_image_data=True) as h:
        if not (np.array_equal(h[0].data, raw) and h[0].header['BSCALE'] == bscale):
            raise RuntimeError('harness: could not write a BSCALE file')


def _mech_exc(rec):
    """mechanism key from the exception text (predicate over the witness)"""
    txt = rec.get('exc') or ''
    if 'UFuncTypeError' in txt or "Cannot cast ufunc 'multiply'" in txt:
        return 'bscale-inplace-multiply-on-integer-data'
    return None
