"""C15 - compress then expand restores shape, WCS and node values.

The real AegeanTools.fits_tools.compress / expand (and, for the acceptance clause, load_image_band,
SourceFinder._load_aux_image / load_globals, the SR6 CLI and BANE --compress) are run on generated images; every
clause of the statement is a direct comparison against the generated input:

  shape        expanded data (squeezed) has the original (rows, cols)
  bn_keys      no BN_* keyword is left after expand
  wcs_keys     CRPIX1/2 and CDELT1/2 (or all four CD terms, rotated and skewed matrices included) equal the originals
               (tolerance below), every other WCS keyword is untouched, none is added (the compressed file's own WCS is
               not judged - for rotated inputs the code leaves CD1_2/CD2_1 unscaled there, the statement only demands
               that the round trip restores them); wcs_sky: the image corners map to the same sky under both headers (refs/wcs_zenithal)
  nodes        expanded[kf, lf] == float32(original[kf, lf]) exactly, for every decimation node
  range        min/max of the expanded image lie within [min, max] of the compressed samples
  range_of_image  ... and hence within [min, max] of the original image, whose samples the compressed ones are
  linear       on the complete cells of an image that is bilinear between nodes (our own formula) the expanded
               image equals the original to 4 float32 ulp of the node range
  aux          a compressed file is accepted by load_image_band / _load_aux_image / load_globals and gives the shape
               of the image (and the pixel values expand() gives); get_aux_files (--autoload) offers compressed
               <image>_bkg/_rms files like uncompressed ones, and `aegean --autoload` / `--background --noise` end up with
               the same background/noise arrays and source count for both
  blanked maps  NaN / inf blocks, rows, columns and single pixels: finite nodes not next to a non-finite sample exact, complete
               cells one cell away from every non-finite sample reproduced (clauses nodes / linear)
  file_spelling_*  a file named as pathlib.Path, bytes path or open binary file object is accepted like the str name
               and gives the same result (compress, expand; Path/bytes also load_image_band and load_globals)

Test images: float32 random everywhere, and - when there is at least one complete cell in each direction -
bilinear between random node values on the complete cells (rows 0..K*f, K = (rows-1)//f), so that the remainder
rows/columns (the BN_RPX bookkeeping) are hostile while the `linear` clause stays judgeable.
"""
import os
import shutil
import traceback

import numpy as np

from aegmon.common import Obs, rng_for, scratch_dir
from aegmon.refs import wcs_zenithal as wz
from aegmon.refs import sphere

ID = 'C15'
LEVEL = 'exploration'
RULE = ('bounded-exhaustive block: every (rows, cols) in 2..40 x 2..40 with every factor 1..12 and the factors 41, 64 '
        '(factor > size), in memory, one in 9 also through files; seeded random shapes to 400 with factors to 64 '
        '(file and HDUList input, float32/float64 and integer pixel types int16/int32 (a third of the block; exactly linear '
        'integer images from node values that are multiples of factor**2), 3-D/4-D degenerate axes, fully random and bilinear images); headers '
        'rotate through SIN/TAN/ZEA/ARC/STG, CDELT and CD form (CD: rotation-free, rotated by any angle, slightly rotated '
        'and skewed, i.e. non-zero CD1_2/CD2_1), both signs, non-integer and off-image CRPIX, a quarter with exact special CRPIX values per axis (1-f, 0, -f, 2-f, 1, '
        '0.5, -0.5, -2.75, 1-2f, f, 1+f); compressed '
        'aux files through load_image_band, SourceFinder._load_aux_image and load_globals; BANE --compress through '
        'BANE.filter_image and the BANE command line (both products expanded by expand, load_image_band, SR6 -x and '
        'load_globals, headers judged against the image BANE was given); tall/narrow and wide/short images with the '
        'long axis 1023..5000 (thorough: to 12000) x factors 3,5,7,10,13,41; thorough adds the SR6 CLI '
        '(with and without -f, with -m).  One evaluation = one compress+expand round trip '
        '(or one aux load) with all clauses judged; non-trivial = factor > 1; distinct = distinct '
        '(rows, cols, factor, header form, input mode) tuples')
ASSUMPTIONS = ['astropy.io.fits as file reader/writer (20-character float cards: >= 15 significant digits)',
               'refs/wcs_zenithal.py cross-checked against astropy.wcs at start-up',
               'the bilinear reference image is our own formula evaluated in float64 and cast to float32',
               'keyword tolerance 1e-9 (relative; absolute in pixels for |CRPIX| < 1): two float roundings of '
               '((c+f-1)/f-1)*f+1 are ~1e-13 for |c| < 1e4, a dropped or wrong offset is >= 1/64 pixel']
MIN_REACH = {'fits_tools:compress': 1, 'fits_tools:expand': 1, 'fits_tools:load_image_band': 1,
             'source_finder:SourceFinder._load_aux_image': 1, 'source_finder:get_aux_files': 1, 'CLI.aegean:main': 1}
MIN_COUNTERS = {
    'quick': {'roundtrips': 15000, 'roundtrips_file': 1000, 'nodes_checked': 100000, 'linear_cells_judged': 5000,
              'residual_rows_and_cols': 3000, 'factor_gt_size': 500, 'aux_loads': 100, 'blank_roundtrips': 200, 'blank_roundtrips_file': 40, 'blank_roundtrips_with_blank_samples': 100,
              'blank_clean_nodes_checked': 10000, 'blank_clean_cells_judged': 5000, 'higher_axis_wcs_keywords_compared': 2000,
              'file_spellings_judged': 100, 'file_spelling_Path': 40, 'file_spelling_fileobj': 20,
              'file_spelling_bytes': 40, 'autoload_offers_checked': 3, 'cli_aux_route_autoload': 3, 'cli_aux_route_explicit': 3,
              'crpix_special_values': 3000, 'crpix_equals_1_minus_factor': 400,
              'crpix_equals_1_minus_factor_axis1': 150, 'crpix_equals_1_minus_factor_axis2': 150, 'bane_compressed_runs': 10, 'bane_products_judged': 20, 'bane_cli_runs': 5, 'bane_products_vs_returned_map': 20, 'bane_rectangular_grid_products_vs_returned_map': 12, 'bane_noncommensurate_grid_products_vs_returned_map': 8,
              'bane_pairs_through_load_globals': 2, 'tall_roundtrips': 60,
              'long_axis_gt_1024_factor_not_dividing_1024': 50, 'integer_pixel_roundtrips': 5000, 'integer_pixel_roundtrips_file': 300,
              'integer_linear_images_factor_not_power_of_2': 1500, 'cd_headers': 3000, 'cd_rotated': 1500, 'cd_skewed': 1500,
              'offdiagonal_cd_terms_compared': 5000,
              'noninteger_crpix': 3000, 'negative_cdelt2': 1000},
    'thorough': {'roundtrips': 40000, 'roundtrips_file': 4000, 'nodes_checked': 1000000,
                 'linear_cells_judged': 20000, 'residual_rows_and_cols': 10000, 'factor_gt_size': 2000,
                 'aux_loads': 400, 'integer_pixel_roundtrips': 15000, 'integer_pixel_roundtrips_file': 2000,
                 'integer_linear_images_factor_not_power_of_2': 5000, 'cd_headers': 8000, 'cd_rotated': 4000, 'cd_skewed': 4000,
                 'offdiagonal_cd_terms_compared': 15000, 'noninteger_crpix': 8000, 'negative_cdelt2': 3000,
                 'sr6_runs': 100, 'blank_roundtrips': 1000, 'blank_roundtrips_file': 200, 'blank_roundtrips_with_blank_samples': 500,
                 'blank_clean_nodes_checked': 50000, 'blank_clean_cells_judged': 25000, 'higher_axis_wcs_keywords_compared': 10000,
                 'file_spellings_judged': 400, 'file_spelling_Path': 160, 'file_spelling_fileobj': 80,
                 'file_spelling_bytes': 160, 'autoload_offers_checked': 12, 'cli_aux_route_autoload': 12,
                 'cli_aux_route_explicit': 12, 'crpix_special_values': 9000, 'crpix_equals_1_minus_factor': 1200,
                 'crpix_equals_1_minus_factor_axis1': 500, 'crpix_equals_1_minus_factor_axis2': 500, 'bane_compressed_runs': 32, 'bane_products_judged': 64, 'bane_cli_runs': 16,
                 'bane_products_vs_returned_map': 64, 'bane_rectangular_grid_products_vs_returned_map': 32,
                 'bane_noncommensurate_grid_products_vs_returned_map': 20,
                 'bane_pairs_through_load_globals': 8, 'tall_roundtrips': 300,
                 'long_axis_gt_1024_factor_not_dividing_1024': 250, 'long_axis_gt_4096': 40},
}

EPS32 = float(np.finfo(np.float32).eps)
KEY_TOL = 1e-9        # relative keyword tolerance (see ASSUMPTIONS)
SKY_TOL = 1e-9        # degrees
LIN_TOL_ULP = 4.0     # float32 ulp of the node range (DESIGN section 5)
BN_KEYS = ('BN_CFAC', 'BN_NPX1', 'BN_NPX2', 'BN_RPX1', 'BN_RPX2')
PROJS = ('SIN', 'TAN', 'ZEA', 'ARC', 'STG')


# ----------------------------------------------------------------------------- generators
def header_for(idx, rows, cols, rng, allow_rot=True, f=None):
    """a header whose form is chosen by the running index so that the exhaustive block covers every form"""
    proj = PROJS[idx % 5]
    use_cd = (idx // 5) % 2 == 1
    s1 = -1.0 if (idx // 10) % 2 == 0 else 1.0
    s2 = 1.0 if (idx // 20) % 3 != 2 else -1.0
    scale = 10 ** rng.uniform(-3.5, -1.9)           # <= 0.0126 deg/pixel: 400 pixels stay within ~7 deg
    scale = min(scale, 5.0 / max(rows, cols))       # tall/wide images: the long side spans <= 5 deg
    cd = (s1 * scale, s2 * scale * rng.uniform(0.8, 1.25))
    form = (idx // 7) % 4
    if form == 0:
        crpix = (float(cols // 2 + 1), float(rows // 2 + 1))
    elif form == 1:
        crpix = (round(rng.uniform(1, cols), 3), round(rng.uniform(1, rows), 3))
    elif form == 2:
        crpix = (rng.uniform(-50, cols + 50), rng.uniform(-50, rows + 50))        # full double mantissa
    else:
        crpix = (round(rng.uniform(-300, 300), 2), round(rng.uniform(-300, 300), 2))
    special = None
    if f is not None and (idx // 4) % 4 == 3:
        # a quarter of the headers: exact special reference pixels, chosen per axis - values whose compressed or restored
        # image is 0 or 1 (CRPIX = 1 - f compresses to exactly 0), far off the image, negative fractions
        sp = [1.0 - f, 0.0, -float(f), 2.0 - f, 1.0, 0.5, -0.5, -2.75, 1.0 - 2 * f, 1.0 - f, float(f), 1.0 + f]
        a, b = int(rng.integers(0, len(sp))), int(rng.integers(0, len(sp)))
        if (idx // 16) % 3 == 0:
            b = a if rng.random() < 0.5 else b
        crpix = (sp[a], sp[b])
        special = [crpix[0] == 1.0 - f, crpix[1] == 1.0 - f]
        form = 4
    crval = (rng.uniform(0, 360), rng.uniform(-75, 75))
    h = wz.make_header(proj, crval, crpix, cd, (rows, cols), beam=(scale * 4, scale * 3, 10.0), use_cd=use_cd)
    # CD form: one third rotation-free, one third rotated by any angle, one third slightly rotated and skewed
    rot = 'none'
    if use_cd and allow_rot:
        kind = (idx // 3) % 3
        if kind:
            if kind == 1:
                rot = 'rotated'
                th = np.radians(rng.choice([rng.uniform(0, 360), 90.0, 180.0, 45.0, 30.0, -0.01], p=[.75, .05, .05, .05, .05, .05]))
                e12 = e21 = 0.0
            else:
                rot = 'skewed'
                th = np.radians(rng.uniform(-3, 3))
                e12, e21 = rng.uniform(-0.2, 0.2, 2)
            c, s_ = np.cos(th), np.sin(th)
            h['CD1_1'] = float(cd[0] * c)
            h['CD1_2'] = float(-cd[1] * s_ * (1 + e12) + cd[1] * e12 * 0.01)
            h['CD2_1'] = float(cd[0] * s_ * (1 + e21) + cd[0] * e21 * 0.01)
            h['CD2_2'] = float(cd[1] * c)
            if abs(h['CD1_1']) < 1e-3 * scale or abs(h['CD2_2']) < 1e-3 * scale:
                # keep the diagonal terms away from 0 (relative keyword tolerances; BANE's pixel scale uses them)
                h['CD1_1'] = float(cd[0] * 0.05)
                h['CD2_2'] = float(cd[1] * 0.05)
    return h, {'proj': proj, 'cd': use_cd, 'cd_form': rot, 'crpix_form': form, 'crpix': [float(crpix[0]), float(crpix[1])],
               'crpix_is_1_minus_f': special, 'neg_cdelt2': s2 < 0,
               'nonint': any(float(c) != int(c) for c in crpix)}


def make_image(rows, cols, f, rng, linear=True, dtype=np.float32):
    """random image; bilinear between random nodes on the complete cells.  Returns img, (K, L)"""
    if np.issubdtype(np.dtype(dtype), np.integer):
        return make_int_image(rows, cols, f, rng, linear, dtype)
    amp = 10 ** rng.uniform(-3, 3)
    off = rng.choice([0.0, 3.0, -5.0, 100.0]) * amp          # 3 in 4 images do not contain the value 0 in their range
    img = (rng.uniform(-1, 1, (rows, cols)) * amp + off).astype(np.float32)
    K = (rows - 1) // f
    L = (cols - 1) // f
    if linear and K >= 1 and L >= 1:
        nodes = (rng.uniform(-1, 1, (K + 1, L + 1)) * amp + off).astype(np.float32).astype(np.float64)
        i = np.arange(K * f + 1)
        j = np.arange(L * f + 1)
        k = np.minimum(i // f, K - 1)
        l_ = np.minimum(j // f, L - 1)
        t = ((i - k * f) / float(f))[:, None]
        u = ((j - l_ * f) / float(f))[None, :]
        n00 = nodes[np.ix_(k, l_)]
        n10 = nodes[np.ix_(k + 1, l_)]
        n01 = nodes[np.ix_(k, l_ + 1)]
        n11 = nodes[np.ix_(k + 1, l_ + 1)]
        img[:K * f + 1, :L * f + 1] = ((1 - t) * (1 - u) * n00 + t * (1 - u) * n10 + (1 - t) * u * n01
                                       + t * u * n11).astype(np.float32)
    else:
        K = L = 0
    return img.astype(dtype), (K, L)


INT_MAXABS = {'int16': 30000, 'int32': 500000}     # 4 float32 ulp of the node range stay below 0.25 of a count


def make_int_image(rows, cols, f, rng, linear, dtype):
    """integer pixel type (BITPIX 16/32, no BSCALE/BZERO).  The node values are multiples of f*f, so the bilinear
    image between them is integer-valued everywhere: an exactly linear image that an integer array can hold.
    Everything is computed in integer arithmetic; all values stay below 2**24 (exact in float32)."""
    name = np.dtype(dtype).name
    mmax = INT_MAXABS[name] // (f * f)
    K = (rows - 1) // f
    L = (cols - 1) // f
    if mmax < 2:
        linear = False
        mmax = INT_MAXABS[name]
        unit = 1
    else:
        unit = f * f
    lo, hi = [(-mmax, mmax), (mmax // 3 + 1, mmax), (-mmax, -(mmax // 3) - 1), (mmax // 2, mmax)][int(rng.integers(0, 4))]
    img = rng.integers(lo, hi + 1, (rows, cols)).astype(np.int64) * unit
    if linear and K >= 1 and L >= 1:
        m = rng.integers(lo, hi + 1, (K + 1, L + 1)).astype(np.int64)
        i = np.arange(K * f + 1)
        j = np.arange(L * f + 1)
        k = np.minimum(i // f, K - 1)
        l_ = np.minimum(j // f, L - 1)
        a = (i - k * f)[:, None]
        b = (j - l_ * f)[None, :]
        img[:K * f + 1, :L * f + 1] = ((f - a) * (f - b) * m[np.ix_(k, l_)] + a * (f - b) * m[np.ix_(k + 1, l_)]
                                       + (f - a) * b * m[np.ix_(k, l_ + 1)] + a * b * m[np.ix_(k + 1, l_ + 1)])
    else:
        K = L = 0
    if np.abs(img).max() > np.iinfo(dtype).max or np.abs(img).max() >= 2 ** 24:
        raise RuntimeError('harness: integer test image out of range')
    return img.astype(dtype), (K, L)


_ROT_CHECKED = False


def selfcheck_rotated():
    """refs/wcs_zenithal.selfcheck() only uses diagonal matrices: cross-check the full CD matrix (rotation, skew)
    against astropy.wcs once per process.  A failure is an oracle fault (harness error), never a violation."""
    global _ROT_CHECKED
    if _ROT_CHECKED:
        return
    from astropy.wcs import WCS
    rng = np.random.default_rng(15)
    worst = 0.0
    for k in range(60):
        h, info = header_for(5 + 3 * (1 + k % 2) + 30 * k, 64, 48, rng)      # idx chosen to give CD + rotated/skewed
        if info['cd_form'] == 'none':
            continue
        w = WCS(h, naxis=2)
        z = wz.ZenithalWCS(h)
        p1, p2 = np.meshgrid(np.linspace(-10, 80, 5), np.linspace(-20, 90, 5))
        sky = w.wcs_pix2world(np.column_stack([p1.ravel(), p2.ravel()]), 1)
        ra, dec = z.pix2sky(p1.ravel(), p2.ravel())
        worst = max(worst, float(np.max(sphere.sep(sky[:, 0], sky[:, 1], ra, dec))))
        q1, q2 = z.sky2pix(ra, dec)
        worst = max(worst, float(np.max(np.hypot(q1 - p1.ravel(), q2 - p2.ravel()))) * abs(h['CD2_2']))
    if not worst < 1e-10:
        raise RuntimeError('oracle fault: ZenithalWCS with a rotated CD matrix disagrees with astropy.wcs by %g deg' % worst)
    _ROT_CHECKED = worst if worst > 0 else True
    if worst == 0.0:
        raise RuntimeError('oracle fault: rotated-CD self-check exercised no rotated header')


# ----------------------------------------------------------------------------- oracle for one round trip
def _tail():
    return traceback.format_exc()[-1200:]


def _keydiff(a, b):
    a = float(a)
    b = float(b)
    return abs(a - b) / max(1.0, abs(b))


def judge(o, wit, orig_img, orig_hdr, comp_data, exp_data, exp_hdr, f, KL, judged_linear=True, valid=None):
    """all clauses of the statement for one round trip; orig_img is what went in, exp_* what came out;
    valid = boolean mask of the pixels to judge (SR6 -m blanks the others on purpose)"""
    rows, cols = np.squeeze(orig_img).shape[-2:]
    orig2 = np.squeeze(orig_img)
    if exp_data is None:
        o.violate('returns_none', wit)
        return
    exp2 = np.squeeze(np.asarray(exp_data))
    # shape
    if exp2.shape != (rows, cols):
        o.violate('shape', dict(wit, expanded_shape=list(np.shape(exp_data))))
        return
    exp_rng = exp2
    if valid is not None:
        exp_rng = exp2[valid] if valid.any() else orig2.astype(np.float32)
        exp2 = np.where(valid, exp2, orig2.astype(np.float32))
    # BN keys
    left = [k for k in exp_hdr if str(k).startswith('BN_')]
    if left:
        o.violate('bn_keys', dict(wit, left=left))
    # WCS keywords: every one of them is compared.  CRPIX and the pixel-scale terms (CDELT or all four CD terms)
    # are recomputed by compress/expand, so they get the float tolerance; an off-diagonal term that is 0 in the
    # original is measured against the largest CD term
    cdform = 'CD1_1' in orig_hdr
    scaled = ['CRPIX1', 'CRPIX2'] + (['CD1_1', 'CD1_2', 'CD2_1', 'CD2_2'] if cdform else ['CDELT1', 'CDELT2'])
    cdmax = max(abs(float(orig_hdr[k])) for k in scaled[2:] if k in orig_hdr)
    for k in scaled:
        if k not in orig_hdr:
            if k in exp_hdr and float(exp_hdr[k]) != 0.0:
                o.violate('wcs_keys', dict(wit, key=k, restored=repr(exp_hdr[k]), original=None))
            continue
        if k not in exp_hdr:
            o.violate('wcs_keys', dict(wit, key=k, restored=None, original=orig_hdr[k]))
            continue
        a, b = float(exp_hdr[k]), float(orig_hdr[k])
        if k.startswith('CRPIX'):
            d = _keydiff(a, b)
        elif k in ('CD1_2', 'CD2_1'):
            d = abs(a - b) / (abs(b) if abs(b) > 1e-6 * cdmax else cdmax)
            if b != 0.0:
                o.count('offdiagonal_cd_terms_compared')
        else:
            d = abs(a - b) / abs(b)
        o.worst('wcs_key_restore_rel', d)
        if not d <= KEY_TOL:
            o.violate('wcs_keys', dict(wit, key=k, restored=repr(exp_hdr[k]), original=repr(orig_hdr[k])))
    untouched = ['CRVAL1', 'CRVAL2', 'CTYPE1', 'CTYPE2', 'CUNIT1', 'CUNIT2', 'EQUINOX', 'RADESYS', 'LONPOLE', 'LATPOLE',
                 'CROTA2', 'BMAJ', 'BMIN', 'BPA'] + [k for k in orig_hdr if str(k).startswith(('PC', 'PV'))]
    # the degenerate frequency / stokes axes of 3-D and 4-D inputs: their WCS keywords belong to "the WCS keywords"
    higher = [k for k in orig_hdr if len(str(k)) == 6 and str(k)[:5] in ('CRPIX', 'CDELT', 'CRVAL', 'CTYPE', 'CUNIT')
              and str(k)[5] in '345']
    if higher:
        o.count('higher_axis_wcs_keywords_compared', len(higher))
    untouched += higher
    for k in untouched:
        if k in orig_hdr and (k not in exp_hdr or exp_hdr[k] != orig_hdr[k]):
            o.violate('wcs_keys_untouched', dict(wit, key=k, restored=repr(exp_hdr.get(k)), original=repr(orig_hdr[k])))
    for k in exp_hdr:            # no celestial WCS keyword may appear that the original did not have
        if str(k).startswith(('CD1_', 'CD2_', 'CDELT1', 'CDELT2', 'PC1_', 'PC2_', 'CROTA')) and k not in orig_hdr \
                and float(exp_hdr[k]) != 0.0:
            o.violate('wcs_keys', dict(wit, key=k, restored=repr(exp_hdr[k]), original=None))
    if ('CD1_1' in orig_hdr) != ('CD1_1' in exp_hdr) or ('CDELT1' in orig_hdr) != ('CDELT1' in exp_hdr):
        o.violate('wcs_keys', dict(wit, key='CD/CDELT form changed'))
    try:
        zo = wz.ZenithalWCS(orig_hdr)
        ze = wz.ZenithalWCS(exp_hdr)
    except (KeyError, ValueError):
        ze = None
    if ze is not None:
        ii = np.array([0, 0, rows - 1, rows - 1, (rows - 1) / 2.0])
        jj = np.array([0, cols - 1, 0, cols - 1, (cols - 1) / 2.0])
        ra0, de0 = zo.index2sky(ii, jj)
        ra1, de1 = ze.index2sky(ii, jj)
        d = sphere.sep(ra0, de0, ra1, de1)
        if np.all(np.isfinite(d)):
            o.count('wcs_sky_judged')
            o.worst('wcs_sky_restore_deg', np.max(d))
            if not np.max(d) <= SKY_TOL:
                o.violate('wcs_sky', dict(wit, worst_deg=float(np.max(d))))
        else:
            o.count('wcs_sky_undetermined')
    # nodes
    want = orig2[::f, ::f].astype(np.float32)
    got = exp2[::f, ::f]
    o.count('nodes_checked', want.size)
    bad = np.argwhere(~(got == want))
    if len(bad):
        b = bad[0]
        o.violate('nodes', dict(wit, n_bad=int(len(bad)), node=[int(b[0] * f), int(b[1] * f)],
                                expanded=float(got[tuple(b)]), original=float(want[tuple(b)])))
    # range
    if comp_data is not None:
        lo, hi = float(np.min(comp_data)), float(np.max(comp_data))
        ulp = EPS32 * max(abs(lo), abs(hi), 1e-30)
        exc = max(lo - float(np.min(exp_rng)), float(np.max(exp_rng)) - hi) / ulp
        o.worst('range_excess_ulp32', max(exc, 0.0))
        o.count('range_checked')
        if not exc <= 1.0:
            o.violate('range', dict(wit, compressed=[lo, hi], expanded=[float(np.min(exp_rng)), float(np.max(exp_rng))]))
    # range of the image itself: the compressed samples are samples of the image (decimation), so the clause above
    # implies that no expanded value leaves [min, max] of the original; this sees a compressed array that carries
    # values which are not image samples (e.g. a last row/column that was never copied)
    lo_i, hi_i = float(np.min(orig2.astype(np.float32))), float(np.max(orig2.astype(np.float32)))
    ulp = EPS32 * max(abs(lo_i), abs(hi_i), 1e-30)
    exc = max(lo_i - float(np.min(exp_rng)), float(np.max(exp_rng)) - hi_i) / ulp
    o.worst('range_of_image_excess_ulp32', max(exc, 0.0))
    if not exc <= 1.0:
        o.violate('range_of_image', dict(wit, image=[lo_i, hi_i], expanded=[float(np.min(exp2)), float(np.max(exp2))]))
    # linear on complete cells
    K, L = KL
    if judged_linear and K >= 1 and L >= 1:
        reg_o = orig2[:K * f + 1, :L * f + 1].astype(np.float32).astype(np.float64)
        reg_e = exp2[:K * f + 1, :L * f + 1].astype(np.float64)
        M = float(np.max(np.abs(orig2[::f, ::f][:K + 1, :L + 1])))
        err = float(np.max(np.abs(reg_e - reg_o))) / (EPS32 * max(M, 1e-30))
        o.worst('linear_err_ulp32_of_node_range', err)
        o.count('linear_cells_judged', K * L)
        if not err <= LIN_TOL_ULP:
            w = np.unravel_index(np.argmax(np.abs(reg_e - reg_o)), reg_o.shape)
            o.violate('linear', dict(wit, err_ulp=err, pixel=[int(w[0]), int(w[1])],
                                     expanded=float(reg_e[w]), original=float(reg_o[w]), complete_cells=[K, L]))


def _compressed_wcs_info(o, orig_hdr, comp_hdr, rows, cols, f):
    """not judged (the statement speaks of the restored header): node k of the compressed grid vs pixel k*f"""
    try:
        zo = wz.ZenithalWCS(orig_hdr)
        zc = wz.ZenithalWCS(comp_hdr)
    except (KeyError, ValueError):
        return
    k = np.array([0, (rows - 1) // f])
    l_ = np.array([0, (cols - 1) // f])
    a0, d0 = zo.index2sky(k * f, l_ * f)
    a1, d1 = zc.index2sky(k, l_)
    d = sphere.sep(a0, d0, a1, d1)
    if np.all(np.isfinite(d)):
        o.worst('info_compressed_header_node_offset_deg', np.max(d))


def roundtrip(ft, fits, o, rng, rows, cols, f, idx, mode, tmp, linear=True, dtype=np.float32, extra_axes=0):
    """mode: 'mem' (HDUList in, HDUList out) or 'file' (file names in, outfile written and re-read)"""
    hdr, hinfo = header_for(idx, rows, cols, rng, f=f)
    img, KL = make_image(rows, cols, f, rng, linear=linear, dtype=dtype)
    data_in = img.reshape((1,) * extra_axes + img.shape)
    if extra_axes > 1:
        hdr['CTYPE4'], hdr['CRPIX4'], hdr['CRVAL4'], hdr['CDELT4'] = 'STOKES', 1.0, 1.0, 1.0
    if extra_axes:
        hdr['CUNIT3'] = 'Hz'
        hdr['CTYPE3'] = 'FREQ'
        hdr['CRPIX3'] = 1.0
        hdr['CRVAL3'] = 1.4e9
        hdr['CDELT3'] = 1e6
    wit = {'rows': rows, 'cols': cols, 'factor': f, 'mode': mode, 'header': hinfo, 'dtype': str(np.dtype(dtype)),
           'extra_axes': extra_axes, 'linear_image': bool(linear)}
    hdu = fits.PrimaryHDU(data_in.copy(), header=hdr.copy())
    hl = fits.HDUList([hdu])
    opened = []
    try:
        if mode == 'file':
            p0 = os.path.join(tmp, 'o.fits')
            pc = os.path.join(tmp, 'c.fits')
            pe = os.path.join(tmp, 'e.fits')
            for p in (pc, pe):
                if os.path.exists(p):
                    os.remove(p)
            hl.writeto(p0, overwrite=True)
            orig_hdr = fits.getheader(p0)
            try:
                c = ft.compress(p0, f, outfile=pc)
            except Exception:
                o.violate('raises', dict(wit, stage='compress', exc=_tail()))
                return
            if c is None or not os.path.exists(pc):
                o.violate('returns_none', dict(wit, stage='compress'))
                return
            opened.append(c)
            comp_data = fits.getdata(pc)
            comp_hdr = fits.getheader(pc)
            try:
                e = ft.expand(pc, outfile=pe)
            except Exception:
                o.violate('raises', dict(wit, stage='expand', exc=_tail()))
                return
            if e is None or not os.path.exists(pe):
                o.violate('returns_none', dict(wit, stage='expand'))
                return
            opened.append(e)
            exp_data = fits.getdata(pe)
            exp_hdr = fits.getheader(pe)
            # what the call returned must be what it wrote
            if not np.array_equal(np.asarray(e[0].data), exp_data, equal_nan=True):
                o.violate('file_vs_returned', dict(wit))
            o.count('roundtrips_file')
        else:
            orig_hdr = hl[0].header.copy()
            try:
                c = ft.compress(hl, f)
            except Exception:
                o.violate('raises', dict(wit, stage='compress', exc=_tail()))
                return
            if c is None:
                o.violate('returns_none', dict(wit, stage='compress'))
                return
            comp_data = np.array(c[0].data)
            comp_hdr = c[0].header.copy()
            try:
                e = ft.expand(c)
            except Exception:
                o.violate('raises', dict(wit, stage='expand', exc=_tail()))
                return
            if e is None:
                o.violate('returns_none', dict(wit, stage='expand'))
                return
            exp_data = np.asarray(e[0].data)
            exp_hdr = e[0].header
            o.count('roundtrips_mem')
        judge(o, wit, img, orig_hdr, comp_data, exp_data, exp_hdr, f, KL, judged_linear=linear)
        if hinfo['cd_form'] == 'none':     # for rotated inputs the compressed file's own WCS is outside the statement
            _compressed_wcs_info(o, orig_hdr, comp_hdr, rows, cols, f)
        o.count('roundtrips')
        o.n_eval += 1
        if f > 1:
            o.n_nontrivial += 1
        if rows % f and cols % f:
            o.count('residual_rows_and_cols')
        elif rows % f or cols % f:
            o.count('residual_one_axis')
        else:
            o.count('no_residual')
        if rows % f != cols % f:
            o.count('residuals_differ')
        if f > rows or f > cols:
            o.count('factor_gt_size')
        if f == 1:
            o.count('factor_1')
        if hinfo['cd']:
            o.count('cd_headers')
        if hinfo['cd_form'] != 'none':
            o.count('cd_' + hinfo['cd_form'])
            o.count('cd_offdiagonal_headers')
        if hinfo['nonint']:
            o.count('noninteger_crpix')
        if hinfo['crpix_form'] == 4:
            o.count('crpix_special_values')
            if f > 1 and any(hinfo['crpix_is_1_minus_f']):
                o.count('crpix_equals_1_minus_factor')
                o.count('crpix_equals_1_minus_factor_axis1', int(hinfo['crpix_is_1_minus_f'][0]))
                o.count('crpix_equals_1_minus_factor_axis2', int(hinfo['crpix_is_1_minus_f'][1]))
        if hinfo['neg_cdelt2']:
            o.count('negative_cdelt2')
        if extra_axes:
            o.count('degenerate_axes')
        if np.issubdtype(np.dtype(dtype), np.integer):
            o.count('integer_pixel_roundtrips')
            o.count('integer_pixel_roundtrips_' + mode)
            if KL[0] >= 1 and KL[1] >= 1 and f & (f - 1):
                o.count('integer_linear_images_factor_not_power_of_2')
            o.see('integer_pixel_type', np.dtype(dtype).name)
        if np.dtype(dtype) == np.float64:
            o.count('float64_input')
        o.see('projection', hinfo['proj'])
        if f <= 6:
            o.see('(f, rows mod f, cols mod f) for f<=6', '%d,%d,%d' % (f, rows % f, cols % f))
    finally:
        for h in opened:
            try:
                h.close()
            except Exception:
                pass


# ----------------------------------------------------------------------------- aux acceptance
def aux_case(o, rng, rows, cols, f, idx, tmp):
    from astropy.io import fits
    from AegeanTools import fits_tools as ft
    from AegeanTools.source_finder import SourceFinder
    hdr, hinfo = header_for(idx, rows, cols, rng, f=f)
    wit = {'rows': rows, 'cols': cols, 'factor': f, 'header': hinfo, 'kind': 'aux'}
    img = rng.normal(0, 1, (rows, cols)).astype(np.float32)
    bkg, _ = make_image(rows, cols, f, rng)
    rms, _ = make_image(rows, cols, f, rng)
    rms = np.abs(rms) + np.float32(0.1)
    pi, pb, pr = (os.path.join(tmp, n) for n in ('img.fits', 'bkg.fits', 'rms.fits'))
    pbc, prc = (os.path.join(tmp, n) for n in ('bkgc.fits', 'rmsc.fits'))
    for p, d in ((pi, img), (pb, bkg), (pr, rms)):
        fits.PrimaryHDU(d, header=hdr.copy()).writeto(p, overwrite=True)
    for src, dst in ((pb, pbc), (pr, prc)):
        try:
            c = ft.compress(src, f, outfile=dst)
        except Exception:
            o.violate('raises', dict(wit, stage='compress', exc=_tail()))
            return
        if c is None:
            o.violate('returns_none', dict(wit, stage='compress'))
            return
        c.close()
    # reference: what expand() makes of the compressed files
    ref = {}
    for p in (pbc, prc):
        with fits.open(p) as hl:
            e = ft.expand(hl)
            ref[p] = np.array(e[0].data)
    # 1. load_image_band
    for p in (pbc, prc):
        try:
            d, h = ft.load_image_band(p)
        except Exception:
            o.violate('aux_rejected', dict(wit, by='load_image_band', exc=_tail()))
            continue
        o.count('aux_loads')
        o.n_eval += 1
        o.n_nontrivial += int(f > 1)
        if np.shape(d) != (rows, cols):
            o.violate('aux_shape', dict(wit, by='load_image_band', got=list(np.shape(d))))
        elif not np.array_equal(d, ref[p]):
            o.violate('aux_values', dict(wit, by='load_image_band'))
    # 2. SourceFinder._load_aux_image and load_globals: uncompressed accepted => compressed accepted, same shape
    for use in ('_load_aux_image', 'load_globals'):
        got = {}
        for label, fb, fr in (('plain', pb, pr), ('compressed', pbc, prc)):
            sf = SourceFinder()
            try:
                if use == '_load_aux_image':
                    got[label] = (np.array(sf._load_aux_image(img, fb)), np.array(sf._load_aux_image(img, fr)))
                else:
                    sf.load_globals(pi, bkgin=fb, rmsin=fr, do_curve=False, cores=1)
                    got[label] = (np.array(sf.global_data.bkgimg), np.array(sf.global_data.rmsimg),
                                  np.shape(sf.global_data.img))
            except Exception:
                got[label] = _tail()
        if isinstance(got['plain'], str):
            o.count('aux_baseline_rejected')         # the uncompressed file is not accepted either: not judged
            o.see('aux_baseline_exception', got['plain'].strip().splitlines()[-1][:120])
            continue
        o.count('aux_loads')
        o.count('aux_' + use)
        o.n_eval += 1
        o.n_nontrivial += int(f > 1)
        if isinstance(got['compressed'], str):
            o.violate('aux_rejected', dict(wit, by=use, exc=got['compressed']))
            continue
        gb, gr = got['compressed'][:2]
        if gb.shape != (rows, cols) or gr.shape != (rows, cols):
            o.violate('aux_shape', dict(wit, by=use, got=[list(gb.shape), list(gr.shape)]))
        elif not (np.array_equal(gb, ref[pbc]) and np.array_equal(gr, ref[prc])):
            o.violate('aux_values', dict(wit, by=use))
        if use == 'load_globals' and tuple(got['compressed'][2]) != (rows, cols):
            o.violate('aux_shape', dict(wit, by='load_globals image', got=list(got['compressed'][2])))
    o.sample = dict(wit, note='compressed bkg/rms accepted by load_image_band, _load_aux_image, load_globals')


# ----------------------------------------------------------------------------- blanked regions (NaN / inf) in the map
PATTERNS = ('corner_ur', 'corner_ul', 'corner_lr', 'corner_ll', 'central', 'single_node', 'single_pixel', 'node_row',
            'row', 'node_col', 'col', 'two_blocks')


def blank_case(o, ft, fits, rng, rows, cols, f, idx, mode, tmp, pattern):
    """a map that is bilinear between its nodes with a blanked region (NaN, sometimes inf): every finite node that is not
    next to a non-finite sample must come back exactly, and every complete cell that is at least one cell away from any
    non-finite sample must be reproduced (the statement's node / complete-cell clauses on the finite part of the map;
    the interpolation weights 0 * NaN spoil the cells that touch a blank sample, which are outside the judged domain)"""
    from numpy.lib.stride_tricks import sliding_window_view
    hdr, hinfo = header_for(idx, rows, cols, rng, f=f)
    img, (K, L) = make_image(rows, cols, f, rng, linear=True)
    clean_img = img.copy()
    bad = np.zeros((rows, cols), dtype=bool)
    r1, r2 = sorted(int(x) for x in rng.integers(rows // 3, 2 * rows // 3 + 1, 2))
    c1, c2 = sorted(int(x) for x in rng.integers(cols // 3, 2 * cols // 3 + 1, 2))
    br, bc = max(1, int(rng.integers(1, rows // 4 + 2))), max(1, int(rng.integers(1, cols // 4 + 2)))
    if pattern == 'corner_ur':
        bad[rows - br:, cols - bc:] = True
    elif pattern == 'corner_ul':
        bad[rows - br:, :bc] = True
    elif pattern == 'corner_lr':
        bad[:br, cols - bc:] = True
    elif pattern == 'corner_ll':
        bad[:br, :bc] = True
    elif pattern == 'central':
        bad[r1:r2 + 1, c1:c2 + 1] = True
    elif pattern == 'single_node':
        bad[(r1 // f) * f, (c1 // f) * f] = True
    elif pattern == 'single_pixel':
        bad[r1, c1] = True
    elif pattern == 'node_row':
        bad[(r1 // f) * f, :] = True
    elif pattern == 'row':
        bad[r1, :] = True
    elif pattern == 'node_col':
        bad[:, (c1 // f) * f] = True
    elif pattern == 'col':
        bad[:, c1] = True
    elif pattern == 'two_blocks':
        bad[rows - br:, cols - bc:] = True
        bad[r1:r1 + 2, c1:c1 + 2] = True
    else:
        raise ValueError(pattern)
    blank = np.inf if rng.random() < 0.15 else np.nan
    img[bad] = blank
    wit = {'rows': rows, 'cols': cols, 'factor': f, 'mode': mode, 'pattern': pattern, 'blank_value': repr(float(blank)),
           'blank_pixels': int(bad.sum()), 'header': hinfo}
    hl = fits.HDUList([fits.PrimaryHDU(img.copy(), header=hdr.copy())])
    opened = []
    try:
        try:
            if mode == 'file':
                p0, pc = os.path.join(tmp, 'bl.fits'), os.path.join(tmp, 'blc.fits')
                hl.writeto(p0, overwrite=True)
                c = ft.compress(p0, f, outfile=pc)
                if c is not None:
                    opened.append(c)
                e = ft.expand(pc) if c is not None else None
            else:
                c = ft.compress(hl, f)
                e = ft.expand(c) if c is not None else None
        except Exception:
            o.violate('raises', dict(wit, stage='compress/expand of a map with a blanked region', exc=_tail()))
            return
        if e is None:
            o.violate('returns_none', dict(wit, stage='compress/expand'))
            return
        if mode == 'file':
            opened.append(e)
        exp = np.squeeze(np.asarray(e[0].data))
    finally:
        for h_ in opened:
            try:
                h_.close()
            except Exception:
                pass
    o.count('blank_roundtrips')
    o.count('blank_roundtrips_' + mode)
    o.see('blank_pattern', pattern)
    o.n_eval += 1
    o.n_nontrivial += 1
    if exp.shape != (rows, cols):
        o.violate('shape', dict(wit, expanded_shape=list(exp.shape)))
        return
    # the samples the compression keeps, on the extended node grid: nodes 0..K (0..L) and the copy of the last row / column
    fin = np.isfinite(img)
    ext = np.ones((K + 2, L + 2), dtype=bool)
    ext[:K + 1, :L + 1] = fin[::f, ::f][:K + 1, :L + 1]
    ext[K + 1, :L + 1] = fin[-1, ::f][:L + 1]
    ext[:K + 1, L + 1] = fin[::f, -1][:K + 1]
    ext[K + 1, L + 1] = fin[-1, -1]
    pad = np.pad(ext, 1, constant_values=True)
    clean_node = sliding_window_view(pad, (3, 3)).all(axis=(2, 3))[:K + 1, :L + 1]      # 3x3 neighbourhood finite
    want = clean_img[::f, ::f][:K + 1, :L + 1].astype(np.float32)
    got = exp[::f, ::f][:K + 1, :L + 1]
    o.count('blank_clean_nodes_checked', int(clean_node.sum()))
    o.count('blank_nodes_next_to_a_blank_not_judged', int((~clean_node).sum()))
    badn = np.argwhere(clean_node & ~(got == want))
    if len(badn):
        b = badn[0]
        nb = np.argwhere(~ext)
        dist = float(np.min(np.max(np.abs(nb - b), axis=1))) if len(nb) else None
        o.violate('nodes', dict(wit, n_bad=int(len(badn)), node=[int(b[0] * f), int(b[1] * f)], expanded=float(got[tuple(b)]),
                                original=float(want[tuple(b)]), nodes_to_nearest_blank_sample=dist,
                                what='a finite node not adjacent to any non-finite sample'))
    # complete cells at least one cell away from every non-finite sample
    if K >= 1 and L >= 1:
        pad2 = np.pad(ext, ((1, 1), (1, 1)), constant_values=True)
        cell_ok = sliding_window_view(pad2, (4, 4)).all(axis=(2, 3))[:K, :L]        # nodes k-1..k+2, l-1..l+2
        o.count('blank_clean_cells_judged', int(cell_ok.sum()))
        if cell_ok.any():
            pix = np.zeros((K * f + 1, L * f + 1), dtype=bool)
            kk, ll = np.nonzero(cell_ok)
            for k_, l_ in zip(kk, ll):
                pix[k_ * f:(k_ + 1) * f + 1, l_ * f:(l_ + 1) * f + 1] = True
            pix &= ~bad[:K * f + 1, :L * f + 1]                 # blanked non-sample pixels of the input are simply lost
            M = float(np.max(np.abs(clean_img[::f, ::f][:K + 1, :L + 1])))
            reg_e = exp[:K * f + 1, :L * f + 1].astype(np.float64)
            reg_o = clean_img[:K * f + 1, :L * f + 1].astype(np.float64)
            with np.errstate(invalid='ignore'):
                err = np.abs(reg_e - reg_o) / (EPS32 * max(M, 1e-30))
            err = np.where(np.isfinite(reg_e), err, np.inf)
            worst = float(np.max(err[pix])) if pix.any() else 0.0
            o.worst('blank_linear_err_ulp32_of_node_range', worst if np.isfinite(worst) else 1e30)
            if not worst <= LIN_TOL_ULP:
                w = np.argwhere(pix & ~(err <= LIN_TOL_ULP))[0]
                o.violate('linear', dict(wit, pixel=[int(w[0]), int(w[1])], expanded=float(reg_e[tuple(w)]),
                                         original=float(reg_o[tuple(w)]), n_bad=int((pix & ~(err <= LIN_TOL_ULP)).sum()),
                                         what='a complete cell at least one cell away from every non-finite sample'))
            far = np.argwhere(~ext)
            if len(far):
                o.count('blank_roundtrips_with_blank_samples')


# ----------------------------------------------------------------------------- spellings of "a file"
def _spell(kind, path, fits, opened):
    import pathlib
    if kind == 'str':
        return path
    if kind == 'Path':
        return pathlib.Path(path)
    if kind == 'bytes':
        return os.fsencode(path)
    if kind == 'fileobj':
        fo = open(path, 'rb')
        opened.append(fo)
        return fo
    if kind == 'BytesIO':
        import io
        with open(path, 'rb') as fh:
            return io.BytesIO(fh.read())
    raise ValueError(kind)


# what the statement's "file input" is taken to be (all of these are accepted by the code as it stands and by astropy):
JUDGED_SPELLINGS = {'compress': ('str', 'Path', 'bytes', 'fileobj'), 'expand': ('str', 'Path', 'bytes', 'fileobj'),
                    'load_image_band': ('str', 'Path', 'bytes'), 'load_globals': ('str', 'Path', 'bytes')}
RECORDED_SPELLINGS = {'compress': ('BytesIO',), 'expand': ('BytesIO',), 'load_image_band': ('fileobj',), 'load_globals': ()}


def spelling_case(o, rng, rows, cols, f, idx, tmp):
    """the same file named as str, pathlib.Path, bytes path and open binary file object: compress, expand, load_image_band
    (compressed file, whole and band (1,2)) and load_globals(bkgin=, rmsin=) must accept it and give what the str name
    gives"""
    from astropy.io import fits
    from AegeanTools import fits_tools as ft
    from AegeanTools.source_finder import SourceFinder
    hdr, hinfo = header_for(idx, rows, cols, rng, f=f)
    img, _ = make_image(rows, cols, f, rng)
    p0, pc = os.path.join(tmp, 'sp.fits'), os.path.join(tmp, 'spc.fits')
    fits.PrimaryHDU(img, header=hdr.copy()).writeto(p0, overwrite=True)
    c = ft.compress(p0, f, outfile=pc)
    if c is None:
        o.violate('returns_none', {'stage': 'compress(str)', 'rows': rows, 'cols': cols, 'factor': f})
        return
    c.close()
    wit = {'rows': rows, 'cols': cols, 'factor': f, 'header': hinfo}
    opened = []

    def outcome(op, kind):
        """('ok', arrays...) or ('raises', text)"""
        try:
            if op == 'compress':
                out = os.path.join(tmp, 'spo.fits')
                r = ft.compress(_spell(kind, p0, fits, opened), f, outfile=out)
                res = ('ok', np.array(r[0].data), float(r[0].header['CRPIX2']), np.array(fits.getdata(out)))
                opened.append(r)
                return res
            if op == 'expand':
                r = ft.expand(_spell(kind, pc, fits, opened))
                res = ('ok', np.array(r[0].data), float(r[0].header['CRPIX2']))
                opened.append(r)
                return res
            if op == 'load_image_band':
                d, h = ft.load_image_band(_spell(kind, pc, fits, opened))
                d2, h2 = ft.load_image_band(_spell(kind, pc, fits, opened), band=(1, 2))
                return ('ok', np.array(d), float(h['CRPIX2']), np.array(d2), float(h2['CRPIX2']))
            if op == 'load_globals':
                sf = SourceFinder()
                sf.load_globals(p0, bkgin=_spell(kind, pc, fits, opened), rmsin=_spell(kind, pc, fits, opened),
                                do_curve=False, cores=1)
                return ('ok', np.array(sf.global_data.bkgimg), np.array(sf.global_data.rmsimg))
        except Exception:
            return ('raises', _tail())
        raise ValueError(op)

    def same(a, b):
        return len(a) == len(b) and all(np.array_equal(x, y, equal_nan=True) if isinstance(x, np.ndarray) else x == y
                                        for x, y in zip(a[1:], b[1:]))

    try:
        for op in ('compress', 'expand', 'load_image_band', 'load_globals'):
            ref = outcome(op, 'str')
            if ref[0] != 'ok':
                if op == 'load_globals':
                    o.count('aux_baseline_rejected')
                    continue
                o.violate('raises', dict(wit, stage=op + '(str file name)', exc=ref[1]))
                continue
            for kind in JUDGED_SPELLINGS[op]:
                if kind == 'str':
                    continue
                got = outcome(op, kind)
                o.count('file_spellings_judged')
                o.count('file_spelling_' + kind)
                o.n_eval += 1
                o.n_nontrivial += int(f > 1)
                if got[0] != 'ok':
                    o.violate('file_spelling_rejected', dict(wit, operation=op, spelling=kind, exc=got[1]))
                elif not same(ref, got):
                    o.violate('file_spelling_differs', dict(wit, operation=op, spelling=kind))
            for kind in RECORDED_SPELLINGS[op]:
                got = outcome(op, kind)
                o.see('info_other_file_spelling', '%s(%s) -> %s' % (op, kind, got[0]))
    finally:
        for h_ in opened:
            try:
                h_.close()
            except Exception:
                pass
    o.sample = dict(wit, spellings=JUDGED_SPELLINGS)


# ----------------------------------------------------------------------------- every route by which Aegean takes aux files
def autoload_case(o, rng, rows, cols, f, idx, tmp):
    """<image>_bkg.fits / <image>_rms.fits next to the image, once uncompressed and once compressed (identical content
    after expansion): get_aux_files must offer the same files, and the aegean command line with --autoload and with
    --background/--noise must load the same background/noise arrays and find the same number of sources.  The noise map
    is ~1000 times the true noise, so a run that uses it finds nothing while a run that silently falls back to its own
    estimate finds the injected sources."""
    import logging
    from astropy.io import fits
    from AegeanTools import fits_tools as ft, source_finder
    from AegeanTools.CLI import aegean as cli
    hdr, hinfo = header_for(idx, rows, cols, rng, allow_rot=False, f=f)
    hdr['CTYPE1'], hdr['CTYPE2'] = 'RA---SIN', 'DEC--SIN'
    hdr['BMAJ'], hdr['BMIN'], hdr['BPA'] = abs(hdr.get('CDELT2') or hdr.get('CD2_2')) * 3.5, \
        abs(hdr.get('CDELT2') or hdr.get('CD2_2')) * 3.0, 0.0
    wit = {'rows': rows, 'cols': cols, 'factor': f, 'header': hinfo}
    yy, xx = np.mgrid[0:rows, 0:cols]
    img = rng.normal(0, 1, (rows, cols))
    for k in range(4):
        y0, x0 = rng.uniform(12, rows - 12), rng.uniform(12, cols - 12)
        img += 60.0 * np.exp(-((yy - y0) ** 2 + (xx - x0) ** 2) / (2 * 1.4 ** 2))
    img = img.astype(np.float32)
    bkg, _ = make_image(rows, cols, f, rng)
    bkg = (bkg / max(float(np.max(np.abs(bkg))), 1e-30) * 0.2).astype(np.float32)
    rms, _ = make_image(rows, cols, f, rng)
    rms = (1000.0 + 100.0 * rms / max(float(np.max(np.abs(rms))), 1e-30)).astype(np.float32)
    dirs = {}
    for label in ('plain', 'compressed'):
        d = os.path.join(tmp, label)
        os.makedirs(d, exist_ok=True)
        dirs[label] = d
        fits.PrimaryHDU(img, header=hdr.copy()).writeto(os.path.join(d, 'field.fits'), overwrite=True)
    for name, arr in (('bkg', bkg), ('rms', rms)):
        pc = os.path.join(dirs['compressed'], 'field_%s.fits' % name)
        c = ft.compress(fits.HDUList([fits.PrimaryHDU(arr.copy(), header=hdr.copy())]), f, outfile=pc)
        if c is None:
            o.violate('returns_none', dict(wit, stage='compress'))
            return
        with fits.open(pc) as hl:                       # the uncompressed twin holds exactly the expanded map
            e = ft.expand(hl)
            fits.PrimaryHDU(np.array(e[0].data), header=hdr.copy()).writeto(
                os.path.join(dirs['plain'], 'field_%s.fits' % name), overwrite=True)
    # route 1: what --autoload is offered
    offered = {}
    for label in ('plain', 'compressed'):
        try:
            files = source_finder.get_aux_files(os.path.join(dirs[label], 'field.fits'))
        except Exception:
            o.violate('raises', dict(wit, stage='get_aux_files (%s)' % label, exc=_tail()))
            return
        offered[label] = {k: (files.get(k) is not None) for k in ('bkg', 'rms')}
    o.count('autoload_offers_checked')
    o.n_eval += 1
    o.n_nontrivial += 1
    if offered['plain'] != {'bkg': True, 'rms': True}:
        o.count('aux_baseline_rejected')
    elif offered['compressed'] != offered['plain']:
        o.violate('aux_rejected', dict(wit, by='get_aux_files (--autoload)', offered=offered))
    # routes 2, 3: the command line, with the arrays load_globals ends up with captured
    captured = []
    orig = source_finder.SourceFinder.load_globals

    def spy(self, *a, **kw):
        r = orig(self, *a, **kw)
        captured.append((kw.get('bkgin'), kw.get('rmsin'), np.array(self.global_data.bkgimg), np.array(self.global_data.rmsimg)))
        return r
    root = logging.getLogger()
    alog = logging.getLogger('Aegean')
    state = (root.level, list(root.handlers), alog.level)
    results = {}
    source_finder.SourceFinder.load_globals = spy
    try:
        for route in ('autoload', 'explicit'):
            for label in ('plain', 'compressed'):
                imgp = os.path.join(dirs[label], 'field.fits')
                argv = [imgp, '--cores', '1', '--table', os.path.join(dirs[label], 'out_%s.csv' % route)]
                if route == 'autoload':
                    argv.append('--autoload')
                else:
                    argv += ['--background', os.path.join(dirs[label], 'field_bkg.fits'),
                             '--noise', os.path.join(dirs[label], 'field_rms.fits')]
                del captured[:]
                try:
                    with np.errstate():
                        rc = cli.main(argv)
                except BaseException as e:
                    if isinstance(e, KeyboardInterrupt):
                        raise
                    results[(route, label)] = ('raises', _tail())
                    continue
                nsrc = 0
                tab = os.path.join(dirs[label], 'out_%s_comp.csv' % route)
                if os.path.exists(tab):
                    with open(tab) as fh:
                        nsrc = max(0, sum(1 for _ in fh) - 1)
                    os.remove(tab)
                results[(route, label)] = ('ok', rc, captured[-1][2] if captured else None,
                                           captured[-1][3] if captured else None, nsrc)
    finally:
        source_finder.SourceFinder.load_globals = orig
        root.setLevel(state[0])
        for h_ in list(root.handlers):
            if h_ not in state[1]:
                root.removeHandler(h_)
        alog.setLevel(state[2])
    for route in ('autoload', 'explicit'):
        a, b = results.get((route, 'plain')), results.get((route, 'compressed'))
        if a is None or a[0] != 'ok' or a[1] != 0 or a[2] is None:
            o.count('aux_baseline_rejected')
            o.see('aux_baseline_exception', str(a)[-160:])
            continue
        o.count('aux_loads')
        o.count('cli_aux_routes_checked')
        o.count('cli_aux_route_' + route)
        o.n_eval += 1
        o.see('sources_found_with_the_supplied_noise_map', a[4])
        w = dict(wit, route='aegean --' + ('autoload' if route == 'autoload' else 'background/--noise'))
        if b is None or b[0] != 'ok' or b[1] != 0:
            o.violate('aux_rejected', dict(w, outcome=str(b)[-600:]))
        elif b[2] is None or b[2].shape != a[2].shape or b[3].shape != a[3].shape:
            o.violate('aux_shape', dict(w, got=None if b[2] is None else [list(b[2].shape), list(b[3].shape)]))
        elif not (np.array_equal(a[2], b[2], equal_nan=True) and np.array_equal(a[3], b[3], equal_nan=True)):
            o.violate('aux_values', dict(w, what='background/noise arrays in use differ between the uncompressed and the '
                                                 'compressed files', rms_median=[float(np.nanmedian(a[3])), float(np.nanmedian(b[3]))],
                                         sources=[a[4], b[4]]))
        elif a[4] != b[4]:
            o.violate('aux_values', dict(w, what='number of sources found differs', sources=[a[4], b[4]]))
    o.sample = dict(wit, offered=offered)


# ----------------------------------------------------------------------------- SR6 CLI / BANE (thorough)
def sr6_case(o, rng, rows, cols, f, idx, tmp, variant):
    from astropy.io import fits
    from AegeanTools.CLI import SR6
    import logging
    hdr, hinfo = header_for(idx, rows, cols, rng, allow_rot=(variant != 'default_factor'),
                             f=(None if variant == 'default_factor' else f))
    if variant == 'default_factor':
        # factor = get_step_size(header) = ceil(4*sqrt(bmaj*bmin)/pixel scale); choose the beam to get f
        pix = np.sqrt(abs((hdr.get('CDELT1') or hdr.get('CD1_1')) * (hdr.get('CDELT2') or hdr.get('CD2_2'))))
        b = (f - 0.5) * pix / 4.0
        hdr['BMAJ'] = b
        hdr['BMIN'] = b
    img, KL = make_image(rows, cols, f, rng)
    wit = {'rows': rows, 'cols': cols, 'factor': f, 'mode': 'SR6 ' + variant, 'header': hinfo}
    p0, pc, pe, pm = (os.path.join(tmp, n) for n in ('o.fits', 'c.fits', 'e.fits', 'm.fits'))
    for p in (pc, pe):
        if os.path.exists(p):
            os.remove(p)
    fits.PrimaryHDU(img, header=hdr.copy()).writeto(p0, overwrite=True)
    orig_hdr = fits.getheader(p0)
    mask = None
    valid = None
    lvl = logging.getLogger().level
    try:
        try:
            argv = [p0, '-o', pc] + ([] if variant == 'default_factor' else ['-f', str(f)])
            SR6.main(argv)
            if not os.path.exists(pc):
                o.violate('returns_none', dict(wit, stage='SR6 compress wrote nothing'))
                return
            comp_hdr = fits.getheader(pc)
            if variant == 'default_factor':
                f_used = int(comp_hdr.get('BN_CFAC', f))
                if f_used != f:      # the image was built for the intended factor: then judge only the rest
                    KL = (0, 0)
                    o.count('sr6_default_factor_differs')
                f = f_used
                wit['factor_used'] = f
            comp_data = fits.getdata(pc)
            argv = [pc, '-x', '-o', pe]
            if variant == 'mask':
                mask = np.zeros((rows, cols), dtype=np.float32)
                mask[rng.random((rows, cols)) < 0.1] = np.nan
                fits.PrimaryHDU(mask, header=hdr.copy()).writeto(pm, overwrite=True)
                argv += ['-m', pm]
            SR6.main(argv)
        except Exception:
            o.violate('raises', dict(wit, stage='SR6', exc=_tail()))
            return
        finally:
            logging.getLogger().setLevel(lvl)
        if not os.path.exists(pe):
            o.violate('returns_none', dict(wit, stage='SR6 expand wrote nothing'))
            return
        exp_data = fits.getdata(pe)
        exp_hdr = fits.getheader(pe)
        if mask is not None:
            m = np.isnan(mask)
            if exp_data.shape == mask.shape:
                if not np.all(np.isnan(exp_data[m])):
                    o.violate('sr6_mask', dict(wit, note='masked pixels not NaN'))
                o.count('sr6_masked_runs')
                valid = ~m                   # judge the unmasked pixels only
        judge(o, wit, img, orig_hdr, comp_data, exp_data, exp_hdr, f, KL, judged_linear=(KL != (0, 0)), valid=valid)
        o.count('sr6_runs')
        o.count('roundtrips')
        o.n_eval += 1
        o.n_nontrivial += int(f > 1)
    finally:
        pass


def bane_case(o, rng, rows, cols, f, idx, tmp, variant='api', grid=None):
    """the compress path as BANE drives it: two products (bkg, rms) made from ONE image header by
    BANE.filter_image(compressed=True) or the `BANE --compress` command line.  BOTH products are expanded
    (fits_tools.expand, load_image_band, and SR6 -x for the CLI variant) and their restored headers are judged against
    the header of the image BANE was given; both must be accepted by Aegean as background/noise files."""
    import logging
    from astropy.io import fits
    from AegeanTools import BANE, fits_tools as ft
    from AegeanTools.source_finder import SourceFinder
    hdr, hinfo = header_for(idx, rows, cols, rng, f=f)
    grid = tuple(int(g) for g in (grid or (f, f)))
    wit = {'rows': rows, 'cols': cols, 'factor': f, 'grid': list(grid), 'mode': 'BANE --compress (%s)' % variant, 'header': hinfo}
    yy, xx = np.mgrid[0:rows, 0:cols]
    img = (rng.normal(0, 1, (rows, cols)) + 0.02 * yy - 0.01 * xx).astype(np.float32)
    p0 = os.path.join(tmp, 'b.fits')
    fits.PrimaryHDU(img, header=hdr.copy()).writeto(p0, overwrite=True)
    orig_hdr = fits.getheader(p0)
    base = os.path.join(tmp, 'bout')
    for name in ('bkg', 'rms'):
        if os.path.exists(base + '_%s.fits' % name):
            os.remove(base + '_%s.fits' % name)
    out = None
    root = logging.getLogger()
    level, handlers = root.level, list(root.handlers)
    try:
        if variant == 'api':
            out = BANE.filter_image(im_name=p0, out_base=base, step_size=grid, box_size=(3 * grid[0], 3 * grid[1]), cores=1,
                                    nslice=1, compressed=True)
            if out is None:
                o.violate('returns_none', dict(wit, stage='BANE.filter_image'))
                return
        else:
            from AegeanTools.CLI import BANE as cli
            # the maps this very request returns (same arguments through the API, nothing written)
            out = BANE.filter_image(im_name=p0, out_base=None, step_size=grid, box_size=(3 * grid[0], 3 * grid[1]), cores=1,
                                    nslice=1, compressed=True)
            rc = cli.main([p0, '--out', base, '--grid', str(grid[0]), str(grid[1]), '--box', str(3 * grid[0]), str(3 * grid[1]),
                           '--cores', '1', '--stripes', '1', '--compress'])
            o.count('bane_cli_runs')
            if rc != 0:
                o.violate('returns_none', dict(wit, stage='BANE command line returned %r' % rc))
                return
    except Exception:
        o.violate('raises', dict(wit, stage='BANE ' + variant, exc=_tail()))
        return
    finally:
        root.setLevel(level)
        for h_ in list(root.handlers):
            if h_ not in handlers:
                root.removeHandler(h_)
    o.count('bane_compressed_runs')
    expanded = {}
    for k_, name in enumerate(('bkg', 'rms')):
        p = base + '_%s.fits' % name
        w = dict(wit, file=name)
        if not os.path.exists(p):
            o.violate('returns_none', dict(w, stage='BANE wrote no ' + name))
            continue
        comp_hdr = fits.getheader(p)
        if not all(k in comp_hdr for k in BN_KEYS):
            o.violate('bane_not_compressed', w)
            continue
        if comp_hdr['BN_CFAC'] != f:
            o.count('info_bane_factor_differs_from_grid')
        comp_data = fits.getdata(p)
        full = None if out is None else np.asarray(out[k_], dtype=np.float32)
        # (a) fits_tools.expand on the product
        try:
            with fits.open(p) as hl:
                e = ft.expand(hl)
                e_data, e_hdr = np.array(e[0].data), e[0].header.copy()
        except Exception:
            o.violate('raises', dict(w, stage='expand of the BANE product', exc=_tail()))
            continue
        ref_img = full if full is not None and full.shape == (rows, cols) else e_data
        judge(o, dict(w, via='fits_tools.expand'), ref_img, orig_hdr, comp_data, e_data, e_hdr, int(comp_hdr['BN_CFAC']),
              (0, 0), judged_linear=False)
        o.count('bane_products_judged')
        o.n_eval += 1
        o.n_nontrivial += 1
        expanded[name] = e_data
        # (b) transparent expansion on load
        try:
            d, h = ft.load_image_band(p)
        except Exception:
            o.violate('aux_rejected', dict(w, by='load_image_band', exc=_tail()))
            continue
        o.count('aux_loads')
        o.n_eval += 1
        if np.shape(d) != (rows, cols):
            o.violate('aux_shape', dict(w, by='load_image_band', got=list(np.shape(d))))
            continue
        judge(o, dict(w, via='load_image_band'), ref_img, orig_hdr, comp_data, d, h, int(comp_hdr['BN_CFAC']), (0, 0),
              judged_linear=False)
        # (c) the SR6 command line
        if variant == 'cli':
            from AegeanTools.CLI import SR6
            pe = os.path.join(tmp, 'sr6_%s.fits' % name)
            if os.path.exists(pe):
                os.remove(pe)
            try:
                SR6.main([p, '-x', '-o', pe])
            except Exception:
                o.violate('raises', dict(w, stage='SR6 -x on the BANE product', exc=_tail()))
            else:
                if not os.path.exists(pe):
                    o.violate('returns_none', dict(w, stage='SR6 -x wrote nothing'))
                else:
                    judge(o, dict(w, via='SR6 -x'), ref_img, orig_hdr, comp_data, fits.getdata(pe), fits.getheader(pe),
                          int(comp_hdr['BN_CFAC']), (0, 0), judged_linear=False)
                    o.count('bane_products_through_sr6')
            finally:
                root.setLevel(level)
                for h_ in list(root.handlers):
                    if h_ not in handlers:
                        root.removeHandler(h_)
        # BANE maps are linear between the nodes of the grid they were computed on, and the file is decimated on that
        # grid: the expanded file must be the map the same call returned on every complete cell (statement: "exact on all
        # complete grid cells for images that are linear between nodes (as BANE maps are)"), 4 float32 ulp of the node range
        fc = int(comp_hdr['BN_CFAC'])
        K, L = (rows - 1) // fc, (cols - 1) // fc
        if full is not None and full.shape == (rows, cols) and K >= 1 and L >= 1 and np.all(np.isfinite(full)):
            M = float(np.max(np.abs(full[::fc, ::fc])))
            diff = np.abs(d[:K * fc + 1, :L * fc + 1].astype(np.float64) - full[:K * fc + 1, :L * fc + 1])
            err = float(np.max(diff)) / (EPS32 * max(M, 1e-30))
            o.worst('bane_file_vs_returned_map_ulp32_of_node_range', err)
            o.count('bane_products_vs_returned_map')
            if grid[0] != grid[1]:
                o.count('bane_rectangular_grid_products_vs_returned_map')
                if max(grid) % min(grid):
                    o.count('bane_noncommensurate_grid_products_vs_returned_map')
            if not err <= LIN_TOL_ULP:
                wp = np.unravel_index(int(np.argmax(diff)), diff.shape)
                o.violate('linear', dict(w, what='expanded BANE file vs the map the same call returned, complete cells',
                                         err_ulp=err, rel_to_node_range=float(np.max(diff)) / max(M, 1e-30),
                                         pixel=[int(wp[0]), int(wp[1])], file_value=float(d[wp]), returned_map=float(full[wp]),
                                         compression_factor=fc))
    # (d) Aegean accepts both products wherever it accepts the uncompressed maps
    if len(expanded) == 2:
        plain = {}
        for name in ('bkg', 'rms'):
            plain[name] = os.path.join(tmp, 'plain_%s.fits' % name)
            fits.PrimaryHDU(expanded[name], header=hdr.copy()).writeto(plain[name], overwrite=True)
        got = {}
        for label, fb, fr in (('plain', plain['bkg'], plain['rms']), ('compressed', base + '_bkg.fits', base + '_rms.fits')):
            sf = SourceFinder()
            try:
                sf.load_globals(p0, bkgin=fb, rmsin=fr, do_curve=False, cores=1)
                got[label] = (np.array(sf.global_data.bkgimg), np.array(sf.global_data.rmsimg))
            except Exception:
                got[label] = _tail()
        if isinstance(got['plain'], str):
            o.count('aux_baseline_rejected')
            o.see('aux_baseline_exception', got['plain'].strip().splitlines()[-1][:120])
        else:
            o.count('aux_loads')
            o.count('bane_pairs_through_load_globals')
            o.n_eval += 1
            if isinstance(got['compressed'], str):
                o.violate('aux_rejected', dict(wit, by='load_globals(bkgin, rmsin)', exc=got['compressed']))
            elif got['compressed'][0].shape != (rows, cols) or got['compressed'][1].shape != (rows, cols):
                o.violate('aux_shape', dict(wit, by='load_globals', got=[list(x.shape) for x in got['compressed']]))
            elif not (np.array_equal(got['compressed'][0], got['plain'][0], equal_nan=True)
                      and np.array_equal(got['compressed'][1], got['plain'][1], equal_nan=True)):
                o.violate('aux_values', dict(wit, by='load_globals'))


# ----------------------------------------------------------------------------- cases / run
def cases(seed, tier):
    out = []
    # bounded-exhaustive block (seed-independent): one case per rows value
    for rows in range(2, 41):
        out.append({'kind': 'block', 'rows': rows, 'cols': [2, 40], 'factors': list(range(1, 13)) + [41, 64],
                    'seed': [0, 'block', rows]})
    nrand = 16 if tier == 'quick' else 200
    per = 150 if tier == 'quick' else 300
    for k in range(nrand):
        out.append({'kind': 'random', 'n': per, 'max_shape': 400 if k % 2 else 120, 'seed': [seed, 'random', k]})
    for k in range(8 if tier == 'quick' else 32):
        out.append({'kind': 'aux', 'n': 6 if tier == 'quick' else 8, 'seed': [seed, 'aux', k]})
    if tier == 'thorough':
        for k in range(16):
            out.append({'kind': 'sr6', 'n': 12, 'seed': [seed, 'sr6', k]})
    # BANE --compress: both tiers, through the API and through the command line
    for k in range(4 if tier == 'quick' else 16):
        out.append({'kind': 'bane', 'variant': ('api', 'cli')[k % 2], 'seed': [seed, 'bane', k]})
    # rectangular grids (BANE then computes and compresses on one common grid): non-commensurate and commensurate steps
    grids = [(8, 12), (10, 6), (12, 10), (6, 10), (8, 10), (4, 8), (12, 8), (10, 4)]
    for k in range(6 if tier == 'quick' else 16):
        out.append({'kind': 'bane', 'variant': ('api', 'cli')[k % 2], 'grid': list(grids[k % len(grids)]),
                    'seed': [seed, 'bane-rect', k]})
    # maps with blanked regions (as BANE maps of masked images have)
    for k in range(6 if tier == 'quick' else 30):
        out.append({'kind': 'blank', 'n': 36, 'offset': k, 'seed': [seed, 'blank', k]})
    # the ways of naming a file, and the routes by which the aegean command line takes background/noise files
    for k in range(4 if tier == 'quick' else 16):
        out.append({'kind': 'spellings', 'n': 4, 'seed': [seed, 'spellings', k]})
    for k in range(3 if tier == 'quick' else 12):
        out.append({'kind': 'autoload', 'seed': [seed, 'autoload', k]})
    # tall / wide images (seed-independent shapes; the pixel values and headers are seeded)
    shapes = [(1500, 9), (2500, 7), (9, 1500), (4100, 5), (5000, 3), (7, 2500), (1025, 4), (1030, 6), (2049, 3),
              (3, 4100), (1100, 40)]
    factors = [3, 5, 7, 10, 13, 41]
    if tier == 'thorough':
        shapes += [(9000, 4), (4, 9000), (12000, 3), (3000, 30), (30, 3000), (8193, 5), (1024, 8), (1023, 8), (6000, 11)]
        factors += [2, 6, 16, 33, 64]
        rng = rng_for(seed, 'c15-tall')
        shapes += [(int(rng.integers(1025, 7000)), int(rng.integers(2, 12))) for _ in range(10)]
        shapes += [(int(rng.integers(2, 12)), int(rng.integers(1025, 7000))) for _ in range(6)]
    work = [[r, c, f] for (r, c) in shapes for f in factors]
    per = 11 if tier == 'quick' else 20
    for k in range(0, len(work), per):
        out.append({'kind': 'tall', 'work': work[k:k + per], 'seed': [seed, 'tall', k]})
    return out


def run(case):
    from astropy.io import fits
    from AegeanTools import fits_tools as ft
    wz.selfcheck()
    selfcheck_rotated()
    o = Obs()
    rng = rng_for(*case['seed'])
    tmp = scratch_dir()
    try:
        kind = case['kind']
        if kind == 'block':
            rows = case['rows']
            idx = rows * 7
            for cols in range(case['cols'][0], case['cols'][1] + 1):
                for f in case['factors']:
                    idx += 1
                    dt = {1: np.int16, 4: np.int32}.get(idx % 6, np.float32)     # a third with integer pixels
                    roundtrip(ft, fits, o, rng, rows, cols, f, idx, 'mem', tmp, dtype=dt)
                    if idx % 9 == 0:
                        dt = {0: np.int16, 1: np.int32}.get((idx // 9) % 4, np.float32)
                        roundtrip(ft, fits, o, rng, rows, cols, f, idx + 3, 'file', tmp, dtype=dt)
            o.sample = {'rows': rows, 'cols': case['cols'], 'factors': case['factors'],
                        'roundtrips': o.counters.get('roundtrips')}
        elif kind == 'random':
            mx = case['max_shape']
            for k in range(case['n']):
                rows = int(rng.integers(2, mx + 1))
                cols = int(rng.integers(2, mx + 1))
                r = rng.random()
                if r < 0.5:
                    f = int(rng.integers(1, 65))
                elif r < 0.8:
                    f = int(rng.integers(2, 17))
                else:                                   # a divisor-ish / boundary factor of one of the axes
                    f = int(max(1, min(64, rng.choice([rows, cols, rows - 1, cols - 1, rows + 1, rows // 2,
                                                       cols // 3 + 1, (rows - 1) // 2 or 1]))))
                mode = 'file' if rng.random() < 0.3 else 'mem'
                linear = rng.random() < 0.6
                dtype = [np.float32, np.float64, np.int16, np.int32][int(rng.choice(4, p=[0.5, 0.2, 0.15, 0.15]))]
                extra = int(rng.choice([0, 0, 0, 1, 2]))
                roundtrip(ft, fits, o, rng, rows, cols, f, int(rng.integers(0, 10000)), mode, tmp,
                          linear=linear, dtype=dtype, extra_axes=extra)
            o.sample = {'n': case['n'], 'last': [rows, cols, f, mode]}
        elif kind == 'aux':
            for k in range(case['n']):
                rows = int(rng.integers(2, 200))
                cols = int(rng.integers(2, 200))
                f = int(rng.choice([1, 2, 3, 4, 5, 7, 8, 13, 16, 20, 33, 64]))
                aux_case(o, rng, rows, cols, f, int(rng.integers(0, 10000)), tmp)
        elif kind == 'sr6':
            for k in range(case['n']):
                rows = int(rng.integers(2, 200))
                cols = int(rng.integers(2, 200))
                f = int(rng.integers(1, 33))
                sr6_case(o, rng, rows, cols, f, int(rng.integers(0, 10000)), tmp,
                         ('explicit', 'default_factor', 'mask')[k % 3])
            o.sample = {'n': case['n'], 'last': [rows, cols, f]}
        elif kind == 'bane':
            rows = int(rng.integers(60, 140))
            cols = int(rng.integers(60, 140))
            f = int(rng.choice([4, 5, 7, 8, 10]))
            grid = case.get('grid')
            if grid:
                f = int(min(grid))
            bane_case(o, rng, rows, cols, f, int(rng.integers(0, 10000)), tmp, variant=case.get('variant', 'api'), grid=grid)
            o.sample = {'rows': rows, 'cols': cols, 'factor': f, 'grid': grid, 'variant': case.get('variant', 'api')}
        elif kind == 'blank':
            for k in range(case['n']):
                f = int(rng.choice([2, 3, 4, 5, 7, 8, 10]))
                rows = int(rng.integers(6 * f + 2, 14 * f + 8))
                cols = int(rng.integers(6 * f + 2, 14 * f + 8))
                blank_case(o, ft, fits, rng, rows, cols, f, int(rng.integers(0, 10000)), 'file' if k % 4 == 3 else 'mem', tmp,
                           PATTERNS[(k + case['offset']) % len(PATTERNS)])
            o.sample = {'n': case['n'], 'patterns': PATTERNS}
        elif kind == 'spellings':
            for k in range(case['n']):
                rows = int(rng.integers(4, 80))
                cols = int(rng.integers(4, 80))
                f = int(rng.choice([1, 2, 3, 4, 7, 10, 16]))
                spelling_case(o, rng, rows, cols, f, int(rng.integers(0, 10000)), tmp)
        elif kind == 'autoload':
            rows = int(rng.integers(70, 110))
            cols = int(rng.integers(70, 110))
            f = int(rng.choice([4, 5, 8, 10]))
            autoload_case(o, rng, rows, cols, f, int(rng.integers(0, 10000)), tmp)
        elif kind == 'tall':
            # size strata beyond typical chunk sizes: tall/narrow and wide/short images
            for k, (rows, cols, f) in enumerate(case['work']):
                dt = [np.float32, np.int32, np.float32, np.float64][k % 4]
                mode = 'file' if k % 3 == 1 else 'mem'
                roundtrip(ft, fits, o, rng, rows, cols, f, int(rng.integers(0, 10000)), mode, tmp, linear=(k % 5 != 4),
                          dtype=dt)
                o.count('tall_roundtrips')
                if max(rows, cols) > 1024 and 1024 % f:
                    o.count('long_axis_gt_1024_factor_not_dividing_1024')
                if max(rows, cols) > 4096:
                    o.count('long_axis_gt_4096')
                o.worst('max_rows_driven', rows)
                o.worst('max_cols_driven', cols)
            o.sample = {'work': case['work'][:4]}
        else:
            raise ValueError(kind)
        return o.result()
    finally:
        shutil.rmtree(tmp, ignore_errors=True)
