"""C19 - regrouping is the eps-connected partition of the catalogue, independent of row order.

The real `cluster.regroup_dbscan`, `cluster.regroup`, `cluster.resize`, the `AeReg` command line and
`SourceFinder.priorized_fit_islands(regroup_eps=...)` are run on generated catalogues; the partition they return is
compared with a union-find over all pairs whose separation (aegmon.refs.sphere.sep) does not exceed the linking length.
"""
import copy
import logging
import os
import shutil
import traceback
import warnings

import numpy as np

from aegmon.common import Obs, rng_for, scratch_dir
from aegmon.refs import sphere

ID = 'C19'
LEVEL = 'exploration'
RULE = ('a case is one catalogue (sparse / clustered / chains that connect only through middle sources / duplicates '
        'and equal fluxes / within 0.01 deg of a pole / across RA 0-360 / pairs constructed at eps*(1 +- 1e-3..1e-8)) '
        'with one linking length (0.001 arcmin .. 20 deg); it is regrouped in the generated order and in up to 20 '
        'random row orders; an evaluation is one call of the regrouping entry point (regroup_dbscan, regroup, resize, '
        'AeReg.main, priorized_fit_islands) whose result was compared with the oracle; non-trivial = the catalogue has '
        '>= 2 sources and the oracle partition has at least one link or one near-threshold pair; distinct = distinct '
        'case dicts (targeted cases do not depend on the seed)')
ASSUMPTIONS = ['oracle: union-find over all pairs with atan2 separations (aegmon/refs/sphere.py), cross-checked at start-up',
               'pairs with |sep/eps - 1| < 1e-9 (or |sep - eps| < 2e-13 deg, about 7x the worst-case rounding of a chord between two unit vectors) are '
               'undetermined: any partition between the one without and the one with those links is accepted',
               'regroup_dbscan(eps) takes a chord length: the harness passes 2 sin(theta/2); the arcmin->chord conversion '
               'is judged only through AeReg --eps and priorized_fit_islands(regroup_eps=)',
               'elliptical variant: only partition, chain-connectedness under norm_dist < eps (own implementation, '
               'relative band 1e-6) and row-order independence for distinct declinations are judged',
               'resize: ratio=1, with or without a psf helper (WCSHelper.from_header, as load_globals builds it), must '
               'return every source unchanged (a, b to 1e-12 relative, everything else exactly); ratio>1 must not shrink a '
               'source whose psf is known; sources without psf and ratio != 1 are documented as dropped and not judged']
MIN_REACH = {'cluster:regroup_dbscan': 1, 'cluster:regroup': 1, 'cluster:regroup_vectorized': 1, 'cluster:resize': 1,
             'cluster:norm_dist': 1, 'CLI.AeReg:main': 1, 'source_finder:SourceFinder.priorized_fit_islands': 1}
MIN_COUNTERS = {'dbscan_catalogues': 40, 'dbscan_runs': 400, 'dbscan_links_checked': 1000,
                'threshold_pairs_judged_api': 200, 'threshold_pairs_judged_aereg': 100,
                'threshold_pairs_judged_priorized': 100, 'chain_catalogues': 3, 'pole_catalogues': 2,
                'wrap_catalogues': 2, 'duplicate_catalogues': 2, 'elliptical_catalogues': 10,
                'elliptical_groups_checked': 20, 'resize_ratio1_sources': 100, 'resize_ratio1_nopsf_sources': 20,
                'resize_larger_ratio_sources': 100, 'resize_ratio1_with_helper_sources': 50,
                'resize_ratio1_with_helper_psf_differs_sources': 20, 'resize_larger_ratio_with_helper_sources': 30,
                'aereg_runs': 8, 'priorized_runs': 8, 'aereg_runs_with_ratio': 8,
                'aereg_runs_with_psfheader': 4, 'aereg_runs_with_noregroup': 3, 'aereg_runs_with_debug': 3,
                'threshold_pairs_judged_aereg_rescaled': 100, 'aereg_noregroup_rows_checked': 50,
                'whole_sphere_runs': 60, 'whole_sphere_runs_default_eps': 10, 'whole_sphere_runs_explicit_eps': 40,
                'elliptical_catalogues_straddling_ra0': 8, 'norm_dist_contract': 1000, 'norm_dist_contract_polar_cap': 300, 'elliptical_catalogues_around_pole': 3,
                'aereg_rows_dropped': 100, 'aereg_runs_several_tables': 5, 'aereg_secondary_tables_checked': 6, 'aereg_runs_uuids_shared': 3, 'aereg_runs_uuids_missing': 2,
                'aereg_runs_uuids_empty': 2, 'aereg_runs_uuids_all_same': 2, 'aereg_dropped_group_members': 80, 'aereg_dropped_bridges': 30,
                'aereg_dropped_brightest_of_group': 20}
BATCHES_PER_JOB = 4

REL_BAND = 1e-9
ABS_BAND_DEG = 2e-13
ELL_BAND = 1e-6


# ----------------------------------------------------------------------------- helpers
class UF:
    def __init__(self, n):
        self.p = list(range(n))

    def find(self, i):
        p = self.p
        while p[i] != i:
            p[i] = p[p[i]]
            i = p[i]
        return i

    def union(self, i, j):
        a, b = self.find(i), self.find(j)
        if a != b:
            self.p[b] = a

    def labels(self):
        return np.array([self.find(i) for i in range(len(self.p))])


def _partition(n, ii, jj):
    uf = UF(n)
    for i, j in zip(ii.tolist(), jj.tolist()):
        uf.union(i, j)
    return uf.labels()


def _canon(labels):
    """canonical form of a partition: frozenset of frozensets"""
    d = {}
    for i, l in enumerate(labels):
        d.setdefault(l, []).append(i)
    return frozenset(frozenset(v) for v in d.values())


def _sources(ra, dec, flux, rng, psf='known', shapes=None):
    from AegeanTools.models import ComponentSource
    out = []
    n = len(ra)
    for k in range(n):
        s = ComponentSource()
        s.island = int(rng.integers(0, max(2, n // 2)))      # arbitrary old labels, with repeats
        s.source = int(rng.integers(0, 3))
        s.ra = float(ra[k])
        s.dec = float(dec[k])
        s.ra_str = 'r%d' % k
        s.dec_str = 'd%d' % k
        s.peak_flux = float(flux[k])
        s.err_peak_flux = 0.01
        s.int_flux = float(flux[k]) * 1.1
        s.err_int_flux = -1
        s.background = 0.0
        s.local_rms = 0.01
        s.err_ra = 1e-5
        s.err_dec = 1e-5
        if shapes is None:
            s.a, s.b, s.pa = float(rng.uniform(40, 200)), float(rng.uniform(20, 40)), float(rng.uniform(-90, 90))
        else:
            s.a, s.b, s.pa = [float(x) for x in shapes[k]]
        s.err_a = s.err_b = s.err_pa = 0.1
        s.flags = int(rng.choice([0, 1, 4]))
        s.residual_mean = 0.0
        s.residual_std = 0.01
        s.uuid = 'id%05d' % k
        if psf == 'known':
            s.psf_a, s.psf_b, s.psf_pa = 30.0, 20.0, 10.0
        elif psf == 'nan':
            pass                       # ComponentSource default: NaN (a table without psf columns)
        out.append(s)
    return out


def _snapshot(srcs):
    return [dict(vars(s)) for s in srcs]


def _same(a, b):
    if type(a) is not type(b):
        # numpy/python scalar flavours of the same value are the same value
        try:
            return bool(a == b) or (a != a and b != b)
        except Exception:
            return False
    if isinstance(a, float) or isinstance(a, np.floating):
        return a == b or (a != a and b != b)
    return a == b


def _check_unchanged(o, srcs, snap, allowed, ctx):
    for k, (s, before) in enumerate(zip(srcs, snap)):
        after = vars(s)
        for key in set(before) | set(after):
            if key in allowed:
                continue
            if key not in after or key not in before or not _same(before[key], after[key]):
                o.violate('attribute_changed', dict(ctx, source=k, attribute=key, before=repr(before.get(key)),
                                                    after=repr(after.get(key))))
                return


def _pair_seps(ra, dec):
    ra = np.asarray(ra)
    dec = np.asarray(dec)
    return sphere.sep(ra[:, None], dec[:, None], ra[None, :], dec[None, :])


def _oracle(ra, dec, theta):
    """-> (labels_lo, labels_hi, definite edges (i,j), uncertain edges, seps)"""
    n = len(ra)
    s = _pair_seps(ra, dec)
    iu = np.triu_indices(n, 1)
    sv = s[iu]
    band = max(REL_BAND * theta, ABS_BAND_DEG)
    unc = np.abs(sv - theta) < band
    defi = (sv <= theta) & ~unc
    lo = _partition(n, iu[0][defi], iu[1][defi])
    hi = _partition(n, iu[0][defi | unc], iu[1][defi | unc])
    return lo, hi, (iu[0][defi], iu[1][defi]), (iu[0][unc], iu[1][unc]), s


def _mech(ctx, theta, sep, n, clause):
    """mechanism key from the witness alone"""
    t = np.radians(theta)
    x = np.radians(sep)
    if ctx.get('entry') in ('AeReg', 'priorized') and clause == 'chain_not_grouped' \
            and sep <= theta and 2 * np.sin(x / 2) > np.sin(t):
        return 'eps-chord-conversion-sin'
    if n <= 11 and abs(sep / theta - 1) < 2e-15 / t ** 2:
        return 'dbscan-brute-force-rounding'
    return None


def _judge_partition(o, groups, srcs, ra, dec, theta, orc, ctx, count_as):
    """groups: list of lists of source objects returned by the subject"""
    lo, hi, (di, dj), (ui, uj), seps = orc
    n = len(srcs)
    index = {id(s): k for k, s in enumerate(srcs)}
    subj = -np.ones(n, dtype=int)
    seen = np.zeros(n, dtype=int)
    for g, grp in enumerate(groups):
        for s in grp:
            k = index.get(id(s))
            if k is None:
                o.violate('foreign_source_in_group', dict(ctx, group=g))
                return None
            seen[k] += 1
            subj[k] = g
    if (seen != 1).any():
        k = int(np.flatnonzero(seen != 1)[0])
        o.violate('not_a_partition', dict(ctx, source=k, times_in_groups=int(seen[k]), n=n))
        return None
    if any(len(g) == 0 for g in groups):
        o.violate('empty_group', dict(ctx))
    # every definite link must be inside one group
    bad = np.flatnonzero(subj[di] != subj[dj])
    o.count('dbscan_links_checked' if count_as == 'api' else 'links_checked_' + count_as, len(di))
    if len(bad):
        # the closest-to-threshold and the farthest broken link
        sv = seps[di[bad], dj[bad]]
        for b in (bad[np.argmin(sv)], bad[np.argmax(sv)])[:1 if len(bad) == 1 else 2]:
            i, j = int(di[b]), int(dj[b])
            sp = float(seps[i, j])
            o.violate('chain_not_grouped', dict(ctx, n=n, theta_deg=theta, pair=[i, j], sep_deg=sp,
                                                sep_over_theta_minus_1=sp / theta - 1,
                                                p1=[ra[i], dec[i]], p2=[ra[j], dec[j]], broken_links=int(len(bad))),
                      _mech(ctx, theta, sp, n, 'chain_not_grouped'))
    # no group may span two components of the permissive partition
    for g in np.unique(subj):
        mem = np.flatnonzero(subj == g)
        if len(np.unique(hi[mem])) > 1:
            # closest pair between different components inside the group
            comp = hi[mem]
            sub = seps[np.ix_(mem, mem)].copy()
            sub[comp[:, None] == comp[None, :]] = np.inf
            a, b = np.unravel_index(np.argmin(sub), sub.shape)
            i, j = int(mem[a]), int(mem[b])
            sp = float(seps[i, j])
            o.violate('grouped_without_chain', dict(ctx, n=n, theta_deg=theta, pair=[i, j], sep_deg=sp,
                                                    sep_over_theta_minus_1=sp / theta - 1,
                                                    p1=[ra[i], dec[i]], p2=[ra[j], dec[j]]),
                      _mech(ctx, theta, sp, n, 'grouped_without_chain'))
            break
    if len(ui):
        o.count('undetermined_pairs', len(ui))
    return subj


def _judge_numbering(o, groups, ctx):
    labels = set()
    for g, grp in enumerate(groups):
        nums = sorted(int(s.source) for s in grp)
        if nums != list(range(len(grp))):
            o.violate('numbering_not_0_to_n', dict(ctx, group=g, source_numbers=nums[:20]))
            return
        isl = set(int(s.island) for s in grp)
        if len(isl) != 1:
            o.violate('group_with_several_island_numbers', dict(ctx, group=g, islands=sorted(isl)[:10]))
            return
        by = sorted(grp, key=lambda s: s.source)
        fl = [s.peak_flux for s in by]
        if any(fl[k] < fl[k + 1] for k in range(len(fl) - 1)):
            o.violate('numbering_not_by_decreasing_flux', dict(ctx, group=g, fluxes_in_source_order=fl[:20]))
            return
        for s in grp:
            key = (int(s.island), int(s.source))
            if key in labels:
                o.violate('duplicate_island_source', dict(ctx, label=list(key)))
                return
            labels.add(key)
    o.count('numbering_checked_groups', len(groups))


# ----------------------------------------------------------------------------- catalogue generators
def _sphere_points(rng, n):
    return rng.uniform(0, 360, n), np.degrees(np.arcsin(rng.uniform(-1, 1, n)))


def _threshold_pairs(rng, theta, offsets, base=None, spacing=4.0, chains=True):
    """pairs at theta*(1 +- d), isolated from each other on a grid of spacing*theta, plus 3-chains whose ends are
    1.9 theta apart and link only through the middle source"""
    items = [(d, s) for d in offsets for s in (-1, 1)]
    m = len(items) + (4 if chains else 0)
    cols = int(np.ceil(np.sqrt(m)))
    if base is None:
        base = (float(rng.uniform(0, 360)), float(rng.uniform(-30, 10)))
    ra, dec, info = [], [], []
    for k in range(m):
        j, i = divmod(k, cols)
        d0 = base[1] + j * spacing * theta
        r0 = (base[0] + i * spacing * theta / np.cos(np.radians(d0))) % 360.0
        if k < len(items):
            d, s = items[k]
            r1, d1 = sphere.destination(r0, d0, theta * (1 + s * d), float(rng.uniform(0, 360)))
            ra += [r0, float(r1)]
            dec += [d0, float(d1)]
            info.append((d, s))
        else:
            pa = float(rng.uniform(0, 360))
            f = 0.95 if k % 2 else 0.999
            r1, d1 = sphere.destination(r0, d0, theta * f, pa)
            r2, d2 = sphere.destination(r0, d0, theta * f, pa + 180.0)
            ra += [float(r1), r0, float(r2)]
            dec += [float(d1), d0, float(d2)]
    return np.array(ra), np.array(dec)


def _catalogue(case, rng):
    """-> ra, dec, flux, theta (deg)"""
    kind = case['cat']
    n = case.get('n', 50)
    theta = case['theta_deg']
    if kind == 'sparse':
        ra, dec = _sphere_points(rng, n)
    elif kind == 'clustered':
        nc = max(1, n // 8)
        cra, cdec = _sphere_points(rng, nc)
        which = rng.integers(0, nc, n)
        r = np.abs(rng.normal(0, 1.2, n)) * theta
        ra, dec = sphere.destination(cra[which], cdec[which], r, rng.uniform(0, 360, n))
    elif kind == 'chains':
        ra, dec = [], []
        while len(ra) < n:
            L = int(rng.integers(3, 30))
            r0, d0 = _sphere_points(rng, 1)
            pa = rng.uniform(0, 360)
            step = theta * rng.uniform(0.6, 0.999, L)
            dist = np.cumsum(step)
            rr, dd = sphere.destination(r0[0], d0[0], dist, pa)
            # every second chain has one gap slightly wider than theta: it must split there
            if rng.random() < 0.5 and L > 4:
                cut = L // 2
                dist[cut:] += theta * 0.3
                rr, dd = sphere.destination(r0[0], d0[0], dist, pa)
            ra += list(rr)
            dec += list(dd)
        ra, dec = np.array(ra[:n]), np.array(dec[:n])
    elif kind == 'pole':
        sgn = case.get('pole', 1)
        r = rng.uniform(0, 0.01, n)
        ra, dec = sphere.destination(0.0, 90.0 * sgn, r, rng.uniform(0, 360, n))
        ra[:2] = [12.0, 200.0]
        dec[:2] = [90.0 * sgn, 90.0 * sgn]            # two sources at the pole itself, different RA
    elif kind == 'wrap':
        ra = (rng.normal(0, 2.0 * theta, n)) % 360.0
        dec = rng.uniform(-1, 1, n) * 3 * theta + case.get('dec0', 0.0)
        if n >= 4:
            ra[:4] = [0.0, 360.0, 359.9999999, 1e-9]
    elif kind == 'duplicates':
        m = max(1, n // 3)
        r0, d0 = _sphere_points(rng, m)
        idx = rng.integers(0, m, n)
        ra, dec = r0[idx].copy(), d0[idx].copy()
        # some near-duplicates within theta/10
        k = n // 4
        ra[:k], dec[:k] = sphere.destination(ra[:k], dec[:k], theta * rng.uniform(0, 0.1, k), rng.uniform(0, 360, k))
    elif kind == 'threshold':
        ra, dec = _threshold_pairs(rng, theta, case['offsets'], chains=case.get('chains', True))
        if case.get('pad', 0):
            # far-away padding so that the catalogue has more than 11 rows
            pr, pd_ = sphere.destination(ra[0], dec[0], rng.uniform(100, 170, case['pad']), rng.uniform(0, 360, case['pad']))
            ra, dec = np.concatenate([ra, pr]), np.concatenate([dec, pd_])
    elif kind == 'single':
        ra, dec = _sphere_points(rng, 1)
    else:
        raise ValueError(kind)
    ra = np.asarray(ra, dtype=float) % 360.0
    ra[ra == 360.0] = 0.0
    if kind == 'wrap' and n >= 4:
        ra[1] = 360.0
    dec = np.clip(np.asarray(dec, dtype=float), -90, 90)
    if case.get('equal_flux'):
        flux = rng.choice([1.0, 2.0, -1.0, 0.5], len(ra))
    else:
        flux = np.exp(rng.normal(0, 1, len(ra))) * rng.choice([1, 1, 1, -1], len(ra))
    return ra, dec, flux, theta


# ----------------------------------------------------------------------------- case kinds
def _run_dbscan(o, case):
    from AegeanTools import cluster
    rng = rng_for(*case['seed'])
    ra, dec, flux, theta = _catalogue(case, rng)
    n = len(ra)
    srcs = _sources(ra, dec, flux, rng)
    orc = _oracle(ra, dec, theta)
    eps = 2 * np.sin(np.radians(theta) / 2)             # exact chord of the linking length
    ctx = {'entry': 'regroup_dbscan', 'cat': case['cat'], 'theta_arcmin': theta * 60}
    o.count('dbscan_catalogues')
    o.count(case['cat'].rstrip('s') + '_catalogues' if case['cat'] in ('chains', 'duplicates') else case['cat'] + '_catalogues')
    determined = len(orc[3][0]) == 0
    first = None
    iu = np.triu_indices(n, 1)
    if n > 1:
        off = np.abs(orc[4][iu] / theta - 1)
        near = (off < 2e-3) & (off >= max(REL_BAND, ABS_BAND_DEG / theta))
        o.count('threshold_pairs_judged_api', int(near.sum()))
        if near.any():
            o.worst('closest_judged_pair_minus_log10_rel_offset', float(-np.log10(off[near].min())))
    nontrivial = n >= 2 and (len(orc[2][0]) > 0 or (n > 1 and (off < 2e-3).any()))
    for k in range(1 + case.get('shuffles', 20)):
        order = np.arange(n) if k == 0 else rng.permutation(n)
        inp = [srcs[i] for i in order]
        snap = _snapshot(inp)
        try:
            with warnings.catch_warnings():
                warnings.simplefilter('ignore')
                groups = cluster.regroup_dbscan(inp, eps=eps)
        except Exception:
            o.violate('raises', dict(ctx, n=n, traceback=traceback.format_exc()[-600:]))
            return
        o.n_eval += 1
        o.count('dbscan_runs')
        subj = _judge_partition(o, groups, srcs, ra, dec, theta, orc, dict(ctx, shuffle=k), 'api')
        if subj is None:
            return
        _judge_numbering(o, groups, dict(ctx, shuffle=k))
        _check_unchanged(o, inp, snap, ('island', 'source'), dict(ctx, shuffle=k))
        can = _canon(subj)
        if first is None:
            first = can
            o.sample = {'n': n, 'theta_arcmin': theta * 60, 'groups': len(groups),
                        'largest_group': max(len(g) for g in groups), 'oracle_groups': len(set(orc[0].tolist())),
                        'undetermined_pairs': int(len(orc[3][0]))}
            o.see('group_count_class', min(len(groups), 50) // 5 * 5)
        elif can != first:
            if determined:
                o.violate('row_order_changes_partition', dict(ctx, n=n, shuffle=k, groups_first=len(first), groups_now=len(can)))
            else:
                o.count('undetermined')
        if o.violations:
            break
    if nontrivial:
        o.n_nontrivial += 1


def _run_dbscan_whole_sphere(o, case):
    """linking lengths at/above the diameter of the unit sphere (chord eps >= 2), including the default argument of
    regroup_dbscan: every pair is within the chord, so the whole catalogue is one group"""
    from AegeanTools import cluster
    rng = rng_for(*case['seed'])
    n = case['n']
    if case.get('cat') == 'clustered':
        nc = max(1, n // 10)
        cra, cdec = _sphere_points(rng, nc)
        which = rng.integers(0, nc, n)
        ra, dec = sphere.destination(cra[which], cdec[which], np.abs(rng.normal(0, 0.05, n)), rng.uniform(0, 360, n))
    else:
        ra, dec = _sphere_points(rng, n)
    ra = np.asarray(ra, dtype=float) % 360.0
    dec = np.asarray(dec, dtype=float)
    if case.get('antipodal') and n >= 2:
        ra[1], dec[1] = (ra[0] + 180.0) % 360.0, -dec[0]
    flux = np.exp(rng.normal(0, 1, n))
    srcs = _sources(ra, dec, flux, rng)
    eps = case.get('eps_chord')                 # None = call without the argument (default eps=4)
    ctx = {'entry': 'regroup_dbscan', 'eps_chord': 'default' if eps is None else eps, 'n': n, 'cat': case.get('cat', 'sparse')}
    seps = _pair_seps(ra, dec) if n > 1 else np.zeros((1, 1))
    maxsep = float(seps.max())
    o.worst('whole_sphere_largest_separation_deg', maxsep)
    if eps is not None and eps == 2.0 and maxsep > 180.0 - 1e-5:
        # chord 2 against a (nearly) antipodal pair: 2 - chord ~ (pi - sep)^2 / 4 is below the rounding of the chord
        o.count('undetermined')
        o.count('whole_sphere_undetermined')
        return
    for k in range(1 + case.get('shuffles', 2)):
        order = np.arange(n) if k == 0 else rng.permutation(n)
        inp = [srcs[i] for i in order]
        snap = _snapshot(inp)
        try:
            with warnings.catch_warnings():
                warnings.simplefilter('ignore')
                groups = cluster.regroup_dbscan(inp) if eps is None else cluster.regroup_dbscan(inp, eps=eps)
        except Exception:
            o.violate('raises', dict(ctx, traceback=traceback.format_exc()[-600:]))
            return
        o.n_eval += 1
        o.count('whole_sphere_runs')
        o.count('whole_sphere_runs_default_eps' if eps is None else 'whole_sphere_runs_explicit_eps')
        ids = sorted(id(s) for g in groups for s in g)
        if ids != sorted(id(s) for s in srcs):
            o.violate('not_a_partition', dict(ctx, sources_in_groups=len(ids)))
            return
        if len(groups) != 1:
            # two sources of different groups although every pair is within the chord
            lab = {id(s): g for g, grp in enumerate(groups) for s in grp}
            l = np.array([lab[id(s)] for s in srcs])
            sub = np.where(l[:, None] != l[None, :], seps, np.inf)
            i, j = np.unravel_index(np.argmin(sub), sub.shape)
            o.violate('chain_not_grouped', dict(ctx, groups=len(groups), pair=[int(i), int(j)], sep_deg=float(seps[i, j]),
                                                chord_of_pair=float(2 * np.sin(np.radians(seps[i, j]) / 2)),
                                                p1=[ra[i], dec[i]], p2=[ra[j], dec[j]], shuffle=k))
            return
        _judge_numbering(o, groups, dict(ctx, shuffle=k))
        _check_unchanged(o, inp, snap, ('island', 'source'), dict(ctx, shuffle=k))
        if o.violations:
            return
    if n >= 2:
        o.n_nontrivial += 1
    o.sample = {'n': n, 'eps_chord': ctx['eps_chord'], 'groups': 1, 'largest_separation_deg': maxsep}


def _ell_norm_dist(ra, dec, a, b, pa, i, j):
    """own implementation of the normalised distance between ellipses i and j (direction i -> j)"""
    d = sphere.sep(ra[i], dec[i], ra[j], dec[j])
    phi = sphere.position_angle(ra[i], dec[i], ra[j], dec[j])
    r1 = a[i] * b[i] / np.hypot(a[i] * np.sin(np.radians(phi - pa[i])), b[i] * np.cos(np.radians(phi - pa[i])))
    r2 = a[j] * b[j] / np.hypot(a[j] * np.sin(np.radians(180 + phi - pa[j])), b[j] * np.cos(np.radians(180 + phi - pa[j])))
    return d / (np.hypot(r1, r2) / 3600.0)


class _Ell:
    def __init__(self, ra, dec, a, b, pa):
        self.ra, self.dec, self.a, self.b, self.pa = float(ra), float(dec), float(a), float(b), float(pa)


def _norm_dist_contract(o, cluster, ra, dec, a, b, pa, rng, ctx, npairs=150):
    """cluster.norm_dist against the documented definition (separation over the quadrature sum of the two ellipse radii
    along the joining line), evaluated with the independent separation / position angle; both calling forms"""
    n = len(ra)
    if n < 2:
        return
    I = rng.integers(0, n, npairs)
    J = rng.integers(0, n, npairs)
    keep = I != J
    I, J = I[keep], J[keep]
    ref = _ell_norm_dist(ra, dec, a, b, pa, I, J)
    sep = sphere.sep(ra[I], dec[I], ra[J], dec[J])
    judged = (sep >= 1e-5) & (np.abs(dec[I]) < 89.9999) & (np.abs(dec[J]) < 89.9999) & np.isfinite(ref)
    rec = np.rec.fromrecords(list(zip(ra, dec, a, b, pa)), names=['ra', 'dec', 'a', 'b', 'pa'])
    for q, (i, j) in enumerate(zip(I.tolist(), J.tolist())):
        if not judged[q]:
            continue
        with warnings.catch_warnings():
            warnings.simplefilter('ignore')
            got = float(cluster.norm_dist(_Ell(ra[i], dec[i], a[i], b[i], pa[i]), _Ell(ra[j], dec[j], a[j], b[j], pa[j])))
            gotv = float(np.atleast_1d(cluster.norm_dist(rec[i], rec[[j, j]]))[0])      # as regroup_vectorized calls it
        o.count('norm_dist_contract')
        if max(abs(dec[i]), abs(dec[j])) > 89.5:
            o.count('norm_dist_contract_polar_cap')
        for form, g in (('objects', got), ('record_vs_recarray', gotv)):
            err = abs(g - ref[q]) / ref[q]
            o.worst('norm_dist_rel_err', err)
            if not err <= ELL_BAND:
                o.violate('norm_dist_vs_definition', dict(ctx, form=form, p1=[ra[i], dec[i]], p2=[ra[j], dec[j]],
                                                          shapes=[[a[i], b[i], pa[i]], [a[j], b[j], pa[j]]],
                                                          norm_dist=g, reference=float(ref[q]), rel_err=float(err)))
                return


def _run_elliptical(o, case):
    from AegeanTools import cluster
    rng = rng_for(*case['seed'])
    n = case['n']
    eps = case['eps']
    far = case.get('far', 0.5)
    # clustered field a few degrees wide, distinct declinations by construction (checked)
    r0, d0 = float(rng.uniform(5, 355)), float(rng.uniform(-80, 80))
    if case.get('ra0') is not None:
        r0 = float(case['ra0'])             # e.g. 0.0: the field straddles RA 0/360
    if case.get('dec0') is not None:
        d0 = float(case['dec0'])            # e.g. +-89.7: the field surrounds a pole (RA span > 180 deg)
    nc = max(1, n // 5)
    cr, cd = sphere.destination(r0, d0, rng.uniform(0, case.get('field', 1.0), nc), rng.uniform(0, 360, nc))
    which = rng.integers(0, nc, n)
    ra, dec = sphere.destination(cr[which], cd[which], np.abs(rng.normal(0, 1, n)) * case.get('scatter', 0.03),
                                 rng.uniform(0, 360, n))
    if len(set(dec.tolist())) != n:
        raise RuntimeError('generator produced equal declinations')
    a = rng.uniform(30, 200, n)
    b = a * rng.uniform(0.3, 1.0, n)
    pa = rng.uniform(-90, 90, n)
    flux = rng.choice([1.0, 2.0, 3.0], n) if case.get('equal_flux') else np.exp(rng.normal(0, 1, n))
    srcs = _sources(ra, dec, flux, rng, shapes=list(zip(a, b, pa)))
    ra = ra % 360.0
    ctx = {'entry': 'regroup', 'eps': eps, 'far': far, 'n': n, 'ra_span_deg': float(ra.max() - ra.min()),
           'field_centre': [r0, d0]}
    o.count('elliptical_catalogues')
    _norm_dist_contract(o, cluster, ra, dec, a, b, pa, rng, ctx)
    if o.violations:
        return
    if ra.max() - ra.min() > 180:
        o.count('elliptical_catalogues_straddling_ra0')
        if abs(d0) > 89:
            o.count('elliptical_catalogues_around_pole')
    first = None
    for k in range(1 + case.get('shuffles', 5)):
        order = np.arange(n) if k == 0 else rng.permutation(n)
        inp = [srcs[i] for i in order]
        snap = _snapshot(inp)
        try:
            with warnings.catch_warnings():
                warnings.simplefilter('ignore')
                groups = cluster.regroup(inp, eps=eps, far=far)
        except Exception:
            o.violate('raises', dict(ctx, traceback=traceback.format_exc()[-600:]))
            return
        o.n_eval += 1
        index = {id(s): i for i, s in enumerate(srcs)}
        seen = np.zeros(n, dtype=int)
        subj = -np.ones(n, dtype=int)
        for g, grp in enumerate(groups):
            for s in grp:
                seen[index[id(s)]] += 1
                subj[index[id(s)]] = g
        if (seen != 1).any():
            i = int(np.flatnonzero(seen != 1)[0])
            o.violate('not_a_partition', dict(ctx, source=i, times_in_groups=int(seen[i])))
            return
        _judge_numbering(o, groups, dict(ctx, shuffle=k))
        _check_unchanged(o, inp, snap, ('island', 'source'), dict(ctx, shuffle=k))
        if k == 0:
            for g in np.unique(subj):
                mem = np.flatnonzero(subj == g)
                if len(mem) < 2:
                    continue
                o.count('elliptical_groups_checked')
                I, J = np.meshgrid(mem, mem, indexing='ij')
                with np.errstate(invalid='ignore', divide='ignore'):
                    nd = _ell_norm_dist(ra, dec, a, b, pa, I, J)
                np.fill_diagonal(nd, np.inf)
                nd = np.minimum(nd, nd.T)
                for lim, name in ((eps * (1 + ELL_BAND), 'lenient'), (eps * (1 - ELL_BAND), 'strict')):
                    ii, jj = np.nonzero(np.triu(nd < lim, 1))
                    lab = _partition(len(mem), ii, jj)
                    connected = len(set(lab.tolist())) == 1
                    if name == 'lenient' and not connected:
                        o.violate('group_not_chain_connected', dict(ctx, group=int(g), members=mem.tolist()[:20],
                                                                    smallest_norm_dist=float(np.min(nd))))
                        break
                    if name == 'strict' and not connected:
                        o.count('undetermined')
        can = _canon(subj)
        if first is None:
            first = can
            o.sample = {'n': n, 'eps': eps, 'groups': len(groups), 'largest_group': max(len(g) for g in groups)}
        elif can != first:
            o.violate('row_order_changes_partition', dict(ctx, shuffle=k, groups_first=len(first), groups_now=len(can)))
        if o.violations:
            break
    if any(len(g) > 1 for g in first or []):
        o.n_nontrivial += 1


IMAGE_BEAM = (0.02, 0.015, 20.0)      # degrees: 72" x 54"


def _psf_helper():
    """the object priorized_fit_islands hands to resize: SourceFinder.load_globals builds
    global_data.psfhelper = WCSHelper.from_header(header, beam, psf_file)"""
    from aegmon.refs import wcs_zenithal as wz
    from AegeanTools.wcs_helpers import WCSHelper
    h = wz.make_header(crval=(120.0, -35.0), crpix=(64, 64), cdelt=(-0.005, 0.005), shape=(128, 128), beam=IMAGE_BEAM)
    return WCSHelper.from_header(h)


def _run_resize(o, case):
    from AegeanTools import cluster
    rng = rng_for(*case['seed'])
    n = case['n']
    ra, dec = _sphere_points(rng, n)
    flux = np.exp(rng.normal(0, 1, n))
    psf = case['psf']          # known | nan | larger | smaller | equal | mixed_first_known | mixed_first_nan
    ratio = case['ratio']
    use_helper = bool(case.get('helper'))
    if use_helper:
        # inside the image the helper belongs to (as the catalogue of a priorized fit would be)
        ra, dec = sphere.destination(120.0, -35.0, rng.uniform(0, 0.25, n), rng.uniform(0, 360, n))
    srcs = _sources(ra, dec, flux, rng, psf='nan')
    ima, imb, impa = IMAGE_BEAM[0] * 3600, IMAGE_BEAM[1] * 3600, IMAGE_BEAM[2]
    known = np.ones(n, dtype=bool)
    if psf == 'nan':
        known[:] = False
    elif psf.startswith('mixed'):
        known = rng.random(n) < 0.5
        known[0] = psf == 'mixed_first_known'
    for k, s in enumerate(srcs):
        if not known[k]:
            continue
        if psf == 'known':
            s.psf_a, s.psf_b, s.psf_pa = float(rng.uniform(10, 100)), float(rng.uniform(5, 10)), 10.0
        elif psf == 'equal':
            s.psf_a, s.psf_b, s.psf_pa = ima, imb, impa
        else:
            f = {'larger': rng.uniform(1.2, 3.0), 'smaller': rng.uniform(0.2, 0.8)}.get(psf, rng.choice([0.5, 2.0]))
            s.psf_a, s.psf_b, s.psf_pa = float(ima * f), float(imb * f), float(rng.uniform(-90, 90))
    snap = _snapshot(srcs)
    ctx = {'entry': 'resize', 'ratio': ratio, 'psf': psf, 'n': n, 'psfhelper': use_helper,
           'image_beam_arcsec': [ima, imb] if use_helper else None}
    mech = 'resize-unknown-psf' if not known.all() else None
    try:
        with warnings.catch_warnings():
            warnings.simplefilter('ignore')
            if use_helper:
                out = cluster.resize(srcs, ratio=ratio, psfhelper=_psf_helper())
            else:
                out = cluster.resize(srcs, ratio=ratio)
    except Exception:
        o.violate('raises', dict(ctx, traceback=traceback.format_exc()[-600:]), mech)
        return
    o.n_eval += 1
    o.n_nontrivial += 1
    # which sources must come back: all of them for ratio 1; for larger ratios those whose psf is known
    must = np.ones(n, dtype=bool) if ratio == 1 else known
    outids = [id(x) for x in out]
    missing = [k for k in range(n) if must[k] and id(srcs[k]) not in outids]
    order_ok = outids == [id(s) for s in srcs if id(s) in set(outids)] and len(set(outids)) == len(outids)
    if missing or not order_ok or any(i not in set(id(s) for s in srcs) for i in outids):
        o.violate('resize_ratio1_drops_sources' if ratio == 1 else 'resize_drops_sources',
                  dict(ctx, returned=len(out), missing=missing[:5], order_kept=order_ok,
                       a_after=repr(srcs[missing[0] if missing else 0].a), psf_a=repr(srcs[missing[0] if missing else 0].psf_a)),
                  mech)
    _check_unchanged(o, srcs, snap, ('a', 'b'), ctx)        # pa, psf_*, labels, ... of every source
    for k, (s, before) in enumerate(zip(srcs, snap)):
        if not must[k]:
            continue
        for key in ('a', 'b'):
            new, old = getattr(s, key), before[key]
            if ratio == 1:
                err = abs(new - old) / old if np.isfinite(new) else np.inf
                o.worst('resize_ratio1_rel_change', err if np.isfinite(err) else None)
                if not err <= 1e-12:
                    o.violate('resize_ratio1_not_identity',
                              dict(ctx, source=k, attribute=key, before=old, after=repr(new),
                                   psf_of_source=[repr(s.psf_a), repr(s.psf_b)]),
                              'resize-unknown-psf' if not known[k] else None)
                    return
            elif not (new >= old * (1 - 1e-12)):
                o.violate('larger_ratio_shrinks', dict(ctx, source=k, attribute=key, before=old, after=repr(new),
                                                       psf_of_source=[repr(s.psf_a), repr(s.psf_b)]))
                return
    tag = '_with_helper' if use_helper else ''
    if ratio == 1:
        o.count('resize_ratio1_sources', n)
        o.count('resize_ratio1_nopsf_sources', int((~known).sum()))
        if use_helper:
            o.count('resize_ratio1_with_helper_sources', n)
            if psf in ('larger', 'smaller') or psf.startswith('mixed'):
                o.count('resize_ratio1_with_helper_psf_differs_sources', int(known.sum()))
    else:
        o.count('resize_larger_ratio_sources', int(known.sum()))
        if use_helper:
            o.count('resize_larger_ratio_with_helper_sources', int(known.sum()))
    o.see('resize_configurations', '%s ratio%s1%s' % (psf, '=' if ratio == 1 else '>', tag))
    o.sample = {'n': n, 'ratio': ratio, 'psf': psf, 'psfhelper': use_helper, 'returned': len(out),
                'a_before_after': [snap[0]['a'], repr(srcs[0].a)]}


def _write_csv(path, srcs, drop_psf=False, delimiter=',', drop=()):
    """own writer (repr of doubles is exact); independent of AegeanTools.catalogs"""
    names = [n for n in type(srcs[0]).names if not (drop_psf and n.startswith('psf_')) and n not in drop]
    with open(path, 'w') as f:
        f.write(delimiter.join(names) + '\n')
        for s in srcs:
            f.write(delimiter.join(repr(getattr(s, n)) if not isinstance(getattr(s, n), str) else getattr(s, n)
                                   for n in names) + '\n')
    return names


def _entry_catalogue(case, rng):
    theta = case['eps_arcmin'] / 60.0
    ra, dec = _threshold_pairs(rng, theta, case['offsets'], base=case.get('base'))
    ra = ra % 360.0
    flux = np.exp(rng.normal(0, 1, len(ra)))
    return ra, dec, flux, theta


def _count_entry_pairs(o, orc, theta, which):
    n = orc[4].shape[0]
    iu = np.triu_indices(n, 1)
    off = np.abs(orc[4][iu] / theta - 1)
    near = (off < 2e-3) & (off >= max(REL_BAND, ABS_BAND_DEG / theta))
    o.count('threshold_pairs_judged_' + which, int(near.sum()))


def _dropper_catalogue(rng, theta, base=None):
    """structures in which one source is one the tool must DROP when rescaling: bridges of chains, members of
    multi-source groups (brightest / middle / faintest), one of a pair, isolated sources; plus intact structures.
    -> ra, dec, flux, drop (bool per row)"""
    if base is None:
        base = (float(rng.uniform(0, 360)), float(rng.uniform(-30, 10)))
    # (offsets along a line in units of theta, index of the dropped row or None, flux ranks (0 = brightest))
    blocks = [
        ([-0.8, 0.0, 0.8], 1, [1, 0, 2]),             # A - B - C, bridge B dropped (and brightest)
        ([-0.8, 0.0, 0.8], 1, [0, 2, 1]),             # bridge dropped, faintest
        ([-1.6, -0.8, 0.0, 0.8, 1.6], 2, [3, 1, 0, 2, 4]),   # 5-chain, middle dropped -> two pairs
        ([-1.6, -0.8, 0.0, 0.8, 1.6], 1, [0, 1, 2, 3, 4]),   # second of five dropped -> single + triple
        ([-0.3, 0.0, 0.3], 0, [0, 1, 2]),             # compact triple, brightest dropped
        ([-0.3, 0.0, 0.3], 1, [0, 1, 2]),             # compact triple, middle flux dropped
        ([-0.3, 0.0, 0.3], 2, [0, 1, 2]),             # compact triple, faintest dropped
        ([0.0, 0.5], 0, [0, 1]),                      # pair, brighter dropped
        ([0.0, 0.5], 1, [0, 1]),                      # pair, fainter dropped
        ([-0.8, 0.0, 0.8], 0, [2, 0, 1]),             # end of a chain dropped
        ([0.0], 0, [0]),                              # isolated dropped source
        ([0.0], None, [0]),                           # isolated survivor
        ([-0.8, 0.0, 0.8], None, [1, 0, 2]),          # intact chain
        ([0.0, 0.5], None, [1, 0]),                   # intact pair
        ([0.0, 1.3], None, [0, 1]),                   # two singles 1.3 theta apart
        ([0.0, 0.9, 1.8, 2.7], 2, [0, 1, 2, 3]),      # 4-chain, third dropped -> pair + single
    ]
    order = rng.permutation(len(blocks))
    cols = 4
    ra, dec, flux, drop = [], [], [], []
    for slot, bi in enumerate(order):
        offs, dk, ranks = blocks[bi]
        j, i = divmod(slot, cols)
        d0 = base[1] + j * 8.0 * theta
        r0 = (base[0] + i * 8.0 * theta / np.cos(np.radians(d0))) % 360.0
        pa = float(rng.uniform(0, 180))
        f0 = float(np.exp(rng.normal(0, 1)))
        for k, x in enumerate(offs):
            r1, d1 = sphere.destination(r0, d0, abs(x) * theta, pa if x >= 0 else pa + 180.0)
            ra.append(float(r1) % 360.0)
            dec.append(float(d1))
            flux.append(f0 * (10.0 - ranks[k]))
            drop.append(dk is not None and k == dk)
    return np.array(ra), np.array(dec), np.array(flux), np.array(drop)


def _run_aereg(o, case):
    from astropy.io import ascii
    from AegeanTools.CLI import AeReg
    rng = rng_for(*case['seed'])
    theta = case['eps_arcmin'] / 60.0
    droppers = case.get('droppers')            # None | 'nan' | 'compact' | 'zero' | 'negative' | 'zero_b'
    if droppers:
        ra, dec, flux, drop = _dropper_catalogue(rng, theta)
    else:
        ra, dec, flux, theta = _entry_catalogue(case, rng)
        drop = np.zeros(len(ra), dtype=bool)
    n = len(ra)
    nopsf = case.get('nopsf', False)
    srcs = _sources(ra, dec, flux, rng, psf='nan' if nopsf else 'known')
    for k, s in enumerate(srcs):
        # rows are identified by a private id carried in a string column the tool passes through (not by uuid)
        s.ra_str, s.dec_str = 'row:%05d' % k, '+00:00:00.00'
        um = case.get('uuids', 'unique')
        if um == 'shared':
            s.uuid = 'epochs-%04d' % (k // 3)           # concatenated catalogues of several epochs
        elif um == 'all_same':
            s.uuid = 'same-uuid'
        elif um == 'empty':
            s.uuid = ''
        if droppers:
            # survivors are comfortably larger than the catalogue psf (30" x 20"), so that they survive any ratio >= 0.3
            s.a, s.b = float(rng.uniform(120, 200)), float(rng.uniform(80, 110))
            if drop[k]:
                if droppers == 'nan':
                    s.psf_a = s.psf_b = s.psf_pa = float('nan')
                elif droppers == 'compact':
                    s.a, s.b = float(rng.uniform(31, 40)), float(rng.uniform(21, 26))     # barely above the psf
                elif droppers == 'zero':
                    s.psf_a, s.psf_b = 0.0, 0.0
                elif droppers == 'negative':
                    s.psf_a = -30.0
                elif droppers == 'zero_b':
                    s.psf_b = 0.0
    work = scratch_dir()
    try:
        ext = case.get('ext', 'csv')
        inp = os.path.join(work, 'in_comp.' + ext)
        um = case.get('uuids', 'unique')
        names = _write_csv(inp, srcs, drop_psf=nopsf, delimiter=',' if ext == 'csv' else '\t',
                           drop=('uuid',) if um == 'missing' else ())
        if um != 'unique':
            o.count('aereg_runs_uuids_' + um)
        # one or several output tables in one run (--table a.csv,b.vot,...), possibly onto stale files of those names
        tables = case.get('tables', ['csv'])
        outs = [os.path.join(work, 'out.' + e) for e in tables]
        out = ','.join(outs)
        STALE = b'stale file from an earlier run\n'
        if case.get('stale'):
            for e in tables:
                with open(os.path.join(work, 'out_comp.' + e), 'wb') as f:
                    f.write(STALE)
        if len(tables) > 1:
            o.count('aereg_runs_several_tables')
            o.count('aereg_output_tables_requested', len(tables))
        argv = ['--input', inp, '--table', out, '--eps', repr(case['eps_arcmin'])]
        ratio = case.get('ratio')
        psfheader = bool(case.get('psfheader'))
        regrouping = not case.get('noregroup')
        if ratio is not None:
            argv += ['--ratio', repr(ratio)]
        if psfheader:
            # a FITS file whose header carries the *target* psf (BMAJ/BMIN/BPA) and WCS, centred on the catalogue
            from astropy.io import fits
            from aegmon.refs import wcs_zenithal as wz
            hdr = wz.make_header(crval=(float(ra[0]), float(dec[0])), crpix=(16, 16), cdelt=(-0.01, 0.01), shape=(32, 32),
                                 beam=IMAGE_BEAM)
            pf = os.path.join(work, 'target_psf.fits')
            fits.writeto(pf, np.zeros((32, 32), dtype=np.float32), hdr)
            argv += ['--psfheader', pf]
        if not regrouping:
            argv += ['--noregroup']
        if case.get('debug'):
            argv += ['--debug']
        if case.get('options_first'):
            argv = argv[4:] + argv[:4]
        shown = ' '.join(a if not a.startswith(work) else os.path.basename(a) for a in argv if a not in (inp, out, '--input', '--table'))
        if len(tables) > 1 or case.get('stale'):
            shown += ' --table ' + ','.join('out.' + e for e in tables) + (' (onto stale files)' if case.get('stale') else '')
        ctx = {'entry': 'AeReg', 'argv': shown, 'eps_arcmin': case['eps_arcmin'], 'psf_columns': not nopsf}
        if droppers:
            ctx['rows_to_drop'] = droppers
        for opt in ('--ratio', '--psfheader', '--noregroup', '--debug'):
            if opt in argv:
                o.count('aereg_runs_with_' + opt.lstrip('-'))
        ratio_used = ratio if (ratio is not None and not psfheader) else None
        shapes_may_change = psfheader or (ratio_used is not None and ratio_used != 1)
        known = np.array([np.isfinite(s.psf_a) and np.isfinite(s.psf_b) for s in srcs])
        # rows that must be written (only what the statement / the documented exclusions give):
        if not shapes_may_change:
            must = np.ones(n, dtype=bool)                    # no rescaling, or ratio 1 = identity
        elif psfheader:
            must = known & np.array([s.psf_a > 0 and s.psf_b > 0 for s in srcs])   # documented exclusions: psf <= 0 / unknown
        elif ratio_used > 1:
            must = known                                     # a larger ratio never shrinks (so never loses) a source
        else:
            must = np.zeros(n, dtype=bool)                   # ratio < 1: only what is written is judged
        mech = 'resize-unknown-psf' if (nopsf and ratio == 1) else None
        try:
            with warnings.catch_warnings():
                warnings.simplefilter('ignore')
                rc = AeReg.main(argv)
        except BaseException as e:
            if isinstance(e, (KeyboardInterrupt, MemoryError)):
                raise
            o.violate('raises', dict(ctx, n=n, traceback=traceback.format_exc()[-600:]), mech)
            return
        o.n_eval += 1
        o.count('aereg_runs')
        # every requested table must exist afresh
        for e in tables:
            f_ = os.path.join(work, 'out_comp.' + e)
            fresh = os.path.exists(f_) and open(f_, 'rb').read(len(STALE)) != STALE
            if rc != 0 or not fresh:
                o.violate('no_output', dict(ctx, returncode=rc, table='out.' + e, exists=os.path.exists(f_),
                                            stale_content_left=os.path.exists(f_) and not fresh,
                                            files=sorted(os.listdir(work))), mech)
                return
        primary = [e for e in tables if e in ('csv', 'tab')][0]
        res = os.path.join(work, 'out_comp.' + primary)
        t = ascii.read(res)
        # the other tables must hold the same regrouped catalogue (row ids, labels); the primary is judged in full below
        for e in tables:
            if e == primary:
                continue
            from astropy.table import Table
            with warnings.catch_warnings():
                warnings.simplefilter('ignore')
                t2 = ascii.read(os.path.join(work, 'out_comp.' + e)) if e in ('csv', 'tab', 'tex') else \
                    Table.read(os.path.join(work, 'out_comp.' + e))
            lab1 = sorted((str(r_), int(i_), int(s_)) for r_, i_, s_ in zip(t['ra_str'], t['island'], t['source']))
            lab2 = sorted((str(r_), int(i_), int(s_)) for r_, i_, s_ in zip(t2['ra_str'], t2['island'], t2['source']))
            o.count('aereg_secondary_tables_checked')
            if lab1 != lab2:
                o.violate('output_tables_differ', dict(ctx, table='out.' + e, rows=[len(t), len(t2)],
                                                       first_difference=[x for x in zip(lab1, lab2) if x[0] != x[1]][:2]))
                return
        if um != 'unique':
            ctx['uuids_of_input'] = um
        uu = [str(u) for u in t['ra_str']]
        byid = {u: k for k, u in enumerate(uu)}
        inputs = {s.ra_str: k for k, s in enumerate(srcs)}
        missing = [k for k in range(n) if must[k] and srcs[k].ra_str not in byid]
        if len(byid) != len(uu) or any(u not in inputs for u in uu) or missing:
            dup = sorted(set(u for u in uu if uu.count(u) > 1))
            o.violate('rows_lost_or_duplicated', dict(ctx, rows_in_input=n, rows_in_output=len(t),
                                                      must_be_written_but_missing=missing[:5], rows_written_twice=dup[:5]), mech)
            return
        # ---- from here on the WRITTEN table alone is judged
        W = np.array([k for k in range(n) if srcs[k].ra_str in byid], dtype=int)
        o.count('aereg_rows_written', len(W))
        o.count('aereg_rows_dropped', n - len(W))
        if droppers:
            o.see('aereg_dropper_kinds', '%s with %s' % (droppers, '--psfheader' if psfheader else '--ratio %s' % ratio))
        if len(W) == 0:
            raise RuntimeError('harness: every row was dropped, nothing to judge')

        class Row:
            pass
        rows = []
        for k in W:
            s = srcs[k]
            r = Row()
            q = byid[s.ra_str]
            r.island, r.source, r.peak_flux = int(t['island'][q]), int(t['source'][q]), float(t['peak_flux'][q])
            rows.append(r)
            for nm in names:
                if nm in ('island', 'source') or (nm == 'uuid' and um in ('missing', 'empty')):
                    continue
                v, w = getattr(s, nm), t[nm][q]
                same = (str(w) == v) if isinstance(v, str) else (float(w) == float(v) or (v != v and not np.isfinite(float(w))))
                if nm in ('a', 'b') and shapes_may_change:
                    # rescaling is allowed to change the shape; a ratio > 1 (used, i.e. without --psfheader) never shrinks
                    if ratio_used is not None and ratio_used > 1 and not float(w) >= v * (1 - 1e-12):
                        o.violate('larger_ratio_shrinks', dict(ctx, attribute=nm, before=repr(v), after=repr(w)))
                        return
                    if not np.isfinite(float(w)):
                        o.violate('non_finite_shape_written', dict(ctx, attribute=nm, before=repr(v), after=repr(w)))
                        return
                    continue
                if not same and not (nm in ('a', 'b') and abs(float(w) - v) <= 1e-12 * v):
                    o.violate('attribute_changed', dict(ctx, attribute=nm, before=repr(v), after=repr(w)))
                    return
        if not regrouping:
            # --noregroup: the labels of the input catalogue are kept
            for k, r in zip(W, rows):
                s = srcs[k]
                if (r.island, r.source) != (s.island, s.source):
                    o.violate('noregroup_changes_labels', dict(ctx, before=[s.island, s.source], after=[r.island, r.source]))
                    return
            o.count('aereg_noregroup_rows_checked', len(W))
            o.n_nontrivial += 1
            o.sample = {'argv': shown, 'n': n, 'written': len(W)}
            return
        # rebuild the groups from the island numbers of the written table; oracle over the written rows only
        gd = {}
        for r in rows:
            gd.setdefault(r.island, []).append(r)
        groups = list(gd.values())
        raW, decW = ra[W], dec[W]
        orc = _oracle(raW, decW, theta)
        _count_entry_pairs(o, orc, theta, 'aereg')
        if shapes_may_change:
            _count_entry_pairs(o, orc, theta, 'aereg_rescaled')
        if len(W) < n:
            # what the dropped rows were: members of multi-source groups, bridges whose removal splits a group
            full = _oracle(ra, dec, theta)[0]
            sub = dict(zip(W.tolist(), orc[0].tolist()))
            for k in range(n):
                if k in sub:
                    continue
                mates = [m for m in np.flatnonzero(full == full[k]).tolist() if m != k]
                if mates:
                    o.count('aereg_dropped_group_members')
                    if len(set(sub[m] for m in mates if m in sub)) > 1:
                        o.count('aereg_dropped_bridges')
                    brightest = all(flux[k] > flux[m] for m in mates)
                    if brightest:
                        o.count('aereg_dropped_brightest_of_group')
        # _judge_partition identifies sources by object identity: use the Row objects
        ctxw = dict(ctx, rows_written=len(W), rows_in_input=n)
        subj = _judge_partition(o, groups, rows, raW, decW, theta, orc, ctxw, 'aereg')
        if subj is not None:
            _judge_numbering(o, groups, ctxw)
        o.n_nontrivial += 1
        o.sample = {'argv': shown, 'n': n, 'written': len(W), 'groups': len(groups), 'oracle_groups': len(set(orc[0].tolist()))}
    finally:
        shutil.rmtree(work, ignore_errors=True)


class _StopAfterRegroup(Exception):
    pass


def _run_priorized(o, case):
    from astropy.io import fits
    from aegmon.refs import wcs_zenithal as wz
    import AegeanTools.cluster as cl
    from AegeanTools.source_finder import SourceFinder
    rng = rng_for(*case['seed'])
    base = (float(rng.uniform(0, 360)), float(rng.uniform(-30, 10)))
    case = dict(case, base=base)
    ra, dec, flux, theta = _entry_catalogue(case, rng)
    n = len(ra)
    nopsf = case.get('nopsf', False)
    srcs = _sources(ra, dec, np.abs(flux), rng, psf='nan' if nopsf else 'known')
    for s in srcs:
        if not nopsf:
            s.psf_a, s.psf_b, s.psf_pa = 72.0, 54.0, 0.0   # = the image beam: resizing leaves shapes alone
    work = scratch_dir()
    box = {}
    orig = cl.regroup_dbscan

    def spy(srccat, eps=4):
        groups = orig(srccat, eps=eps)
        box['groups'] = groups
        box['eps'] = float(eps)
        box['input'] = list(srccat)
        raise _StopAfterRegroup()          # the fitting that follows is not part of this property

    try:
        h = wz.make_header(crval=base, crpix=(16, 16), cdelt=(-0.01, 0.01), shape=(32, 32), beam=(0.02, 0.015, 0.0))
        img = os.path.join(work, 'im.fits')
        fits.writeto(img, np.zeros((32, 32), dtype=np.float32), h)
        ctx = {'entry': 'priorized', 'eps_arcmin': case['eps_arcmin'], 'psf_columns': not nopsf}
        cl.regroup_dbscan = spy
        try:
            with warnings.catch_warnings():
                warnings.simplefilter('ignore')
                sf = SourceFinder(log=logging.getLogger('aegmon.c19'))
                sf.priorized_fit_islands(img, catalogue=srcs, rms=1.0, bkg=0.0, cores=1, regroup_eps=case['eps_arcmin'],
                                         doregroup=True)
        except _StopAfterRegroup:
            pass
        except Exception:
            o.violate('raises', dict(ctx, n=n, traceback=traceback.format_exc()[-600:]),
                      'resize-unknown-psf' if nopsf else None)
            return
        finally:
            cl.regroup_dbscan = orig
        if 'groups' not in box:
            raise RuntimeError('priorized_fit_islands did not reach regroup_dbscan (monitor point lost)')
        o.n_eval += 1
        o.count('priorized_runs')
        if len(box['input']) != n:
            o.violate('sources_dropped_before_regroup', dict(ctx, n=n, passed_on=len(box['input'])),
                      'resize-unknown-psf' if nopsf else None)
            return
        orc = _oracle(ra, dec, theta)
        _count_entry_pairs(o, orc, theta, 'priorized')
        o.worst('chord_passed_over_exact_chord_minus_1_abs', abs(box['eps'] / (2 * np.sin(np.radians(theta) / 2)) - 1))
        subj = _judge_partition(o, box['groups'], srcs, ra, dec, theta, orc, dict(ctx, chord_passed=box['eps']), 'priorized')
        if subj is not None:
            _judge_numbering(o, box['groups'], ctx)
        o.n_nontrivial += 1
        o.sample = {'regroup_eps_arcmin': case['eps_arcmin'], 'chord_passed': box['eps'], 'n': n,
                    'groups': len(box['groups']), 'oracle_groups': len(set(orc[0].tolist()))}
    finally:
        cl.regroup_dbscan = orig
        shutil.rmtree(work, ignore_errors=True)


# ----------------------------------------------------------------------------- workload
OFFSETS = [1e-3, 1e-4, 1e-5, 1e-6, 1e-7]
ENTRY_EPS = [0.1, 0.5, 1.0, 4.0, 10.0, 30.0, 60.0, 120.0]


def cases(seed, tier):
    quick = tier == 'quick'
    out = []
    # ---- targeted, seed independent
    for e in ENTRY_EPS:
        out.append({'kind': 'aereg', 'eps_arcmin': e, 'offsets': OFFSETS, 'seed': [0, 'aereg', e]})
        out.append({'kind': 'priorized', 'eps_arcmin': e, 'offsets': OFFSETS, 'seed': [0, 'priorized', e]})
    out.append({'kind': 'aereg', 'eps_arcmin': 4.0, 'offsets': OFFSETS, 'ratio': 1.0, 'seed': [0, 'aereg', 'ratio1']})
    out.append({'kind': 'aereg', 'eps_arcmin': 4.0, 'offsets': OFFSETS, 'ratio': 1.0, 'nopsf': True,
                'seed': [0, 'aereg', 'ratio1', 'nopsf']})
    out.append({'kind': 'aereg', 'eps_arcmin': 2.0, 'offsets': OFFSETS, 'ext': 'tab', 'seed': [0, 'aereg', 'tab']})
    # the options of the command line: the table written must be the partition for the --eps the user gave,
    # whatever rescaling is asked for (regroup_dbscan links positions, not shapes)
    for e in (0.5, 4.0, 30.0):
        for r in (2.0, 1.0001, 5.0):
            out.append({'kind': 'aereg', 'eps_arcmin': e, 'offsets': OFFSETS, 'ratio': r, 'seed': [0, 'aereg', 'ratio', e, r]})
    for e in (0.5, 2.0):
        out.append({'kind': 'aereg', 'eps_arcmin': e, 'offsets': OFFSETS, 'psfheader': True, 'seed': [0, 'aereg', 'psfh', e]})
        out.append({'kind': 'aereg', 'eps_arcmin': e, 'offsets': OFFSETS, 'psfheader': True, 'ratio': 3.0, 'debug': True,
                    'seed': [0, 'aereg', 'psfh+ratio', e]})
    out.append({'kind': 'aereg', 'eps_arcmin': 4.0, 'offsets': OFFSETS, 'noregroup': True, 'seed': [0, 'aereg', 'noregroup']})
    out.append({'kind': 'aereg', 'eps_arcmin': 4.0, 'offsets': OFFSETS, 'noregroup': True, 'ratio': 2.0, 'options_first': True,
                'seed': [0, 'aereg', 'noregroup', 'ratio']})
    out.append({'kind': 'aereg', 'eps_arcmin': 1.0, 'offsets': OFFSETS, 'noregroup': True, 'psfheader': True,
                'seed': [0, 'aereg', 'noregroup', 'psfh']})
    out.append({'kind': 'aereg', 'eps_arcmin': 10.0, 'offsets': OFFSETS, 'ratio': 2.0, 'debug': True, 'options_first': True,
                'ext': 'tab', 'seed': [0, 'aereg', 'ratio', 'debug']})
    # rows the tool must DROP when rescaling (unknown psf, psf <= 0, too compact for a ratio < 1), placed as bridges
    # of chains and inside multi-source groups: the written table alone must be a correct regrouping
    for e in (1.0, 4.0):
        for dr, opts in (('nan', {'ratio': 2.0}), ('nan', {'ratio': 0.5}), ('compact', {'ratio': 0.5}),
                         ('compact', {'ratio': 0.7}), ('zero', {'psfheader': True}), ('negative', {'psfheader': True}),
                         ('zero_b', {'psfheader': True, 'ratio': 2.0}), ('compact', {'ratio': 2.0}),
                         ('nan', {'ratio': 1.0}), ('zero', {'ratio': 3.0}), ('compact', {'ratio': 0.5, 'noregroup': True}),
                         ('nan', {})):
            c = {'kind': 'aereg', 'eps_arcmin': e, 'droppers': dr, 'seed': [0, 'aereg', 'drop', e, dr, sorted(opts.items())]}
            c.update(opts)
            out.append(c)
    # input tables whose rows share a uuid (concatenated epochs), carry no uuid column, or empty uuids
    for um in ('shared', 'all_same', 'missing', 'empty'):
        out.append({'kind': 'aereg', 'eps_arcmin': 2.0, 'offsets': OFFSETS, 'uuids': um, 'seed': [0, 'aereg', 'uuid', um]})
        out.append({'kind': 'aereg', 'eps_arcmin': 1.0, 'droppers': 'compact', 'ratio': 0.5, 'uuids': um,
                    'seed': [0, 'aereg', 'uuid-drop', um]})
    out.append({'kind': 'aereg', 'eps_arcmin': 4.0, 'offsets': OFFSETS, 'uuids': 'shared', 'noregroup': True,
                'seed': [0, 'aereg', 'uuid', 'noregroup']})
    out.append({'kind': 'aereg', 'eps_arcmin': 4.0, 'offsets': OFFSETS, 'uuids': 'shared', 'ratio': 2.0,
                'seed': [0, 'aereg', 'uuid', 'ratio']})
    # several output tables in one run, also onto stale files of the same names
    for k, (tb, extra) in enumerate(((['csv', 'vot'], {}), (['vot', 'csv'], {'stale': True}), (['csv', 'fits', 'tab'], {'stale': True}),
                                     (['fits', 'tab', 'vot'], {'ratio': 2.0}), (['xml', 'csv'], {'noregroup': True}),
                                     (['tab', 'csv'], {'droppers': 'compact', 'ratio': 0.5, 'stale': True}),
                                     (['csv'], {'stale': True}))):
        c = {'kind': 'aereg', 'eps_arcmin': 2.0, 'offsets': OFFSETS, 'tables': tb, 'seed': [0, 'aereg', 'tables', k]}
        c.update(extra)
        out.append(c)
    # ratio < 1 on the ordinary threshold catalogues (only what is written is judged)
    for e in (0.5, 4.0, 30.0):
        out.append({'kind': 'aereg', 'eps_arcmin': e, 'offsets': OFFSETS, 'ratio': 0.8, 'seed': [0, 'aereg', 'ratio<1', e]})
    out.append({'kind': 'priorized', 'eps_arcmin': 4.0, 'offsets': OFFSETS, 'nopsf': True, 'seed': [0, 'priorized', 'nopsf']})
    for th_arcmin in (0.001, 0.01, 0.1, 1.0, 4.0, 30.0, 120.0, 600.0):
        # API level, kd-tree regime (> 11 rows) and tiny catalogues (<= 11 rows)
        out.append({'kind': 'dbscan', 'cat': 'threshold', 'theta_deg': th_arcmin / 60, 'offsets': OFFSETS + [1e-8],
                    'shuffles': 5, 'seed': [0, 'thr', th_arcmin]})
        for d in (1e-3, 1e-5, 1e-7):
            out.append({'kind': 'dbscan', 'cat': 'threshold', 'theta_deg': th_arcmin / 60, 'offsets': [d], 'chains': False,
                        'shuffles': 2, 'seed': [0, 'thr-tiny', th_arcmin, d]})
    for sgn in (1, -1):
        out.append({'kind': 'dbscan', 'cat': 'pole', 'pole': sgn, 'n': 120, 'theta_deg': 0.0015, 'seed': [0, 'pole', sgn]})
    out.append({'kind': 'dbscan', 'cat': 'wrap', 'n': 150, 'theta_deg': 0.05, 'seed': [0, 'wrap', 0]})
    out.append({'kind': 'dbscan', 'cat': 'wrap', 'n': 150, 'theta_deg': 0.5, 'dec0': 60.0, 'seed': [0, 'wrap', 1]})
    out.append({'kind': 'dbscan', 'cat': 'duplicates', 'n': 90, 'theta_deg': 0.02, 'equal_flux': True, 'seed': [0, 'dup', 0]})
    out.append({'kind': 'dbscan', 'cat': 'duplicates', 'n': 12, 'theta_deg': 1.0, 'equal_flux': True, 'seed': [0, 'dup', 1]})
    out.append({'kind': 'dbscan', 'cat': 'single', 'n': 1, 'theta_deg': 0.1, 'shuffles': 1, 'seed': [0, 'single']})
    for k, th in enumerate((0.001, 0.07, 2.0)):
        out.append({'kind': 'dbscan', 'cat': 'chains', 'n': 200, 'theta_deg': th, 'seed': [0, 'chains', k]})
    # linking lengths at / above the diameter of the sphere, and the default argument of regroup_dbscan
    for ec in (None, 2.0, 2.5, 4, 4.0, 10.0, 1e6):
        for cat, n, anti in (('clustered', 200, False), ('sparse', 60, True), ('sparse', 8, False), ('sparse', 2, True),
                             ('sparse', 1, False), ('clustered', 12, False)):
            out.append({'kind': 'dbscan_whole_sphere', 'cat': cat, 'n': n, 'antipodal': anti, 'eps_chord': ec,
                        'seed': [0, 'whole', repr(ec), cat, n]})
    # elliptical variant on fields that straddle RA 0/360 and that surround a pole (attribute preservation!)
    for k, (ra0, dec0) in enumerate(((0.0, 0.0), (359.99, -40.0), (0.02, 62.0), (0.0, 89.7), (123.0, -89.8), (0.0, -75.0))):
        for n in (6, 40):
            out.append({'kind': 'elliptical', 'n': n, 'eps': 3.0, 'far': 0.5, 'scatter': 0.03, 'field': 0.5,
                        'ra0': ra0, 'dec0': dec0, 'seed': [0, 'ell-wrap', k, n]})
    # polar caps (within 0.5 deg of each pole), scatter comparable with the linking scale so that many pairs sit
    # near norm_dist = eps
    for k, dec0 in enumerate((89.75, -89.75, 89.9, -89.9, 89.6, -89.6)):
        for n, sc in ((30, 0.08), (60, 0.05), (12, 0.12)):
            out.append({'kind': 'elliptical', 'n': n, 'eps': 3.0, 'far': 0.5, 'scatter': sc, 'field': 0.1,
                        'ra0': 40.0 * k, 'dec0': dec0, 'seed': [0, 'ell-cap', k, n]})
    for k, dec0 in enumerate((-66.0, 66.0, 0.0, -85.0)):
        out.append({'kind': 'elliptical', 'n': 40, 'eps': 3.0, 'far': 0.5, 'scatter': 0.08, 'field': 0.3,
                    'dec0': dec0, 'seed': [0, 'ell-mid', k]})
    for psf in ('known', 'nan'):
        for n in (1, 5, 40):
            out.append({'kind': 'resize', 'n': n, 'psf': psf, 'ratio': 1, 'seed': [0, 'resize', psf, n]})
            out.append({'kind': 'resize', 'n': n, 'psf': psf, 'ratio': 1.0, 'seed': [0, 'resize1.0', psf, n]})
    # the way priorized_fit_islands calls it: ratio together with the image's psf helper; catalogue psf columns
    # larger than / smaller than / equal to the image beam, absent, or present for some sources only
    for psf in ('larger', 'smaller', 'equal', 'nan', 'mixed_first_known', 'mixed_first_nan', 'known'):
        for n in (1, 12):
            for ratio in (1, 1.0, 2.5):
                out.append({'kind': 'resize', 'n': n, 'psf': psf, 'ratio': ratio, 'helper': True,
                            'seed': [0, 'resize-helper', psf, n, repr(ratio)]})
        out.append({'kind': 'resize', 'n': 12, 'psf': psf, 'ratio': 1.5, 'seed': [0, 'resize-nohelper', psf]})
    # ---- seeded random sample
    reps = 10 if quick else 1500
    for k in range(reps):
        rng = rng_for(seed, 'plan', k)
        for cat in ('sparse', 'clustered', 'chains', 'duplicates', 'wrap', 'pole'):
            n = int(rng.choice([2, 3, 8, 11, 12, 30, 100, 250, 500]))
            th = float(10 ** rng.uniform(-4.5, 1.3)) if cat not in ('pole',) else float(10 ** rng.uniform(-4, -2))
            if cat == 'sparse':
                # so that a fair fraction of the sources has a neighbour within theta
                th = float(np.degrees(np.sqrt(4.0 / max(n, 2)) * rng.uniform(0.3, 1.2)))
            out.append({'kind': 'dbscan', 'cat': cat, 'n': n, 'theta_deg': th, 'equal_flux': bool(k % 2),
                        'pole': 1 if k % 2 else -1, 'seed': [seed, 'rand', cat, k]})
        out.append({'kind': 'dbscan', 'cat': 'threshold', 'theta_deg': float(10 ** rng.uniform(-4, 1)),
                    'offsets': [float(10 ** rng.uniform(-8, -3)) for _ in range(12)], 'pad': 12,
                    'shuffles': 5, 'seed': [seed, 'rand-thr', k]})
        for j in range(2):
            out.append({'kind': 'elliptical', 'n': int(rng.choice([2, 5, 20, 60, 150])), 'eps': float(rng.uniform(0.5, 6)),
                        'far': float(rng.choice([0.5, 0.1, 5.0])), 'scatter': float(10 ** rng.uniform(-2.5, -1)),
                        'equal_flux': bool(j), 'seed': [seed, 'ell', k, j]})
        out.append({'kind': 'elliptical', 'n': int(rng.choice([3, 10, 50])), 'eps': float(rng.uniform(0.5, 6)), 'far': 0.5,
                    'scatter': float(10 ** rng.uniform(-2.5, -1)), 'field': 0.8,
                    'ra0': float(rng.choice([0.0, 359.9, 0.1])) if k % 2 else None,
                    'dec0': None if k % 2 else float(rng.choice([89.6, -89.6])), 'seed': [seed, 'ell-wrap', k]})
        out.append({'kind': 'dbscan_whole_sphere', 'cat': ('clustered', 'sparse')[k % 2], 'n': int(rng.choice([2, 9, 40, 300])),
                    'antipodal': bool(k % 3 == 0), 'eps_chord': [None, 2.0, float(rng.uniform(2.0, 3.0)), 4, 60.0][k % 5],
                    'seed': [seed, 'whole', k]})
        out.append({'kind': 'resize', 'n': int(rng.integers(1, 200)), 'psf': 'known', 'ratio': float(rng.uniform(1, 10)),
                    'seed': [seed, 'resize-r', k]})
        out.append({'kind': 'resize', 'n': int(rng.integers(1, 200)), 'psf': ('known', 'nan')[k % 2], 'ratio': 1,
                    'seed': [seed, 'resize-1', k]})
        modes = ['larger', 'smaller', 'equal', 'nan', 'mixed_first_known', 'mixed_first_nan', 'known']
        out.append({'kind': 'resize', 'n': int(rng.integers(1, 100)), 'psf': modes[k % 7], 'helper': True,
                    'ratio': 1 if k % 3 else float(rng.uniform(1, 10)), 'seed': [seed, 'resize-h', k]})
        e = float(10 ** rng.uniform(-1, np.log10(120)))
        offs = [float(10 ** rng.uniform(-7, -3)) for _ in range(8)]
        out.append({'kind': 'aereg', 'eps_arcmin': e, 'offsets': offs, 'seed': [seed, 'aereg-r', k]})
        e2 = float(10 ** rng.uniform(-1, np.log10(3.0)))
        out.append({'kind': 'aereg', 'eps_arcmin': e2 if k % 3 == 1 else e, 'offsets': offs,
                    'ratio': [float(rng.uniform(1.0, 6.0)), None, float(rng.uniform(1.0, 2.0))][k % 3],
                    'psfheader': k % 3 == 1, 'noregroup': k % 5 == 4, 'debug': bool(k % 2),
                    'tables': [['csv'], ['vot', 'tab'], ['csv', 'fits'], ['tab', 'xml', 'csv']][k % 4], 'stale': k % 2 == 0,
                    'seed': [seed, 'aereg-opt', k]})
        dr = ['nan', 'compact', 'zero', 'negative', 'zero_b'][k % 5]
        out.append({'kind': 'aereg', 'eps_arcmin': float(10 ** rng.uniform(-0.5, 0.8)), 'droppers': dr,
                    'ratio': None if dr in ('zero', 'negative', 'zero_b') else float(rng.choice([0.4, 0.6, 0.9, 1.5, 4.0])
                                                                                     if dr == 'nan' else rng.uniform(0.35, 0.8)),
                    'psfheader': dr in ('zero', 'negative', 'zero_b'), 'uuids': ['unique', 'shared', 'missing'][k % 3],
                    'seed': [seed, 'aereg-drop', k]})
        out.append({'kind': 'priorized', 'eps_arcmin': e, 'offsets': offs, 'seed': [seed, 'prio-r', k]})
    return out


def run(case):
    sphere.selfcheck()
    logging.disable(logging.CRITICAL)          # AeReg configures root logging at INFO; keep the pipes quiet
    o = Obs()
    kind = case['kind']
    if kind == 'dbscan':
        _run_dbscan(o, case)
    elif kind == 'elliptical':
        _run_elliptical(o, case)
    elif kind == 'dbscan_whole_sphere':
        _run_dbscan_whole_sphere(o, case)
    elif kind == 'resize':
        _run_resize(o, case)
    elif kind == 'aereg':
        _run_aereg(o, case)
    elif kind == 'priorized':
        _run_priorized(o, case)
    else:
        raise ValueError(kind)
    o.see('kinds', kind)
    return o.result()
