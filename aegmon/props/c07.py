"""C07 - BANE always terminates, is schedule-independent and fails cleanly.

Instruments: the guarded hook points in BANE.sigma_filter (event log + delay/fault plan), a SharedMemory subclass
inherited through fork (create/unlink record, sentinel pre-fill), process scans, and a watchdog that only calls a
run hung on a deadlock certificate built from stack dumps of every process of the run (aegmon.bane_harness).
"""
import itertools
import os
import shutil

import numpy as np

from aegmon import bane_harness as bh
from aegmon.common import Obs, rng_for, scratch_dir

ID = 'C07'
LEVEL = 'fault_enumeration'
USE_REACH = False       # the deciding code runs in grandchildren; reach is shown by the hook event counts instead
RULE = ('case kinds: config = (rows, grid, box, cores, stripes) sweeps on 20-column noise images (always containing the '
        'families stripes > cores and realised stripes > requested); schedule = for a k-stripe layout every permutation '
        'of arrival (delay before the barrier) x departure (delay after the barrier) order at both synchronisation '
        'points, compared bit-for-bit with an undelayed reference; workers = same layout, different pool sizes; '
        'stripes = stripe-count sweep on noise+gradient+offset images; fault = one injected failure (raise / hard '
        'exit) per stripe x hook point; blank = images with a band of blank rows wide enough that a whole stripe and its '
        'margins hold no finite pixel, mask pass on and off; slow = one stripe held back 33-125 s at the start or just '
        'before a barrier (bit-identical result required).  An evaluation is one call of BANE.filter_image in a fresh process; it is '
        'non-trivial when the event log shows >= 2 stripes ran (or a fault/hang was observed); distinct = distinct '
        '(kind, layout, plan) tuples.')
ASSUMPTIONS = ['hook event timestamps come from CLOCK_MONOTONIC which is system-wide on Linux',
               'a deadlock certificate = two identical rounds of faulthandler stack dumps 1 s apart in which every '
               'process of the run is blocked (workers in Barrier.wait or idle, parent in AsyncResult.get) while the '
               'event log does not move; a watchdog firing without certificate is inconclusive',
               'interleavings inside numpy or inside multiprocessing internals are not controlled']
MIN_COUNTERS = {'faults_of_other_exception_classes_surfaced': 3, 'stripe_sweeps_with_non_square_box': 3, 'blank_band_runs': 6, 'blank_band_runs_with_a_wholly_blank_stripe': 2, 'slow_stripe_runs': 2, 'interrupts_delivered': 2, 'schedule_cases_with_sliver_stripe': 2, 'runs_ok': 20, 'hook_events': 200, 'multi_stripe_runs': 10}
BATCHES_PER_JOB = 4
KNOWN_EXIT = 'worker-killed-without-raising'


# ------------------------------------------------------------------------------------------ images
def _image(rows, cols, seed, kind='noise'):
    rng = rng_for('c07img', rows, cols, seed)
    img = rng.normal(0.0, 1.0, (rows, cols))
    if kind == 'sloped':
        yy, xx = np.mgrid[0:rows, 0:cols]
        img = img + 100.0 + 0.05 * yy + 0.02 * xx
    return img.astype(np.float32)


# ------------------------------------------------------------------------------------------ cases
def _layout(rows, grid, nslice):
    """the stripe layout the statement talks about is implementation defined; this only *predicts* which
    configurations realise more stripes than requested so that the sweep is sure to contain them"""
    if nslice <= 1:
        return 1
    width = int(max(rows / nslice / grid, 1) * grid)
    return len(range(0, rows, width))


def cases(seed, tier):
    rng = rng_for(seed, 'c07cases')
    out = []
    # ---- 1. configuration sweep
    confs = []
    grids = [1, 2, 3, 5, 8, 16]
    if tier == 'quick':
        target = 300
        pool = []
        for rows in list(range(1, 131)):
            for g in grids:
                for c in range(1, 7):
                    for s in range(1, 2 * c + 1):
                        pool.append((rows, g, c, s))
        pool = np.array(pool)
        fam_a = pool[pool[:, 3] > pool[:, 2]]                                   # stripes > cores
        fam_b = np.array([p for p in pool[rng.choice(len(pool), 6000, replace=False)]
                          if _layout(p[0], p[1], p[3] if p[2] > 1 else 1) > (p[3] if p[2] > 1 else 1)])
        pick = [fam_a[i] for i in rng.choice(len(fam_a), target // 3, replace=False)]
        pick += [fam_b[i] for i in rng.choice(len(fam_b), min(len(fam_b), target // 3), replace=False)]
        pick += [pool[i] for i in rng.choice(len(pool), target - len(pick), replace=False)]
        confs = [tuple(int(x) for x in p) for p in pick]
    else:
        for rows in range(1, 131):
            for g in grids:
                for c in range(1, 7):
                    for s in range(1, 2 * c + 1):
                        if rng.random() < 0.25 or s > c or _layout(rows, g, s if c > 1 else 1) > s:
                            confs.append((rows, g, c, s))
        idx = rng.permutation(len(confs))[:9000]
        confs = [confs[i] for i in idx]
    per = 14 if tier == 'quick' else 30
    for i in range(0, len(confs), per):
        out.append({'kind': 'config', 'confs': confs[i:i + per], 'seed': [seed, 'cfg', i]})
    # ---- 2. schedule forcing
    # layouts whose last stripe is a sliver (rows % stripe height in [1, grid)): realised stripes > requested
    for rows, g, k in ([(100, 8, 3), (71, 16, 2)] if tier == 'quick' else [(100, 8, 3), (71, 16, 2), (52, 8, 3), (131, 16, 4)]):
        for phase in (1, 2):
            for rep in range(2 if tier == 'quick' else 6):
                out.append({'kind': 'schedule', 'rows': rows, 'grid': g, 'k': k, 'phase': phase, 'orders': None,
                            'n_orders': 5, 'sliver': True, 'seed': [seed, 'sliver', rows, g, phase, rep]})
    layouts = [(64, 16, 2), (96, 8, 3)] if tier == 'quick' else [(64, 16, 2), (70, 8, 2), (96, 8, 3), (96, 16, 3), (120, 8, 4)]
    for rows, g, k in layouts:
        perms = list(itertools.permutations(range(k)))
        for phase in (1, 2):
            combos = list(itertools.product(perms, perms))
            if tier == 'quick' and k >= 3:
                sel = rng.choice(len(combos), 8, replace=False)
                combos = [combos[i] for i in sel]
            elif k >= 4:
                sel = rng.choice(len(combos), 60, replace=False)
                combos = [combos[i] for i in sel]
            chunk = 6
            for i in range(0, len(combos), chunk):
                out.append({'kind': 'schedule', 'rows': rows, 'grid': g, 'k': k, 'phase': phase,
                            'orders': [[list(a), list(b)] for a, b in combos[i:i + chunk]], 'seed': [seed, 'sch']})
    # ---- 3. worker-count sweep
    for rows, g, k in ([(90, 8, 3), (64, 16, 2)] if tier == 'quick' else [(90, 8, 3), (64, 16, 2), (128, 8, 4), (192, 16, 6)]):
        out.append({'kind': 'workers', 'rows': rows, 'grid': g, 'k': k, 'cores': [1, 2, 3, 4, 6, 8][: 6 if tier != 'quick' else 5],
                    'seed': [seed, 'wrk']})
    # ---- 4. stripe-count sweep
    n4 = 4 if tier == 'quick' else 25
    for i in range(n4):
        out.append({'kind': 'stripes', 'rows': int(rng.integers(120, 260)), 'cols': int(rng.integers(60, 140)),
                    'grid': int(rng.choice([4, 5, 8])), 'box': int(rng.choice([20, 24, 30, 40])),
                    'nslices': [1, 2, 3, 5], 'seed': [seed, 'str', i]})
    # non-square grids and boxes (either axis the longer one): the margin a stripe reads beyond its own rows must be that of the
    # box's ROW extent
    for i in range(4 if tier == 'quick' else 24):
        gy, gx = [(16, 4), (4, 16), (8, 4), (5, 10)][i % 4]
        by, bx = [(64, 16), (16, 64), (48, 12), (20, 60)][i % 4]
        out.append({'kind': 'stripes', 'rows': int(rng.integers(200, 280)), 'cols': int(rng.integers(80, 140)),
                    'grid': [gy, gx], 'box': [by, bx], 'nslices': [1, 2, 3, 4], 'seed': [seed, 'strbox', i]})
    # ---- 5. fault enumeration: every stripe x every hook point x {raise, exit}
    for rows, g, k in ([(64, 16, 2), (96, 8, 3)] if tier == 'quick' else [(64, 16, 2), (96, 8, 3), (120, 8, 4)]):
        for mode in ('raise', 'exit'):
            for stripe_idx in range(k):
                pts = bh.POINTS
                if tier == 'quick' and mode == 'exit':
                    pts = ['start', 'after_barrier1', 'end']      # each costs a watchdog period while the finding is open
                out.append({'kind': 'fault', 'rows': rows, 'grid': g, 'k': k, 'mode': mode, 'stripe_idx': stripe_idx,
                            'points': pts, 'seed': [seed, 'flt']})
    # other exception classes a worker may fail with: an OSError, and a class whose constructor takes two arguments (it
    # cannot be rebuilt from its pickled args in the parent) - the call must still fail cleanly, whatever the class
    for rows, g, k in ([(96, 8, 3)] if tier == 'quick' else [(64, 16, 2), (96, 8, 3), (120, 8, 4)]):
        for mode in ('raise_custom', 'raise_os'):
            for stripe_idx in ((1,) if tier == 'quick' else range(k)):
                out.append({'kind': 'fault', 'rows': rows, 'grid': g, 'k': k, 'mode': mode, 'stripe_idx': stripe_idx,
                            'points': ['start', 'bkg_subtracted'] if tier == 'quick' else bh.POINTS, 'seed': [seed, 'flt2']})
    # ---- 6. interrupt: SIGINT to the whole process group (a terminal ^C) while all stripes are parked after barrier 1
    for rows, g, k in ([(64, 16, 2), (96, 8, 3)] if tier == 'quick' else [(64, 16, 2), (96, 8, 3), (120, 8, 4)]):
        for point in (('after_barrier1', 'bkg_subtracted') if tier == 'quick' else ('start', 'after_barrier1', 'bkg_subtracted', 'after_barrier2')):
            out.append({'kind': 'interrupt', 'rows': rows, 'grid': g, 'k': k, 'point': point, 'seed': [seed, 'int']})
    # ---- 7. blank bands: stripes whose whole cut-out (own rows + margin) holds no finite pixel (mosaic padding), mask on/off
    bl = [(96, 48, 8, 16, 3, 3, 0, 40), (96, 48, 8, 16, 3, 3, 56, 96), (120, 30, 8, 16, 2, 4, 40, 80), (64, 24, 4, 8, 2, 2, 0, 64)]
    if tier != 'quick':
        for i in range(12):
            rows = int(rng.integers(60, 200))
            g = int(rng.choice([4, 8, 16]))
            k = int(rng.integers(2, 6))
            lo = int(rng.integers(0, rows // 2))
            hi = int(min(rows, lo + rng.integers(rows // 3, rows)))
            bl.append((rows, int(rng.integers(20, 60)), g, 2 * g, int(rng.integers(2, 5)), k, lo, hi))
    out.append({'kind': 'blank', 'confs': bl[:4], 'seed': [seed, 'blank', 0]})
    for i in range(4, len(bl), 4):
        out.append({'kind': 'blank', 'confs': bl[i:i + 4], 'seed': [seed, 'blank', i]})
    # ---- 8. one slow stripe: a stripe reaching a synchronisation point (or the start) tens of seconds after the others
    #         (a big image with one cheap stripe, a loaded machine) must only make the call slower
    for (pt, d) in ([('start', 41.0), ('rms_written', 33.0)] if tier == 'quick' else
                    [('start', 41.0), ('bkg_written', 33.0), ('rms_written', 33.0), ('start', 125.0), ('bkg_written', 95.0)]):
        out.append({'kind': 'slow', 'rows': 96, 'grid': 8, 'k': 3, 'point': pt, 'delay': d, 'seed': [seed, 'slow', pt, d]})
    return out


# ------------------------------------------------------------------------------------------ monitors
def _judge_ok_run(o, spec, rec, what):
    """monitors applied to every run that was expected to complete"""
    st = rec.get('status')
    wit = {'what': what, 'config': {k: spec.get(k) for k in ('grid', 'box', 'cores', 'nslice', 'plan')},
           'image_shape': spec.get('shape')}
    if st == 'hang':
        cert = dict(rec['certificate'])
        cert.pop('sample_stack', None)
        wit['certificate'] = cert
        o.count('hang_certificates')
        o.violate('hang', wit, None)
        return None
    if st == 'stuck':
        o.count('watchdog_without_certificate')
        raise RuntimeError('watchdog fired without a deadlock certificate (inconclusive): %r' % (rec,))
    if st == 'crashed':
        raise RuntimeError('bane child crashed: %r' % (rec,))
    if st == 'raised':
        wit['exception'] = rec.get('exc')
        o.violate('unexpected_exception', wit)
        _judge_cleanup(o, rec, wit)
        return None
    o.count('runs_ok')
    ret = rec['returned']
    if ret['bkg_shape'] != list(spec['shape']) or ret['rms_shape'] != list(spec['shape']):
        o.violate('shape', dict(wit, returned=ret))
    if ret['sentinel_bkg'] or ret['sentinel_rms']:
        o.violate('pixel_never_written', dict(wit, unwritten_bkg=ret['sentinel_bkg'], unwritten_rms=ret['sentinel_rms']))
    _judge_cleanup(o, rec, wit)
    ev = bh.parse_log(spec['log'])
    o.count('hook_events', len(ev))
    problems, info = bh.check_log(ev, mask=spec.get('mask', True))
    for p in problems:
        o.violate(p['clause'], dict(wit, **p))
    if len(info['stripes']) >= 2:
        o.count('multi_stripe_runs')
        o.n_nontrivial += 1
    o.see('stripes_realised', len(info['stripes']))
    if spec.get('nslice') and spec.get('cores', 1) > 1 and len(info['stripes']) > spec['nslice']:
        o.count('runs_realised_more_stripes_than_requested')
    if spec.get('cores') and len(info['stripes']) > spec['cores']:
        o.count('runs_stripes_exceed_cores')
    return info


def _judge_cleanup(o, rec, wit):
    if rec.get('leaked'):
        o.violate('shm_leak', dict(wit, leaked=rec['leaked']))
    if rec.get('orphans'):
        # observed, not judged: the statement speaks of termination and of shared memory, not of worker processes
        # (a persistent pool would be a legitimate design); after ^C the unchanged code leaves its closed pool's idle
        # workers to the interpreter's exit handlers
        o.count('runs_with_live_workers_after_the_call')
    o.count('shm_segments_created', len(rec.get('created') or []))


def _same(a, b):
    x = np.load(a)
    y = np.load(b)
    return x.shape == y.shape and x.tobytes() == y.tobytes()


def run(case):
    o = Obs()
    sc = scratch_dir()
    try:
        kind = case['kind']
        if kind == 'config':
            specs = []
            for k, (rows, g, c, s) in enumerate(case['confs']):
                im = os.path.join(sc, 'im_%d.fits' % rows)
                if not os.path.exists(im):
                    bh.write_fits(im, _image(rows, 20, 1))
                box = max(4, 2 * g)
                specs.append({'k': k, 'image': im, 'shape': [rows, 20], 'grid': [g, g], 'box': [box, box],
                              'cores': c, 'nslice': s, 'mask': bool((rows + g + c + s) % 5 != 0)})
                if not specs[-1]['mask']:
                    o.count('config_runs_without_mask_pass')
            res = bh.run_specs(specs, sc)
            for sp in specs:
                o.n_eval += 1
                _judge_ok_run(o, sp, res[sp['k']], 'config sweep (rows, grid, cores, stripes) = %r' % (case['confs'][sp['k']],))
            o.sample = {'confs': case['confs'][:3], 'first_result': {k: v for k, v in res[0].items() if k in ('status', 't', 'returned')}}
        elif kind in ('schedule', 'workers', 'fault', 'interrupt'):
            rows, g, k = case['rows'], case['grid'], case['k']
            im = os.path.join(sc, 'im.fits')
            bh.write_fits(im, _image(rows, 24, 2, 'sloped'))
            box = max(8, 2 * g)
            base = {'image': im, 'shape': [rows, 24], 'grid': [g, g], 'box': [box, box], 'cores': k, 'nslice': k}
            ref = dict(base, k=0, save=os.path.join(sc, 'ref'))
            r0 = bh.run_specs([ref], sc)[0]
            o.n_eval += 1
            info = _judge_ok_run(o, ref, r0, 'undelayed reference run')
            if info is None:
                return o.result()
            stripes = info['stripes']
            if len(stripes) != k and not case.get('sliver'):
                raise RuntimeError('layout (%d,%d,%d) realised %d stripes' % (rows, g, k, len(stripes)))
            if case.get('sliver'):
                if len(stripes) <= k:
                    raise RuntimeError('layout (%d,%d,%d) was meant to realise more stripes than requested' % (rows, g, k))
                o.count('schedule_cases_with_sliver_stripe')
                kk = len(stripes)
                rng = rng_for(*case['seed'])
                case = dict(case, k=kk, orders=[[list(rng.permutation(kk)), list(rng.permutation(kk))] for _ in range(case['n_orders'])])
                case['orders'] = [[[int(v) for v in a], [int(v) for v in b]] for a, b in case['orders']]
                base = dict(base, cores=kk)
            if kind == 'schedule':
                _schedule(o, case, base, stripes, sc)
            elif kind == 'workers':
                specs = [dict(base, k=10 + i, cores=c, save=os.path.join(sc, 'w%d' % i)) for i, c in enumerate(case['cores'])]
                res = bh.run_specs(specs, sc)
                for sp in specs:
                    o.n_eval += 1
                    inf = _judge_ok_run(o, sp, res[sp['k']], 'worker-count sweep, layout of %d stripes, cores=%d' % (k, sp['cores']))
                    if inf is None:
                        continue
                    if inf['stripes'] != stripes:
                        o.count('layout_changed_with_cores')       # then the bit-identity clause does not apply
                        continue
                    o.count('bit_comparisons')
                    if not (_same(sp['save'] + '_bkg.npy', ref['save'] + '_bkg.npy') and
                            _same(sp['save'] + '_rms.npy', ref['save'] + '_rms.npy')):
                        o.violate('worker_count_changes_result', {'layout': [rows, g, k], 'cores': sp['cores']})
                o.sample = {'layout': [rows, g, k], 'cores_tried': case['cores']}
            elif kind == 'interrupt':
                _interrupt(o, case, base, stripes, sc)
            else:
                _faults(o, case, base, stripes, sc)
        elif kind == 'stripes':
            _stripe_sweep(o, case, sc)
        elif kind == 'blank':
            specs = []
            for i, (rows, cols, g, box, c, ns, lo, hi) in enumerate(case['confs']):
                img = _image(rows, cols, 3, 'sloped')
                img[lo:hi, :] = np.nan
                im = os.path.join(sc, 'blank_%d.fits' % i)
                bh.write_fits(im, img)
                for m in (True, False):
                    specs.append({'k': 2 * i + int(m), 'image': im, 'shape': [rows, cols], 'grid': [g, g], 'box': [box, box],
                                  'cores': c, 'nslice': ns, 'mask': m, 'save': os.path.join(sc, 'bl%d_%d' % (i, int(m))),
                                  'blank_rows': [lo, hi]})
            res = bh.run_specs(specs, sc)
            for sp_ in specs:
                o.n_eval += 1
                inf = _judge_ok_run(o, sp_, res[sp_['k']], 'image with rows %d..%d blank, mask=%s, %d stripes requested' % (
                    sp_['blank_rows'][0], sp_['blank_rows'][1], sp_['mask'], sp_['nslice']))
                if inf is None:
                    continue
                o.count('blank_band_runs')
                lo, hi = sp_['blank_rows']
                g = sp_['grid'][0]
                if any(lo <= max(0, a - sp_['box'][0] // 2 - g) and min(sp_['shape'][0], b + sp_['box'][0] // 2 + g) <= hi
                       for a, b in zip(inf['stripes'], inf['stripes'][1:] + [sp_['shape'][0]])):
                    o.count('blank_band_runs_with_a_wholly_blank_stripe')
                if sp_['mask']:
                    bkg = np.load(sp_['save'] + '_bkg.npy')
                    if np.isfinite(bkg[lo:hi]).any():
                        o.violate('blank_rows_not_blank_in_masked_maps', {'rows': [lo, hi], 'finite': int(np.isfinite(bkg[lo:hi]).sum())})
            o.sample = {'confs': case['confs'][:2]}
        elif kind == 'slow':
            rows, g, k = case['rows'], case['grid'], case['k']
            im = os.path.join(sc, 'im.fits')
            bh.write_fits(im, _image(rows, 24, 2, 'sloped'))
            base = {'image': im, 'shape': [rows, 24], 'grid': [g, g], 'box': [2 * g, 2 * g], 'cores': k, 'nslice': k}
            ref = dict(base, k=0, save=os.path.join(sc, 'ref'))
            r0 = bh.run_specs([ref], sc)[0]
            o.n_eval += 1
            info = _judge_ok_run(o, ref, r0, 'undelayed reference run')
            if info is None:
                return o.result()
            stripes = info['stripes']
            plan = {'delay': {'%s:%d' % (case['point'], stripes[-1]): case['delay']}}
            sp_ = dict(base, k=1, plan=plan, save=os.path.join(sc, 'slow'))
            r1 = bh.run_specs([sp_], sc, hard_s=case['delay'] + 240.0)[1]
            o.n_eval += 1
            inf = _judge_ok_run(o, sp_, r1, 'stripe %d reaches %s %.0f s after the others' % (stripes[-1], case['point'], case['delay']))
            if inf is not None:
                o.count('slow_stripe_runs')
                o.worst('slow_stripe_delay_s', case['delay'])
                o.count('bit_comparisons')
                if not (_same(sp_['save'] + '_bkg.npy', ref['save'] + '_bkg.npy') and _same(sp_['save'] + '_rms.npy', ref['save'] + '_rms.npy')):
                    o.violate('schedule_changes_result', {'layout': [rows, g, k], 'plan': plan})
            o.sample = {'layout': [rows, g, k], 'plan': plan}
        return o.result()
    finally:
        shutil.rmtree(sc, ignore_errors=True)


def _schedule(o, case, base, stripes, sc):
    k = case['k']
    arr_pt, dep_pt = ('bkg_written', 'after_barrier1') if case['phase'] == 1 else ('rms_written', 'after_barrier2')
    delta = 0.25
    realised = set()
    for attempt in (1, 2):
        specs = []
        for i, (pa, pd) in enumerate(case['orders']):
            plan = {'delay': {}}
            for rank, sidx in enumerate(pa):
                if rank:
                    plan['delay']['%s:%d' % (arr_pt, stripes[sidx])] = rank * delta
            for rank, sidx in enumerate(pd):
                if rank:
                    plan['delay']['%s:%d' % (dep_pt, stripes[sidx])] = rank * delta
            specs.append(dict(base, k=100 * attempt + i, plan=plan, save=os.path.join(sc, 's%d_%d' % (attempt, i)),
                              want=[[stripes[j] for j in pa], [stripes[j] for j in pd]]))
        res = bh.run_specs(specs, sc)
        retry = []
        for sp, orders in zip(specs, case['orders']):
            o.n_eval += 1
            inf = _judge_ok_run(o, sp, res[sp['k']], 'schedule forcing: arrival order %r, departure order %r at %s' % (
                sp['want'][0], sp['want'][1], dep_pt))
            if inf is None:
                continue
            got_a = inf.get('order_' + arr_pt)
            if got_a != sp['want'][0]:
                o.count('arrival_order_not_realised')
                retry.append(orders)
                continue
            realised.add((case['phase'], tuple(sp['want'][0]), tuple(sp['want'][1])))
            o.count('forced_orders_realised')
            o.count('bit_comparisons')
            if not (_same(sp['save'] + '_bkg.npy', os.path.join(sc, 'ref_bkg.npy')) and
                    _same(sp['save'] + '_rms.npy', os.path.join(sc, 'ref_rms.npy'))):
                o.violate('schedule_changes_result', {'layout': [case['rows'], case['grid'], k], 'plan': sp['plan']})
        if not retry:
            break
        case = dict(case, orders=retry)
        delta *= 2
    for r in realised:
        o.see('arrival_departure_orders', '%d:%s/%s' % (r[0], ','.join(map(str, r[1])), ','.join(map(str, r[2]))))
    o.sample = {'layout': [case['rows'], case['grid'], k], 'phase': case['phase'], 'orders_realised': len(realised)}


def _faults(o, case, base, stripes, sc):
    mode = case['mode']
    row = stripes[case['stripe_idx']]
    specs = []
    for i, pt in enumerate(case['points']):
        specs.append(dict(base, k=200 + i, plan={'fault': {'%s:%d' % (pt, row): mode}}, point=pt))
    res = bh.run_specs(specs, sc, quiet_s=12.0)
    for sp in specs:
        o.n_eval += 1
        o.n_nontrivial += 1
        rec = res[sp['k']]
        wit = {'layout': [case['rows'], case['grid'], case['k']], 'fault': sp['plan']['fault']}
        st = rec.get('status')
        o.see('fault_outcomes', '%s@%s->%s' % (mode, sp['point'], st))
        if st == 'hang':
            cert = dict(rec['certificate'])
            cert.pop('sample_stack', None)
            o.count('hang_certificates')
            o.violate('hang_on_worker_failure', dict(wit, certificate=cert), KNOWN_EXIT if mode == 'exit' else None)
        elif st == 'stuck':
            raise RuntimeError('watchdog without certificate in fault run %r' % (rec,))
        elif st == 'crashed':
            # the process that called filter_image ended without the call having returned or raised (no result record): after
            # an injected WORKER failure that is not a clean failure of the call.  (Never seen on the unchanged code in any
            # sweep; a crash without any trace of the subject or of multiprocessing in its stderr stays a harness error.)
            err = rec.get('stderr') or ''
            if 'multiprocessing' in err or 'AegeanTools' in err:
                o.count('caller_died_after_fault')
                o.violate('caller_died_after_worker_failure', dict(wit, returncode=rec.get('returncode'), stderr_tail=err[-600:]), None)
            else:
                raise RuntimeError('bane child crashed: %r' % (rec,))
        elif st == 'ok':
            # the failure was injected into a worker: the call must not report success
            o.violate('failure_swallowed', dict(wit, returned=rec.get('returned')), None)
            _judge_cleanup(o, rec, wit)
        else:
            o.count('faults_surfaced_as_exception')
            if mode in ('raise_custom', 'raise_os'):
                o.count('faults_of_other_exception_classes_surfaced')
            o.worst('fault_to_exception_seconds', rec.get('t'))
            _judge_cleanup(o, rec, wit)
    o.sample = {'layout': [case['rows'], case['grid'], case['k']], 'mode': mode, 'stripe': row,
                'outcomes': {sp['point']: res[sp['k']].get('status') for sp in specs}}


def _interrupt(o, case, base, stripes, sc):
    """^C: every process of the run gets SIGINT while all stripes are parked at one hook point.  The call must end
    promptly (the code turns it into SystemExit) and release its shared memory; nothing may keep running."""
    pt = case['point']
    plan = {'delay': {'%s:%d' % (pt, r): 4.0 for r in stripes}}
    sp = dict(base, k=300, plan=plan, signal={'after_event': pt, 'count': len(stripes), 'sig': 'INT'})
    rec = bh.run_specs([sp], sc, quiet_s=12.0)[300]
    o.n_eval += 1
    o.n_nontrivial += 1
    st = rec.get('status')
    wit = {'layout': [case['rows'], case['grid'], case['k']], 'signal': 'SIGINT to the process group', 'when': 'all stripes at ' + pt}
    o.see('interrupt_outcomes', '%s->%s/%s' % (pt, st, rec.get('exc_type')))
    o.count('interrupts_delivered')
    if st == 'hang':
        cert = dict(rec['certificate'])
        cert.pop('sample_stack', None)
        o.count('hang_certificates')
        o.violate('hang_on_interrupt', dict(wit, certificate=cert))
    elif st == 'stuck':
        raise RuntimeError('watchdog without certificate in interrupt run %r' % (rec,))
    elif st == 'crashed':
        # the harness process itself received the signal outside the call: cannot be judged
        o.count('interrupt_hit_the_harness_not_judged')
    elif st == 'ok':
        o.count('interrupt_arrived_after_completion_not_judged')
    else:
        o.worst('interrupt_to_return_seconds', rec.get('t'))
        _judge_cleanup(o, rec, wit)
    o.sample = {'layout': [case['rows'], case['grid'], case['k']], 'point': pt, 'outcome': st, 'exc_type': rec.get('exc_type')}


def _stripe_sweep(o, case, sc):
    rows, cols, g, box = case['rows'], case['cols'], case['grid'], case['box']
    rng = rng_for(*case['seed'])
    yy, xx = np.mgrid[0:rows, 0:cols]
    s = float(10 ** rng.uniform(-2, 2))
    img = rng.normal(0, s, (rows, cols)) + s * (float(rng.choice([0, 50, 4096])) + rng.uniform(-0.02, 0.02) * yy
                                                 + rng.uniform(-0.02, 0.02) * xx)
    im = os.path.join(sc, 'im.fits')
    bh.write_fits(im, img.astype(np.float32))
    gg = list(g) if isinstance(g, (list, tuple)) else [g, g]
    bb = list(box) if isinstance(box, (list, tuple)) else [box, box]
    if bb[0] != bb[1]:
        o.count('stripe_sweeps_with_non_square_box')
    specs = [{'k': i, 'image': im, 'shape': [rows, cols], 'grid': gg, 'box': bb, 'cores': max(n, 1),
              'nslice': n, 'save': os.path.join(sc, 'n%d' % n)} for i, n in enumerate(case['nslices'])]
    res = bh.run_specs(specs, sc)
    maps = {}
    for sp in specs:
        o.n_eval += 1
        inf = _judge_ok_run(o, sp, res[sp['k']], 'stripe-count sweep nslice=%d' % sp['nslice'])
        if inf is not None:
            maps[sp['nslice']] = (np.load(sp['save'] + '_bkg.npy').astype(float), np.load(sp['save'] + '_rms.npy').astype(float),
                                  len(inf['stripes']))
    if 1 not in maps:
        return
    b1, r1, _ = maps[1]
    for n, (b, r, realised) in maps.items():
        if n == 1 or realised < 2:
            continue
        db = float(np.nanmax(np.abs(b - b1) / r1))
        dr = float(np.nanmax(np.abs(r - r1) / r1))
        o.worst('stripe_count_dbkg_over_rms', db)
        o.worst('stripe_count_drms_over_rms', dr)
        o.count('stripe_count_comparisons')
        if db > 0.3 or dr > 0.3:
            o.violate('stripe_count_changes_maps', {'image': {'rows': rows, 'cols': cols, 'noise': s, 'seed': case['seed']},
                                                    'grid': g, 'box': box, 'nslice': n, 'realised': realised,
                                                    'max_dbkg_over_rms': db, 'max_drms_over_rms': dr},
                      None)
    o.sample = {'image': [rows, cols], 'noise_rms': s, 'grid': g, 'box': box,
                'realised': {n: m[2] for n, m in maps.items()}}
