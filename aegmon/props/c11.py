"""C11 - region-restricted finding = unrestricted finding filtered by island membership.

Decided mostly at `find_islands(region=..., wcs=...)` level: the real function is run without and with the region on the
same image; the expected restricted result is the unrestricted result filtered by a per-pixel membership oracle
(independent zenithal WCS -> healpy.ang2pix -> own nested-pixel arithmetic on the region's pixeldict; sky_within is not
used by the oracle).  A smaller number of `find_sources_in_image(mask=Region|file)` runs compare the restricted and
unrestricted catalogues attribute-wise; thorough adds the `aegean --region` command line.
"""
import os
import shutil
import traceback

import numpy as np

from aegmon.common import Obs, rng_for, scratch_dir
from aegmon.refs import floodfill, sphere, wcs_zenithal

ID = 'C11'
LEVEL = 'exploration'
RULE = ('a scene = non-square image (6..40 x 6..60) + zenithal header (5 projections, RA wrap, |dec| <= 80, CRPIX in/out '
        'of the image, both CDELT signs) + islands painted from a shape library (bars, diagonals, L, U, rings with a '
        'bright foreign island inside, blobs, single pixels); HEALPix depth 9..13 with cell/pixel ratio 0.3..3; each '
        'scene is evaluated with several regions: circle, convex polygon, the single cell under an end pixel of an '
        'island (straddling by exactly one pixel), the cells under one island only (foreign island inside another '
        'island\'s bounding box but the other island outside the region), all cells of the image except those under '
        'one island, whole image, empty.  Header conventions for the same sky: CRVAL1 in [0,360], negative (RA 358 as '
        '-2) and above 360, LONPOLE spelled out, CD or CDELT - at find_islands, find_sources_in_image and CLI level.  '
        'aegean command line option interactions (in-process main(argv)): --region B alone, --autoload alone with / '
        'without sibling img.mim (a DIFFERENT region A) and img_bkg/img_rms.fits, both options in either order; expected '
        '= unrestricted run filtered by the region the user named, else the sibling region under --autoload, else '
        'unfiltered.  Big islands (1100 ... 14000 pixels: blobs, thick bars, L, rings; beyond any internal block size) '
        'with regions that cover only the cells under their first / last row(s) or column(s), at find_islands level and, '
        'for 1100-3000 pixel sources, through find_sources_in_image.  Images whose pixel grid partly falls off the '
        'projection (all-sky AIT/MOL, SIN beyond the horizon, ZEA/ARC beyond the antipode; GridWCS oracle of C10, checked '
        'against astropy per header) with islands on the rim of the sky, regions = NCP / SCP caps, whole sky, whole sky '
        'minus the cells of one island, ...: a pixel without sky position is inside no region.  Near-extreme regions '
        'through find_sources_in_image (Region object, .mim file) and the CLI: whole sky minus a hole of 0.05-3 deg^2 '
        'around one or two islands at depths 6-8, and the complement.  An evaluation = one restricted find_islands call judged against the '
        'filtered unrestricted call (or one restricted/unrestricted pair of find_sources_in_image runs); non-trivial '
        '= at least one unrestricted island with a determined keep/drop status; distinct = distinct (image, header, '
        'region cell set) hashes within a case, cases with equal hash counted once')
ASSUMPTIONS = ['oracle: pixel centre (numpy index i,j = FITS pixel j+1,i+1) -> sky by aegmon/refs/wcs_zenithal.py (checked '
               'against astropy.wcs at start-up), -> HEALPix cell by healpy.ang2pix(nest=True) at the region\'s '
               'maxdepth, membership in the deepest-level cell set derived from a copy of Region.pixeldict by own nested '
               'arithmetic (children of p at k levels = [p*4**k, (p+1)*4**k))',
               'a pixel is judged only if the centre and four points 1e-7 deg around it fall in the same cell; an '
               'island whose status depends on unjudged pixels is undetermined (counted, not judged)',
               'regions are built with Region.add_circles/add_poly/add_pixels before any query; whatever pixeldict they '
               'produce defines the region',
               'restricted and unrestricted runs execute the same fitting code on the same pixels, so kept components '
               'are compared for exact equality (NaN == NaN)']
MIN_REACH = {'source_finder:find_islands': 1, 'regions:Region.sky_within': 1,
             'source_finder:SourceFinder.find_sources_in_image': 1, 'source_finder:SourceFinder._fit_island': 1}
MIN_COUNTERS = {'restricted_calls_judged': 1000, 'islands_kept': 300, 'islands_dropped': 300, 'islands_straddling_edge': 100,
                'evals_with_kept_and_dropped': 100, 'dropped_island_with_foreign_inside_pixel_in_its_box': 30,
                'kept_by_exactly_one_pixel': 30, 'elongated_islands_judged': 300, 'whole_image_region_evals': 20,
                'finder_pairs': 8, 'finder_components_compared': 20, 'finder_islands_dropped': 5, 'finder_islands_kept': 5,
                'restricted_calls_crval1_negative': 1000, 'islands_kept_crval1_negative': 1000,
                'restricted_calls_crval1_above_360': 300, 'islands_kept_crval1_above_360': 300,
                'restricted_calls_lonpole_explicit': 500, 'restricted_calls_cd_matrix': 500,
                'finder_pairs_crval1_negative': 3, 'cli_runs_judged': 60, 'cli_islands_kept': 100, 'cli_islands_dropped': 100,
                'cli_components_compared': 100, 'cli_autoload_and_region_with_different_sibling_region': 12,
                'cli_scenario_region_only': 8, 'cli_scenario_autoload_sibling_mim': 8,
                'cli_scenario_autoload_then_region_sibling_mim': 8, 'cli_scenario_region_then_autoload_sibling_mim': 8,
                'big_islands_judged': 300, 'big_islands_1k_2k': 50, 'big_islands_2k_4k': 50, 'big_islands_4k_10k': 50,
                'big_islands_10k_plus': 50, 'big_islands_kept_by_under_5_percent_of_their_pixels': 100,
                'big_islands_kept_by_last_rows_only': 40, 'big_islands_kept_by_first_rows_only': 20,
                'big_islands_kept_by_last_cols_only': 20, 'big_islands_kept_by_first_cols_only': 20,
                'finder_big_pairs': 6, 'finder_big_islands_judged': 6, 'finder_big_islands_kept_by_last_rows_only': 1,
                'offsky_islands_judged': 1000, 'offsky_islands_dropped': 500, 'offsky_islands_kept': 200,
                'offsky_evals_region_contains_ncp': 200, 'offsky_islands_dropped_while_region_contains_ncp': 300,
                'offsky_islands_dropped_while_region_contains_scp': 100, 'region_ncp_cap': 100, 'region_scp_cap': 50,
                'region_whole_sky': 50, 'region_sky_minus_island': 50,
                'finder_hole_pairs': 12, 'finder_hole_sky_minus_hole': 10, 'finder_hole_complement_tiny_region': 2,
                'finder_hole_missing_area_below_0.25_deg2': 4, 'finder_hole_runs_with_island_wholly_in_hole': 8,
                'finder_hole_islands_dropped': 20, 'finder_hole_islands_kept': 40, 'finder_hole_via_object': 4,
                'finder_hole_via_file': 4, 'finder_hole_via_cli': 4}

E_DEG = 1e-7
BATCHES_PER_JOB = 1     # importing AegeanTools + oracle self-checks cost ~8 s per worker process

_checked = False


def _selfcheck():
    global _checked
    if _checked:
        return
    import healpy as hp
    wcs_zenithal.selfcheck()
    floodfill.selfcheck()
    from astropy.wcs import WCS
    for proj in ('SIN', 'ZEA'):
        for crv in (-2.0, -359.5, 362.0, 719.0):
            h = wcs_zenithal.make_header(proj, (crv, -33.0), (7.3, 11.1), (-0.02, 0.02), (20, 30))
            h['LONPOLE'] = 180.0
            ii, jj = np.indices((20, 30))
            ra, dec = wcs_zenithal.ZenithalWCS(h).index2sky(ii.ravel(), jj.ravel())
            sky = WCS(h, naxis=2).wcs_pix2world(np.column_stack([jj.ravel(), ii.ravel()]), 0)
            if not np.max(sphere.sep(sky[:, 0], sky[:, 1], ra, dec)) < 1e-10:
                raise RuntimeError('oracle fault: independent WCS disagrees with astropy.wcs for CRVAL1=%g' % crv)
    # own nested arithmetic against healpy: the centre of every k-level child of p falls in p at the parent depth
    rng = np.random.default_rng(7)
    for d, k in ((3, 1), (5, 3), (9, 2), (11, 2)):
        for p in rng.integers(0, 12 * 4 ** d, 5):
            ch = np.arange(int(p) * 4 ** k, (int(p) + 1) * 4 ** k)
            lon, lat = hp.pix2ang(2 ** (d + k), ch, nest=True, lonlat=True)
            par = hp.ang2pix(2 ** d, lon, lat, nest=True, lonlat=True)
            if not np.all(par == p):
                raise RuntimeError('oracle fault: nested child arithmetic disagrees with healpy')
    _checked = True


# ----------------------------------------------------------------------------- oracle
def region_cells(pixeldict, maxdepth):
    """sorted int64 array of the deepest-level cells of a region, from (a copy of) its pixeldict"""
    cells = set()
    for d, pixs in pixeldict.items():
        if not pixs:
            continue
        if d > maxdepth or d < 0:
            raise RuntimeError('harness: pixeldict has pixels at depth %r beyond maxdepth %r' % (d, maxdepth))
        k = maxdepth - int(d)
        for p in pixs:
            ip = int(p)
            if ip != p:
                raise RuntimeError('harness: fractional HEALPix id %r in the generated region' % (p,))
            if k == 0:
                cells.add(ip)
            else:
                cells.update(range(ip * 4 ** k, (ip + 1) * 4 ** k))
    return np.array(sorted(cells), dtype=np.int64)


def copy_pixeldict(region):
    return dict((d, set(v)) for d, v in region.pixeldict.items())


def cells_of(z, depth, ii, jj):
    """(cell of the centre, judged flag) for numpy indices ii, jj.  A pixel that has no sky position (beyond the edge of
    the projection; only for the GridWCS oracle) gets cell -1 and is judged: it is inside no region.  A pixel in the
    thin band at that edge is unjudged."""
    import healpy as hp
    ii = np.asarray(ii, dtype=float)
    jj = np.asarray(jj, dtype=float)
    off = None
    if hasattr(z, 'classify'):
        off, limb = z.classify(ii, jj)
    with np.errstate(all='ignore'):
        ra, dec = z.index2sky(ii, jj)
    ra = np.asarray(ra, dtype=float)
    dec = np.asarray(dec, dtype=float)
    bad = ~(np.isfinite(ra) & np.isfinite(dec))
    if bad.any() and off is None:
        raise RuntimeError('harness: the zenithal oracle produced a non-finite sky position')
    ra = np.where(bad, 0.0, ra)
    dec = np.where(bad, 0.0, dec)
    nside = 2 ** depth
    c0 = hp.ang2pix(nside, np.mod(ra, 360.0), dec, nest=True, lonlat=True)
    same = np.ones(c0.shape, dtype=bool)
    cosd = np.maximum(np.cos(np.radians(dec)), 1e-6)
    for dra, dde in ((E_DEG / cosd, 0.0), (-E_DEG / cosd, 0.0), (0.0, E_DEG), (0.0, -E_DEG)):
        c = hp.ang2pix(nside, np.mod(ra + dra, 360.0), np.clip(dec + dde, -90, 90), nest=True, lonlat=True)
        same &= (c == c0)
    if off is not None:
        c0 = np.where(bad, -1, c0)
        same = np.where(bad, off, same)
    return c0, same


class Membership:
    """per-pixel membership map of an image for one region"""

    def __init__(self, z, shape, depth, cells, cellmap=None):
        if cellmap is None:
            ii, jj = np.indices(shape)
            cellmap = cells_of(z, depth, ii, jj)
        c0, same = cellmap
        self.cell = c0
        self.judged = same
        self.inside = np.isin(c0, cells)

    def island_status(self, pix):
        """'keep' / 'drop' / None (undetermined), number of judged inside pixels, number of pixels"""
        n_in = 0
        n_unj = 0
        for p in pix:
            if not self.judged[p]:
                n_unj += 1
            elif self.inside[p]:
                n_in += 1
        if n_in > 0:
            return 'keep', n_in, n_unj
        if n_unj > 0:
            return None, 0, n_unj
        return 'drop', 0, 0


def island_pixels(isl):
    bb = np.asarray(isl.bounding_box)
    r0, r1, c0, c1 = int(bb[0][0]), int(bb[0][1]), int(bb[1][0]), int(bb[1][1])
    m = np.asarray(isl.mask)
    if m.ndim != 2 or m.shape != (r1 - r0, c1 - c0):
        return None
    rr, cc = np.where(~m)
    return frozenset(zip((rr + r0).tolist(), (cc + c0).tolist()))


def _box(pix):
    (r0, r1), (c0, c1) = floodfill.tight_box(pix)
    return r0, r1, c0, c1


def buggy_recipe_decision(z, depth, cells, snr, flood, pix):
    """what the region test decides if it uses every >= flood pixel of the island's bounding box, swaps the in-box
    offsets ((row_in_box + colmin, col_in_box + rowmin) as (x, y)) and treats 0-based indices as 1-based pixels -
    used only to name the mechanism of an observed violation"""
    import healpy as hp
    r0, r1, c0, c1 = _box(pix)
    with np.errstate(all='ignore'):
        y, x = np.where(snr[r0:r1, c0:c1] >= flood)
    p1 = (y + c0).astype(float)
    p2 = (x + r0).astype(float)
    ra, dec = z.pix2sky(p1, p2)
    c = hp.ang2pix(2 ** depth, np.mod(ra, 360.0), dec, nest=True, lonlat=True)
    return bool(np.any(np.isin(c, cells)))


# ----------------------------------------------------------------------------- scene generation
F, S = 4.5, 7.0


def _shape_lib(rng):
    """a random shape: list of (dr, dc, is_seed) and optional foreign pixels list"""
    kind = rng.choice(['hbar', 'vbar', 'diag', 'adiag', 'L', 'U', 'ring', 'blob', 'dot', 'hbar', 'vbar', 'L'])
    pts = []
    foreign = []
    if kind in ('hbar', 'vbar'):
        n = int(rng.integers(3, 14))
        w = int(rng.integers(1, 3))
        pts = [(a, b) for a in range(w) for b in range(n)]
        if kind == 'vbar':
            pts = [(b, a) for a, b in pts]
    elif kind in ('diag', 'adiag'):
        n = int(rng.integers(3, 10))
        pts = [(k, k) for k in range(n)]
        if kind == 'adiag':
            pts = [(k, n - 1 - k) for k in range(n)]
    elif kind == 'L':
        a, b = int(rng.integers(3, 10)), int(rng.integers(3, 12))
        pts = [(k, 0) for k in range(a)] + [(a - 1, k) for k in range(b)]
        if a >= 4 and b >= 4:
            foreign = [(int(rng.integers(0, a - 2)), int(rng.integers(2, b)))]
    elif kind == 'U':
        a, b = int(rng.integers(4, 9)), int(rng.integers(5, 12))
        pts = [(k, 0) for k in range(a)] + [(a - 1, k) for k in range(b)] + [(k, b - 1) for k in range(a)]
        foreign = [(int(rng.integers(0, a - 2)), int(rng.integers(2, b - 2)))]
    elif kind == 'ring':
        a, b = int(rng.integers(5, 9)), int(rng.integers(5, 12))
        pts = [(0, k) for k in range(b)] + [(a - 1, k) for k in range(b)] + [(k, 0) for k in range(a)] + [(k, b - 1) for k in range(a)]
        foreign = [(int(rng.integers(2, a - 2)), int(rng.integers(2, b - 2)))]
    elif kind == 'blob':
        r, c = 0, 0
        pts = [(0, 0)]
        for _ in range(int(rng.integers(2, 15))):
            r += int(rng.integers(-1, 2))
            c += int(rng.integers(-1, 2))
            pts.append((r, c))
    else:
        pts = [(0, 0)]
    pts = sorted(set(pts))
    orient = int(rng.integers(0, 4))

    def tf(p):
        r, c = p
        if orient == 1:
            return c, r
        if orient == 2:
            return -r, c
        if orient == 3:
            return c, -r
        return r, c
    return kind, [tf(p) for p in pts], [tf(p) for p in foreign]


def make_scene(rng):
    rows = int(rng.integers(6, 41))
    cols = int(rng.integers(6, 61))
    if rows == cols:
        cols += int(rng.integers(1, 9))
    depth = int(rng.integers(9, 14))
    cell = 58.6323 / 2 ** depth
    ratio = float(10 ** rng.uniform(np.log10(0.3), np.log10(3.0)))
    pixscale = cell / ratio
    proj = str(rng.choice(wcs_zenithal.PROJECTIONS))
    ra0 = float(rng.choice([rng.uniform(0, 360), 0.0, 359.99, 0.02, 180.0]))
    dec0 = float(rng.choice([rng.uniform(-80, 80), 0.0, -80.0, 75.0, rng.uniform(-30, 30)]))
    crpix = (float(rng.uniform(-0.5 * cols, 1.5 * cols)), float(rng.uniform(-0.5 * rows, 1.5 * rows)))
    if rng.random() < 0.3:
        crpix = (float(round(crpix[0])), float(round(crpix[1])))
    sgn = [(-1, 1), (-1, 1), (1, 1), (-1, -1), (1, -1)][int(rng.integers(0, 5))]
    # the same sky written in other header conventions: reference longitude negative (RA 358 as -2) or above 360,
    # LONPOLE spelled out
    conv = str(rng.choice(['plain', 'plain', 'plain', 'negative', 'negative', 'above360']))
    if conv == 'negative' and ra0 > 0:
        ra0 -= 360.0
    elif conv == 'above360':
        ra0 += 360.0
    hdr = wcs_zenithal.make_header(proj, (ra0, dec0), crpix, (sgn[0] * pixscale, sgn[1] * pixscale), (rows, cols),
                                   beam=(3 * pixscale, 2 * pixscale, 20.0), use_cd=bool(rng.random() < 0.3))
    if rng.random() < 0.25:
        hdr['LONPOLE'] = 180.0
    level = np.zeros((rows, cols))
    nshape = int(rng.integers(2, 9))
    for _ in range(nshape):
        kind, pts, foreign = _shape_lib(rng)
        r0, c0 = int(rng.integers(0, rows)), int(rng.integers(0, cols))
        seeded = rng.random() < 0.85
        first = True
        for (dr, dc) in pts:
            r, c = r0 + dr, c0 + dc
            if 0 <= r < rows and 0 <= c < cols:
                level[r, c] = S if (seeded and (first or rng.random() < 0.3)) else F
                first = False
        for (dr, dc) in foreign:
            r, c = r0 + dr, c0 + dc
            if 0 <= r < rows and 0 <= c < cols:
                level[r, c] = S
    if rng.random() < 0.25:
        rn = int(rng.integers(0, rows))
        level[rn, :] = np.where(rng.random(cols) < 0.3, np.nan, level[rn, :])
    k = int(rng.integers(0, 3))
    if k == 0:
        bkg, rms, sign = np.zeros((rows, cols)), np.ones((rows, cols)), 1.0
    elif k == 1:
        bkg, rms, sign = np.full((rows, cols), 2.5), np.full((rows, cols), 0.5), -1.0
    else:
        bkg, rms, sign = np.full((rows, cols), -1.0), np.full((rows, cols), 2.0), 1.0
    lv = np.where(np.isfinite(level), level, 0.0)
    im = np.where(np.isfinite(level), bkg + sign * lv * rms, np.nan)
    return {'rows': rows, 'cols': cols, 'depth': depth, 'ratio': ratio, 'pixscale': pixscale, 'header': hdr,
            'im': im, 'bkg': bkg, 'rms': rms}


def _hdr_dict(h):
    return dict((k, h[k]) for k in h.keys() if k not in ('SIMPLE', 'COMMENT', 'HISTORY'))


def sky_minus_cells(maxdepth, hole_cells):
    """the whole sky minus the given deepest-level cells, as a compact multi-resolution region (coarse pixels away from
    the hole), built with Region.add_pixels level by level"""
    from AegeanTools.regions import Region
    reg = Region(maxdepth=maxdepth)
    hole = set(int(c) for c in hole_cells)
    anc = dict((d, set(c >> (2 * (maxdepth - d)) for c in hole)) for d in range(1, maxdepth + 1))
    reg.add_pixels([p for p in range(48) if p not in anc[1]], 1)
    for d in range(2, maxdepth + 1):
        kids = [4 * p + k for p in sorted(anc[d - 1]) for k in range(4)]
        reg.add_pixels([c for c in kids if c not in anc[d]], d)
    return reg


def build_region(rng, kind, scene, z, islands_pix, maxdepth):
    """-> Region (built with the subject's own constructors; the oracle reads its pixeldict) or None if the kind is not
    applicable to the scene"""
    import healpy as hp
    from AegeanTools.regions import Region
    rows, cols, ps = scene['rows'], scene['cols'], scene['pixscale']
    reg = Region(maxdepth=maxdepth)
    if kind == 'circle':
        ra, dec = z.index2sky(rng.uniform(-2, rows + 1), rng.uniform(-2, cols + 1))
        if not (np.isfinite(ra) and np.isfinite(dec)):
            return None
        rad = float(rng.uniform(1.0, 0.6 * max(rows, cols))) * ps
        reg.add_circles(np.radians(float(ra)), np.radians(float(dec)), np.radians(rad),
                        depth=None if rng.random() < 0.7 else maxdepth - 1)
    elif kind == 'poly':
        ra, dec = z.index2sky(rng.uniform(0, rows - 1), rng.uniform(0, cols - 1))
        rad = float(rng.uniform(2.0, 0.5 * max(rows, cols))) * ps
        n = int(rng.integers(3, 7))
        t0 = float(rng.uniform(0, 360))
        verts = []
        for k in range(n):
            a, d = sphere.destination(float(ra), float(dec), rad, t0 - 360.0 * k / n)
            verts.append([float(np.radians(a)), float(np.radians(d))])     # add_poly takes radians
        try:
            reg.add_poly(verts)
        except Exception:
            return None
    elif kind == 'whole':
        ra, dec = z.index2sky((rows - 1) / 2.0, (cols - 1) / 2.0)
        rad = 0.75 * float(np.hypot(rows, cols)) * ps + 3 * 58.6323 / 2 ** maxdepth
        reg.add_circles(np.radians(float(ra)), np.radians(float(dec)), np.radians(rad),
                        depth=None if rng.random() < 0.5 else max(2, maxdepth - 2))
    elif kind == 'empty':
        pass
    elif kind in ('ncp_cap', 'scp_cap'):
        rad = float(rng.uniform(3.0, 35.0))
        reg.add_circles(0.0, np.radians(90.0 if kind == 'ncp_cap' else -90.0), np.radians(rad))
    elif kind == 'whole_sky':
        return sky_minus_cells(maxdepth, [])
    elif kind == 'sky_minus_island':
        if not islands_pix:
            return None
        pl = sorted(islands_pix[int(rng.integers(0, len(islands_pix)))])
        c, _ = cells_of(z, maxdepth, [p[0] for p in pl], [p[1] for p in pl])
        return sky_minus_cells(maxdepth, [int(v) for v in c if v >= 0])
    elif kind.startswith('big_'):
        # only the cells under the pixels of the first / last row(s) / column(s) of the biggest island
        if not islands_pix:
            return None
        big = max(islands_pix, key=len)
        k = int(rng.integers(1, 3))
        rs = sorted(set(p[0] for p in big))
        cs = sorted(set(p[1] for p in big))
        if kind == 'big_first_rows':
            sel = [p for p in big if p[0] in rs[:k]]
        elif kind == 'big_last_rows':
            sel = [p for p in big if p[0] in rs[-k:]]
        elif kind == 'big_first_cols':
            sel = [p for p in big if p[1] in cs[:k]]
        elif kind == 'big_last_cols':
            sel = [p for p in big if p[1] in cs[-k:]]
        else:
            raise ValueError(kind)
        c, _ = cells_of(z, maxdepth, [p[0] for p in sel], [p[1] for p in sel])
        reg.add_pixels(sorted(set(int(v) for v in c if v >= 0)), maxdepth)
    else:
        if not islands_pix:
            return None
        isl = islands_pix[int(rng.integers(0, len(islands_pix)))]
        pl = sorted(isl)
        if kind == 'end_pixel_cell':
            # the cell under one extreme pixel of an island
            ext = [min(pl), max(pl), min(pl, key=lambda p: (p[1], p[0])), max(pl, key=lambda p: (p[1], p[0]))]
            p = ext[int(rng.integers(0, 4))]
            c, _ = cells_of(z, maxdepth, [p[0]], [p[1]])
            if c[0] < 0:
                return None
            reg.add_pixels([int(c[0])], maxdepth)
        elif kind == 'cells_of_island':
            c, _ = cells_of(z, maxdepth, [p[0] for p in pl], [p[1] for p in pl])
            reg.add_pixels(sorted(set(int(v) for v in c if v >= 0)), maxdepth)
        elif kind == 'all_but_island':
            ii, jj = np.indices((rows, cols))
            call, _ = cells_of(z, maxdepth, ii.ravel(), jj.ravel())
            c, _ = cells_of(z, maxdepth, [p[0] for p in pl], [p[1] for p in pl])
            reg.add_pixels(sorted(set(int(v) for v in call if v >= 0) - set(int(v) for v in c)), maxdepth)
            if rng.random() < 0.5:
                reg._renorm()
        else:
            raise ValueError(kind)
    return reg


REGION_KINDS = ['circle', 'circle', 'poly', 'end_pixel_cell', 'end_pixel_cell', 'cells_of_island', 'cells_of_island',
                'all_but_island', 'whole', 'empty']


# ----------------------------------------------------------------------------- cases
def cases(seed, tier):
    out = []
    n = 256 if tier == 'quick' else 4000
    per = 12 if tier == 'quick' else 20
    for k in range(n):
        out.append({'kind': 'islands', 'n_scenes': per, 'seed': [seed, 'islands', k]})
    for k in range(9):
        out.append({'kind': 'targeted', 'part': k})
    nf = 32 if tier == 'quick' else 120
    for k in range(nf):
        out.append({'kind': 'finder', 'via': ['object', 'object', 'file', 'object'][k % 4], 'seed': [seed, 'finder', k]})
    if tier == 'thorough':
        for k in range(24):
            out.append({'kind': 'finder', 'via': 'cli', 'seed': [seed, 'cli', k]})
    for k in range(16 if tier == 'quick' else 64):
        out.append({'kind': 'cli_options', 'seed': [seed, 'cli_options', k]})
    for k in range(32 if tier == 'quick' else 320):
        out.append({'kind': 'big_islands', 'target': BIG_TARGETS[k % len(BIG_TARGETS)], 'n_scenes': 2,
                    'seed': [seed, 'big_islands', k]})
    for k in range(32 if tier == 'quick' else 320):
        out.append({'kind': 'offsky', 'n_scenes': 3, 'seed': [seed, 'offsky', k]})
    for k in range(18 if tier == 'quick' else 72):
        out.append({'kind': 'finder_hole', 'via': ['object', 'file', 'cli'][k % 3], 'depth': [8, 7, 6, 8, 7, 8][k % 6],
                    'complement': k % 6 == 4, 'seed': [seed, 'finder_hole', k]})
    for k in range(8 if tier == 'quick' else 32):
        out.append({'kind': 'finder_big', 'side': ['big_last_rows', 'big_first_rows', 'big_last_cols', 'big_first_cols'][k % 4],
                    'seed': [seed, 'finder_big', k]})
    return out


def run(case):
    _selfcheck()
    o = Obs()
    distinct = set()
    if case['kind'] == 'islands':
        rng = rng_for(*case['seed'])
        for _ in range(case['n_scenes']):
            scene = make_scene(rng)
            kinds = [REGION_KINDS[int(k)] for k in rng.integers(0, len(REGION_KINDS), 5)]
            eval_scene(o, rng, scene, kinds, distinct)
    elif case['kind'] == 'targeted':
        for scene, kinds, rng in targeted_scenes()[3 * case['part']:3 * case['part'] + 3]:
            eval_scene(o, rng, scene, kinds, distinct)
    elif case['kind'] == 'finder':
        finder_case(o, case, distinct)
    elif case['kind'] == 'cli_options':
        cli_options_case(o, case, distinct)
    elif case['kind'] == 'big_islands':
        rng = rng_for(*case['seed'])
        for _ in range(case['n_scenes']):
            eval_scene(o, rng, make_big_scene(rng, case['target']), list(BIG_KINDS), distinct)
    elif case['kind'] == 'finder_big':
        finder_big_case(o, case, distinct)
    elif case['kind'] == 'finder_hole':
        finder_hole_case(o, case, distinct)
    elif case['kind'] == 'offsky':
        rng = rng_for(*case['seed'])
        for _ in range(case['n_scenes']):
            eval_scene(o, rng, make_offsky_scene(rng), list(OFFSKY_KINDS), distinct)
    o.n_nontrivial = len(distinct)
    return o.result()


def targeted_scenes():
    """seed-independent decisive scenes: one elongated island / ring with a foreign pixel, every region kind"""
    out = []
    k = 0
    for rows, cols in ((9, 31), (33, 8), (12, 20)):
        for proj in ('SIN', 'TAN', 'ZEA'):
            for ratio in (0.4, 0.9, 2.2):
                rng = rng_for(0, 'targeted', k)
                k += 1
                depth = 11
                ps = 58.6323 / 2 ** depth / ratio
                ra_ref = (10.0 + 35 * k) % 360.0
                if k % 3 == 1:
                    ra_ref -= 360.0          # same sky, CRVAL1 negative
                elif k % 9 == 2:
                    ra_ref += 360.0          # same sky, CRVAL1 above 360
                hdr = wcs_zenithal.make_header(proj, (ra_ref, -65.0 + (9 * k) % 120), (cols / 2.0, rows / 2.0),
                                               (-ps, ps), (rows, cols), beam=(3 * ps, 2 * ps, 0.0))
                if k % 4 == 0:
                    hdr['LONPOLE'] = 180.0
                lv = np.zeros((rows, cols))
                if cols > rows:
                    lv[2, 1:cols - 1] = F
                    lv[2, 1] = S
                    lv[rows - 3, cols // 2] = S
                else:
                    lv[1:rows - 1, 2] = F
                    lv[rows - 2, 2] = S
                    lv[rows // 2, cols - 3] = S
                # a ring with a bright foreign pixel inside
                if rows >= 12 and cols >= 16:
                    lv[5:10, 8:15] = 0
                    lv[5, 8:15] = lv[9, 8:15] = F
                    lv[5:10, 8] = lv[5:10, 14] = F
                    lv[5, 8] = S
                    lv[7, 11] = S
                scene = {'rows': rows, 'cols': cols, 'depth': depth, 'ratio': ratio, 'pixscale': ps, 'header': hdr,
                         'im': lv.copy(), 'bkg': np.zeros((rows, cols)), 'rms': np.ones((rows, cols))}
                out.append((scene, ['end_pixel_cell'] * 6 + ['cells_of_island'] * 6 + ['all_but_island'] * 3 + ['circle'] * 4 +
                            ['poly', 'whole', 'empty'], rng))
    return out


def eval_scene(o, rng, scene, kinds, distinct):
    from AegeanTools.source_finder import find_islands
    from AegeanTools.wcs_helpers import WCSHelper
    hdr = scene['header']
    z = scene.get('grid') or wcs_zenithal.ZenithalWCS(hdr)
    offmap = scene.get('offsky')
    im, bkg, rms = scene['im'], scene['bkg'], scene['rms']
    seed, flood = 5.0, 4.0
    helper = WCSHelper.from_header(hdr)
    wit0 = {'header': _hdr_dict(hdr), 'im': im.tolist() if im.size <= 3000 else {'omitted': True, 'shape': list(im.shape)}, 'bkg': float(bkg[0, 0]), 'rms': float(rms[0, 0]), 'seed': seed,
            'flood': flood}
    try:
        with np.errstate(invalid='ignore'):
            unres = find_islands(im, bkg, rms, seed_clip=seed, flood_clip=flood)
    except Exception:
        o.violate('raises', dict(wit0, where='unrestricted find_islands', traceback=traceback.format_exc()[-600:]))
        return
    upix = [island_pixels(i) for i in unres]
    if any(p is None or any(not (0 <= q[0] < im.shape[0] and 0 <= q[1] < im.shape[1]) for q in p) for p in upix):
        raise RuntimeError('harness: unrestricted island with inconsistent box/mask or pixels off the image (C02 '
                           'territory) in a C11 scene')
    uset = set(upix)
    snr = floodfill.snr_image(im, bkg, rms)
    shape = im.shape
    depth = scene['depth']
    cellmaps = {}
    for kind in kinds:
        reg = build_region(rng, kind, scene, z, upix, depth)
        if reg is None:
            o.count('region_kind_not_applicable')
            continue
        pd = copy_pixeldict(reg)
        cells = region_cells(pd, reg.maxdepth)
        if reg.maxdepth not in cellmaps:
            ii, jj = np.indices(shape)
            cellmaps[reg.maxdepth] = cells_of(z, reg.maxdepth, ii, jj)
        mem = Membership(z, shape, reg.maxdepth, cells, cellmaps[reg.maxdepth])
        import healpy as hp
        has_ncp = bool(np.isin(hp.ang2pix(2 ** reg.maxdepth, 0.0, 90.0, nest=True, lonlat=True), cells))
        has_scp = bool(np.isin(hp.ang2pix(2 ** reg.maxdepth, 0.0, -90.0, nest=True, lonlat=True), cells))
        if offmap is not None and has_ncp:
            o.count('offsky_evals_region_contains_ncp')
        o.count('pixels_judged', int(mem.judged.sum()))
        o.count('pixels_unjudged', int((~mem.judged).sum()))
        o.count('region_' + kind)
        wit = dict(wit0, region_kind=kind, maxdepth=int(reg.maxdepth),
                   region_cells=cells.tolist() if cells.size <= 400 else {'n': int(cells.size)})
        try:
            with np.errstate(invalid='ignore'):
                res = find_islands(im, bkg, rms, seed_clip=seed, flood_clip=flood, region=reg, wcs=helper)
        except Exception:
            o.violate('raises', dict(wit, where='find_islands(region=...)', traceback=traceback.format_exc()[-600:]))
            continue
        o.n_eval += 1
        o.count('restricted_calls_judged')
        crv = float(hdr['CRVAL1'])
        hconv = 'crval1_negative' if crv < 0 else ('crval1_above_360' if crv > 360 else 'crval1_0_360')
        o.count('restricted_calls_' + hconv)
        if 'LONPOLE' in hdr:
            o.count('restricted_calls_lonpole_explicit')
        if 'CD1_1' in hdr:
            o.count('restricted_calls_cd_matrix')
        # the region must not have been changed as a set by being queried
        if cells.size < 300000 and not np.array_equal(region_cells(copy_pixeldict(reg), reg.maxdepth), cells):
            raise RuntimeError('harness: the region changed while being queried')
        rpix = [island_pixels(i) for i in res]
        if any(p is None for p in rpix):
            o.violate('restricted_island_box_mask_inconsistent', wit)
            continue
        rset = set(rpix)
        if len(rset) != len(rpix):
            o.violate('restricted_island_duplicated', wit)
        n_keep = n_drop = 0
        whole = bool(mem.judged.all() and mem.inside.all())
        if whole:
            o.count('whole_image_region_evals')
        for p in rset - uset:
            o.violate('restricted_island_not_in_unrestricted', dict(wit, island=sorted(p)[:60]))
        for p in upix:
            st, n_in, n_unj = mem.island_status(p)
            r0, r1, c0, c1 = _box(p)
            elong = (r1 - r0) != (c1 - c0)
            if st is None:
                o.count('islands_undetermined')
                continue
            if elong:
                o.count('elongated_islands_judged')
            if len(p) > 1024:
                _count_big(o, p, st, mem, 'big_')
            if offmap is not None:
                n_off = sum(1 for q in p if offmap[q])
                if n_off:
                    o.count('offsky_islands_judged')
                    o.count('offsky_pixels_in_judged_islands', n_off)
                    o.count('offsky_islands_kept' if st == 'keep' else 'offsky_islands_dropped')
                    if st == 'drop' and has_ncp:
                        o.count('offsky_islands_dropped_while_region_contains_ncp')
                    if st == 'drop' and has_scp:
                        o.count('offsky_islands_dropped_while_region_contains_scp')
            if st == 'keep':
                n_keep += 1
                o.count('islands_kept')
                o.count('islands_kept_' + hconv)
                if n_in < len(p):
                    o.count('islands_straddling_edge')
                if n_in == 1 and n_unj == 0 and len(p) > 1:
                    o.count('kept_by_exactly_one_pixel')
                if p not in rset:
                    mech = _mech(z, reg.maxdepth, cells, snr, flood, p, observed_kept=False)
                    o.violate('lost_island_with_pixel_inside_region' if not whole else 'whole_image_region_changes_result',
                              dict(wit, island=sorted(p)[:80], pixels_inside=n_in, pixels=len(p)), mech)
            else:
                n_drop += 1
                o.count('islands_dropped')
                with np.errstate(all='ignore'):
                    box_in = mem.inside[r0:r1, c0:c1] & (snr[r0:r1, c0:c1] >= flood)
                if box_in.any():
                    o.count('dropped_island_with_foreign_inside_pixel_in_its_box')
                if p in rset:
                    mech = _mech(z, reg.maxdepth, cells, snr, flood, p, observed_kept=True)
                    o.violate('kept_island_without_pixel_inside_region',
                              dict(wit, island=sorted(p)[:80], pixels=len(p)), mech)
        if n_keep and n_drop:
            o.count('evals_with_kept_and_dropped')
        if n_keep + n_drop:
            distinct.add(hash((im.tobytes(), repr(sorted(_hdr_dict(hdr).items())), cells.tobytes())))
        o.worst('unjudged_pixel_fraction', float((~mem.judged).mean()))
        o.see('depth', int(reg.maxdepth))
    o.see('projection', str(hdr['CTYPE1'])[-3:])
    o.sample = {'shape': list(shape), 'depth': depth, 'cell_over_pixel': None if scene['ratio'] is None else round(scene['ratio'], 3),
                'unrestricted_islands': len(upix), 'last_region_kind': kinds[-1] if kinds else None}


def _count_big(o, p, st, mem, prefix):
    """sensitivity counters for islands larger than any plausible internal block size"""
    n = len(p)
    cls = '1k_2k' if n < 2048 else ('2k_4k' if n < 4096 else ('4k_10k' if n < 10000 else '10k_plus'))
    o.count(prefix + 'islands_judged')
    o.count(prefix + 'islands_' + cls)
    if st != 'keep':
        o.count(prefix + 'islands_dropped')
        return
    o.count(prefix + 'islands_kept')
    inside = [q for q in p if mem.judged[q] and mem.inside[q]]
    if len(inside) * 20 <= n:
        o.count(prefix + 'islands_kept_by_under_5_percent_of_their_pixels')
        r0, r1, c0, c1 = _box(p)
        rlo, rhi = min(q[0] for q in inside), max(q[0] for q in inside)
        clo, chi = min(q[1] for q in inside), max(q[1] for q in inside)
        if rlo >= r1 - 3:
            o.count(prefix + 'islands_kept_by_last_rows_only')
            o.count(prefix + 'islands_kept_by_last_rows_only_' + cls)
        if rhi <= r0 + 2:
            o.count(prefix + 'islands_kept_by_first_rows_only')
        if clo >= c1 - 3:
            o.count(prefix + 'islands_kept_by_last_cols_only')
        if chi <= c0 + 2:
            o.count(prefix + 'islands_kept_by_first_cols_only')


def make_big_scene(rng, target):
    """one extended island of about `target` pixels (blob, thick bar, thick L, ring) plus a few small ones"""
    shape_kind = str(rng.choice(['blob', 'bar', 'L', 'ring']))
    side = int(np.ceil(np.sqrt(target)))
    if shape_kind == 'blob':
        a, b = 0.75 * side, 0.45 * side          # semi-axes, area = pi a b ~ 1.06 target
        rows, cols = int(2 * b + 14), int(2 * a + 16)
        ii, jj = np.indices((rows, cols))
        t = float(rng.uniform(-0.3, 0.3))
        u = (jj - cols / 2.0) * np.cos(t) + (ii - rows / 2.0) * np.sin(t)
        v = -(jj - cols / 2.0) * np.sin(t) + (ii - rows / 2.0) * np.cos(t)
        big = (u / a) ** 2 + (v / b) ** 2 <= 1.0
    elif shape_kind == 'bar':
        w = int(max(rng.integers(6, 14), target / 400.0))
        ln = int(np.ceil(target / w)) + 1
        rows, cols = w + 12, ln + 12
        big = np.zeros((rows, cols), dtype=bool)
        big[6:6 + w, 6:6 + ln] = True
    elif shape_kind == 'L':
        w = int(max(rng.integers(5, 11), np.sqrt(target / 12.0)))         # arms thick enough to keep the image small
        arm = int(np.ceil(target / (2.0 * w))) + w
        rows, cols = arm + 12, arm + 16
        big = np.zeros((rows, cols), dtype=bool)
        big[6:6 + arm, 6:6 + w] = True
        big[6 + arm - w:6 + arm, 6:6 + arm] = True
    else:
        w = int(max(rng.integers(4, 8), np.sqrt(target / 30.0)))
        q = int(np.ceil(target / (4.0 * w))) + w
        rows, cols = q + 12, q + 18
        big = np.zeros((rows, cols), dtype=bool)
        big[6:6 + q, 8:8 + q] = True
        big[6 + w:6 + q - w, 8 + w:8 + q - w] = False
    if rng.random() < 0.5:
        big = big.T.copy()
        rows, cols = cols, rows
    if rows == cols:
        big = np.pad(big, ((0, 0), (0, 3)))
        cols += 3
    level = np.where(big, F, 0.0)
    rr, cc = np.where(big)
    for _ in range(6):
        k = int(rng.integers(0, len(rr)))
        level[rr[k], cc[k]] = S
    # small islands in the free corners / margins
    for _ in range(int(rng.integers(2, 7))):
        r, c = int(rng.integers(0, rows)), int(rng.integers(0, cols))
        if not big[max(0, r - 2):r + 3, max(0, c - 2):c + 3].any():
            level[r, c] = S
    depth = int(rng.integers(10, 14))
    # cells not much smaller than a pixel: the circle / whole-image regions of these large images stay below ~1e5 cells
    ratio = float(10 ** rng.uniform(np.log10(0.9 if target < 3000 else 1.5), np.log10(3.0)))
    ps = 58.6323 / 2 ** depth / ratio
    ra0 = float(rng.choice([rng.uniform(0, 360), -3.0, 359.9]))
    hdr = wcs_zenithal.make_header(str(rng.choice(wcs_zenithal.PROJECTIONS)), (ra0, float(rng.uniform(-70, 70))),
                                   (float(rng.uniform(0, cols)), float(rng.uniform(0, rows))),
                                   (float(rng.choice([-1, 1])) * ps, ps), (rows, cols), beam=(3 * ps, 2 * ps, 20.0))
    return {'rows': rows, 'cols': cols, 'depth': depth, 'ratio': ratio, 'pixscale': ps, 'header': hdr,
            'im': level.copy(), 'bkg': np.zeros((rows, cols)), 'rms': np.ones((rows, cols)), 'big_shape': shape_kind}


def make_offsky_scene(rng):
    """an image whose pixel grid partly falls off the projection (all-sky AIT / MOL, SIN beyond the horizon, ZEA and ARC
    beyond the antipode), islands on the rim of the sky (they contain pixels with no sky position), a few inside"""
    from astropy.wcs import WCS
    from aegmon.props import c10
    proj = str(rng.choice(['AIT', 'MOL', 'SIN', 'SIN', 'ZEA', 'ARC']))
    if proj in ('AIT', 'MOL'):
        ps = float(rng.uniform(1.6, 3.0))
        hx, hy = (162.1, 81.1) if proj == 'AIT' else (162.1, 81.1)
        rows, cols = int(2 * hy / ps) + 8, int(2 * hx / ps) + 10
        crval = (float(rng.choice([rng.uniform(0, 360), 0.0, 180.0])), 0.0)
    else:
        lim = {'SIN': 57.3, 'ZEA': 114.6, 'ARC': 180.0}[proj]
        ps = float(rng.uniform(1.6, 3.0)) * lim / 57.3
        rows, cols = int(2 * lim / ps) + 8, int(2 * lim / ps) + 13
        crval = (float(rng.uniform(0, 360)), float(rng.choice([rng.uniform(-80, 80), 60.0, 85.0, -70.0])))
    crpix = (cols / 2.0 + float(rng.uniform(-2, 2)), rows / 2.0 + float(rng.uniform(-2, 2)))
    geom = {'proj': proj, 'crval': crval, 'crpix': crpix, 'cdelt': (-ps, ps), 'shape': (rows, cols), 'use_cd': False}
    grid = c10.GridWCS(geom)
    hdr = c10._header(geom)
    hdr['BMAJ'], hdr['BMIN'], hdr['BPA'] = 3 * ps, 2 * ps, 0.0
    import warnings
    with warnings.catch_warnings():
        warnings.simplefilter('ignore')
        c10._crosscheck_wcs(grid, WCS(hdr, naxis=2), (rows, cols), rng)
    ii, jj = np.indices((rows, cols))
    off, limb = grid.classify(ii, jj)
    on = ~off & ~limb
    near_off = np.zeros_like(off)
    near_off[1:, :] |= off[:-1, :]
    near_off[:-1, :] |= off[1:, :]
    near_off[:, 1:] |= off[:, :-1]
    near_off[:, :-1] |= off[:, 1:]
    rim_r, rim_c = np.where(on & near_off)
    level = np.zeros((rows, cols))

    def paint(r0, c0):
        k = int(rng.integers(0, 3))
        pts = [(0, 0), (0, 1), (1, 0), (0, -1), (-1, 0)] if k == 0 else (
            [(0, d) for d in range(-3, 4)] if k == 1 else [(d, 0) for d in range(-3, 4)])
        first = True
        for dr, dc in pts:
            r, c = r0 + dr, c0 + dc
            if 0 <= r < rows and 0 <= c < cols:
                level[r, c] = S if first else F
                first = False

    if len(rim_r):
        for _ in range(int(rng.integers(4, 10))):
            k = int(rng.integers(0, len(rim_r)))
            paint(int(rim_r[k]), int(rim_c[k]))
    on_r, on_c = np.where(on)
    for _ in range(int(rng.integers(2, 6))):
        k = int(rng.integers(0, len(on_r)))
        paint(int(on_r[k]), int(on_c[k]))
    # one island at the pixel nearest to each celestial pole that is on the image
    with np.errstate(all='ignore'):
        ra, dec = grid.index2sky(ii, jj)
    for pole in (90.0, -90.0):
        d = np.where(np.isfinite(dec), np.abs(dec - pole), np.inf)
        if np.isfinite(d.min()) and d.min() < 3 * ps:
            r, c = np.unravel_index(int(np.argmin(d)), d.shape)
            paint(int(r), int(c))
    return {'rows': rows, 'cols': cols, 'depth': int(rng.integers(4, 7)), 'ratio': None, 'pixscale': ps, 'header': hdr,
            'im': level.copy(), 'bkg': np.zeros((rows, cols)), 'rms': np.ones((rows, cols)), 'grid': grid, 'offsky': off}


OFFSKY_KINDS = ['ncp_cap', 'ncp_cap', 'scp_cap', 'whole_sky', 'sky_minus_island', 'cells_of_island', 'end_pixel_cell',
                'circle', 'empty']

BIG_TARGETS = (1100, 1500, 2100, 3000, 4200, 6500, 10500, 14000)
BIG_KINDS = ['big_first_rows', 'big_last_rows', 'big_first_cols', 'big_last_cols', 'big_last_rows', 'circle', 'whole', 'empty']


def _mech(z, depth, cells, snr, flood, pix, observed_kept):
    try:
        if buggy_recipe_decision(z, depth, cells, snr, flood, pix) == observed_kept:
            return 'region-test-on-transposed-1based-box-pixels'
    except Exception:
        pass
    return None


# ----------------------------------------------------------------------------- find_sources_in_image level
SKIP_ATTR = ('island', 'uuid')


def _same(a, b):
    if isinstance(a, str) or isinstance(b, str):
        return a == b
    try:
        fa, fb = float(a), float(b)
    except (TypeError, ValueError):
        return a == b
    return fa == fb or (np.isnan(fa) and np.isnan(fb))


def _src_diff(a, b, names):
    return [n for n in names if n not in SKIP_ATTR and not _same(getattr(a, n), getattr(b, n))]


def _run_finder(sf_mod, fn, sigma, inner, outer, mask, **kw):
    calls = []
    orig = sf_mod.SourceFinder._fit_island

    def spy(self, island_data):
        xmin, xmax, ymin, ymax = island_data.offsets
        rr, cc = np.where(np.isfinite(island_data.i))
        calls.append((int(island_data.isle_num), frozenset(zip((rr + int(xmin)).tolist(), (cc + int(ymin)).tolist()))))
        return orig(self, island_data)

    sf_mod.SourceFinder._fit_island = spy
    try:
        finder = sf_mod.SourceFinder()
        srcs = finder.find_sources_in_image(fn, rms=sigma, bkg=0.0, cores=1, innerclip=inner, outerclip=outer, mask=mask, **kw)
    finally:
        sf_mod.SourceFinder._fit_island = orig
    return calls, list(srcs)


class _Row:
    """a catalogue row read back from a csv table, attribute access like a ComponentSource"""

    def __init__(self, d):
        self.__dict__.update(d)


def _run_cli(sf_mod, fn, sigma, inner, outer, maskfile, outbase, extra=(), region_first=False):
    import csv
    from AegeanTools.CLI import aegean as cli
    calls = []
    orig = sf_mod.SourceFinder._fit_island

    def spy(self, island_data):
        xmin, xmax, ymin, ymax = island_data.offsets
        rr, cc = np.where(np.isfinite(island_data.i))
        calls.append((int(island_data.isle_num), frozenset(zip((rr + int(xmin)).tolist(), (cc + int(ymin)).tolist()))))
        return orig(self, island_data)

    sf_mod.SourceFinder._fit_island = spy
    argv = [fn, '--cores', '1', '--forcerms', repr(sigma), '--forcebkg', '0', '--seedclip', repr(inner),
            '--floodclip', repr(outer), '--negative', '--table', outbase + '.csv']
    if maskfile and region_first:
        argv = argv + ['--region', maskfile] + list(extra)
    elif maskfile:
        argv = argv + list(extra) + ['--region', maskfile]
    else:
        argv = argv + list(extra)
    try:
        rc = cli.main(argv)
    finally:
        sf_mod.SourceFinder._fit_island = orig
    rows = []
    comp = outbase + '_comp.csv'
    if os.path.exists(comp):
        with open(comp) as f:
            for d in csv.DictReader(f):
                d['island'] = int(d['island'])
                d['source'] = int(d['source'])
                rows.append(_Row(d))
    return calls, rows, rc


def compare_catalogues(o, wit, mem, ucalls, usrcs, rcalls, rsrcs, names, prefix='finder_'):
    """restricted run (rcalls, rsrcs) against the unrestricted run (ucalls, usrcs) filtered by the membership map `mem`
    (None = no region expected to act: every island is to be kept, nothing may change); -> (kept, dropped)"""
    ucomp = {}
    for num, p in ucalls:
        ucomp[p] = sorted([s for s in usrcs if int(s.island) == num], key=lambda s: int(s.source))
    rcomp = {}
    for num, p in rcalls:
        rcomp[p] = sorted([s for s in rsrcs if int(s.island) == num], key=lambda s: int(s.source))
    rnums = set(c[0] for c in rcalls)
    for s in rsrcs:
        if int(s.island) not in rnums:
            o.violate('component_of_unknown_island', dict(wit, island=int(s.island)))
    whole = mem is None or bool(mem.judged.all() and mem.inside.all())
    if whole:
        o.count(prefix + 'whole_image_region')
    for p in rcomp:
        if p not in ucomp:
            o.violate('restricted_island_not_in_unrestricted', dict(wit, island=sorted(p)[:60]))
    nk = nd = 0
    for p, comps in ucomp.items():
        st, n_in, n_unj = ('keep', len(p), 0) if mem is None else mem.island_status(p)
        if st is None:
            o.count(prefix + 'islands_undetermined')
            continue
        if st == 'keep':
            nk += 1
            o.count(prefix + 'islands_kept')
            if n_in < len(p):
                o.count(prefix + 'islands_straddling_edge')
            if p not in rcomp:
                o.violate('lost_island_with_pixel_inside_region' if not whole else 'whole_image_region_changes_result',
                          dict(wit, island=sorted(p)[:60], pixels_inside=n_in, components_lost=len(comps)))
                continue
            got = rcomp[p]
            if len(got) != len(comps):
                o.violate('component_count_differs', dict(wit, island=sorted(p)[:60], unrestricted=len(comps), restricted=len(got)))
                continue
            for a, b in zip(comps, got):
                o.count(prefix + 'components_compared')
                diff = _src_diff(a, b, names)
                if diff:
                    o.violate('component_attribute_differs',
                              dict(wit, attributes=diff, unrestricted=[str(getattr(a, n)) for n in diff],
                                   restricted=[str(getattr(b, n)) for n in diff]))
        else:
            nd += 1
            o.count(prefix + 'islands_dropped')
            if p in rcomp:
                o.violate('kept_island_without_pixel_inside_region',
                          dict(wit, island=sorted(p)[:60], components=len(rcomp[p])))
    return nk, nd


def finder_case(o, case, distinct):
    from astropy.io import fits
    from AegeanTools import source_finder as sf_mod
    from AegeanTools.models import ComponentSource
    from aegmon.refs import render
    rng = rng_for(*case['seed'])
    rows, cols = int(rng.integers(60, 100)), int(rng.integers(90, 150))
    if rng.random() < 0.3:
        rows, cols = cols, rows
    depth = int(rng.integers(11, 14))
    cell = 58.6323 / 2 ** depth
    ratio = float(10 ** rng.uniform(np.log10(0.3), np.log10(3.0)))
    pix = cell / ratio
    beam = (float(rng.uniform(2.6, 3.6)) * pix, float(rng.uniform(1.9, 2.4)) * pix, float(rng.uniform(-90, 90)))
    hdr = wcs_zenithal.make_header(proj=str(rng.choice(['SIN', 'TAN', 'ZEA', 'ARC', 'STG'])),
                                   crval=(float(rng.choice([rng.uniform(0, 360), 0.01, 359.98, -1.5, rng.uniform(-360, 0),
                                                            rng.uniform(360, 720)])), float(rng.uniform(-70, 70))),
                                   crpix=(float(rng.uniform(0, cols)), float(rng.uniform(0, rows))), cdelt=(-pix, pix),
                                   shape=(rows, cols), beam=beam)
    z = wcs_zenithal.ZenithalWCS(hdr)
    sigma = 1.0
    srcs = []
    for _ in range(int(rng.integers(9, 18))):
        ra, dec = z.index2sky(rng.uniform(2, rows - 3), rng.uniform(2, cols - 3))
        el = float(rng.choice([1.0, 1.0, 2.0, 4.0]))
        srcs.append({'ra': float(ra), 'dec': float(dec), 'peak': float(sigma * rng.uniform(7, 60) * rng.choice([1, 1, 1, -1])),
                     'a': beam[0] * 3600 * el, 'b': beam[1] * 3600, 'pa': float(rng.uniform(-90, 90))})
    img = render.render(z, (rows, cols), srcs)
    img += render.correlated_noise(rng, (rows, cols), sigma, (beam[0] / pix / 2.355, beam[1] / pix / 2.355), beam[2])
    data32 = img.astype(np.float32)
    inner, outer = (5.0, 4.0) if rng.random() < 0.7 else (6.0, 3.0)
    via = case['via']
    names = [n for n in ComponentSource.names]
    d = scratch_dir()
    try:
        fn = os.path.join(d, 'img.fits')
        fits.PrimaryHDU(data=data32, header=hdr).writeto(fn)
        try:
            if via == 'cli':
                ucalls, usrcs, rc = _run_cli(sf_mod, fn, sigma, inner, outer, None, os.path.join(d, 'unres'))
            else:
                ucalls, usrcs = _run_finder(sf_mod, fn, sigma, inner, outer, None)
        except Exception:
            o.violate('raises', {'where': 'unrestricted run', 'case': case, 'traceback': traceback.format_exc()[-800:]})
            return
        upix = [c[1] for c in ucalls]
        scene = {'rows': rows, 'cols': cols, 'pixscale': pix}
        kind = str(rng.choice(['circle', 'circle', 'poly', 'cells_of_island', 'all_but_island', 'whole', 'end_pixel_cell']))
        reg = build_region(rng, kind, scene, z, upix, depth)
        if reg is None:
            kind = 'circle'
            reg = build_region(rng, kind, scene, z, upix, depth)
        pd = copy_pixeldict(reg)
        cells = region_cells(pd, reg.maxdepth)
        mem = Membership(z, (rows, cols), reg.maxdepth, cells)
        if via in ('file', 'cli'):
            mask = os.path.join(d, 'region.mim')
            # A .mim file is a pickle of the Region; every other case it is written by other means than Region.save (as
            # another process, a copy or an rsync would).  Scratch names recur from case to case inside one worker, so
            # anything remembered per path (a cache of loaded regions) meets a file whose content has changed.
            if int(rng.integers(0, 2)):
                import pickle
                import copy as _copy
                with open(mask, 'wb') as fh:
                    pickle.dump(_copy.deepcopy(reg), fh, protocol=2)
                o.count('mask_files_written_without_region_save')
            else:
                reg.save(mask)
        else:
            mask = reg
        try:
            if via == 'cli':
                rcalls, rsrcs, rc = _run_cli(sf_mod, fn, sigma, inner, outer, mask, os.path.join(d, 'res'))
                names = [n for n in names if hasattr(usrcs[0], n)] if usrcs else names
            else:
                rcalls, rsrcs = _run_finder(sf_mod, fn, sigma, inner, outer, mask)
        except Exception:
            o.violate('raises', {'where': 'restricted run', 'case': case, 'region_kind': kind,
                                 'traceback': traceback.format_exc()[-800:]})
            return
    finally:
        shutil.rmtree(d, ignore_errors=True)
    o.n_eval += 1
    o.count('finder_pairs')
    o.count('finder_via_' + via)
    o.count('finder_pairs_crval1_negative' if hdr['CRVAL1'] < 0 else ('finder_pairs_crval1_above_360' if hdr['CRVAL1'] > 360
                                                                      else 'finder_pairs_crval1_0_360'))
    o.count('finder_region_' + kind)
    wit = {'case': case, 'region_kind': kind, 'depth': depth, 'shape': [rows, cols], 'inner': inner, 'outer': outer}
    nk, nd = compare_catalogues(o, wit, mem, ucalls, usrcs, rcalls, rsrcs, names)
    if nk + nd:
        distinct.add(hash((data32.tobytes(), cells.tobytes())))
    o.sample = {'shape': [rows, cols], 'depth': depth, 'cell_over_pixel': round(ratio, 3), 'region_kind': kind, 'via': via,
                'unrestricted_islands': len(ucalls), 'restricted_islands': len(rcalls),
                'unrestricted_components': len(usrcs), 'restricted_components': len(rsrcs), 'kept': nk, 'dropped': nd}


# ----------------------------------------------------------------------------- the aegean command line: option interactions
CLI_SCENARIOS = (
    # name, sibling files present, --autoload, --region B, region argument before --autoload, region expected to act
    ('region_only', (), False, True, False, 'B'),
    ('autoload_no_siblings', (), True, False, False, None),
    ('autoload_sibling_mim', ('mim',), True, False, False, 'A'),
    ('autoload_then_region_sibling_mim', ('mim',), True, True, False, 'B'),
    ('region_then_autoload_sibling_mim', ('mim',), True, True, True, 'B'),
    ('autoload_sibling_bkg_rms', ('bkg', 'rms'), True, False, False, None),
    ('autoload_region_sibling_bkg_rms', ('bkg', 'rms'), True, True, False, 'B'),
    ('autoload_sibling_all', ('mim', 'bkg', 'rms'), True, False, False, 'A'),
    ('autoload_region_sibling_all', ('mim', 'bkg', 'rms'), True, True, False, 'B'),
    ('region_only_sibling_mim_ignored', ('mim',), False, True, False, 'B'),
    ('no_options_sibling_mim_ignored', ('mim',), False, False, False, None),
)


def cli_options_case(o, case, distinct):
    """`aegean img.fits [--autoload] [--region B.mim]` with and without sibling img.mim (a DIFFERENT region A),
    img_bkg.fits, img_rms.fits next to the image.  Expected: the unrestricted run filtered by island membership in the
    region the user named (--region), else in the sibling region when --autoload is given, else unfiltered."""
    from astropy.io import fits
    from AegeanTools import source_finder as sf_mod
    from AegeanTools.models import ComponentSource
    from aegmon.refs import render
    rng = rng_for(*case['seed'])
    rows, cols = int(rng.integers(48, 72)), int(rng.integers(72, 110))
    depth = int(rng.integers(11, 14))
    ratio = float(10 ** rng.uniform(np.log10(0.5), np.log10(3.0)))
    pix = 58.6323 / 2 ** depth / ratio
    beam = (float(rng.uniform(2.6, 3.4)) * pix, float(rng.uniform(1.9, 2.4)) * pix, float(rng.uniform(-90, 90)))
    hdr = wcs_zenithal.make_header(proj=str(rng.choice(['SIN', 'TAN', 'ZEA'])),
                                   crval=(float(rng.choice([rng.uniform(0, 360), -2.0, 359.9])), float(rng.uniform(-60, 60))),
                                   crpix=(cols / 2.0, rows / 2.0), cdelt=(-pix, pix), shape=(rows, cols), beam=beam)
    z = wcs_zenithal.ZenithalWCS(hdr)
    sigma = 1.0
    srcs = []
    for _ in range(int(rng.integers(7, 12))):
        ra, dec = z.index2sky(rng.uniform(3, rows - 4), rng.uniform(3, cols - 4))
        srcs.append({'ra': float(ra), 'dec': float(dec), 'peak': float(sigma * rng.uniform(8, 40)),
                     'a': beam[0] * 3600 * float(rng.choice([1.0, 1.0, 2.5])), 'b': beam[1] * 3600,
                     'pa': float(rng.uniform(-90, 90))})
    img = render.render(z, (rows, cols), srcs)
    img += render.correlated_noise(rng, (rows, cols), sigma, (beam[0] / pix / 2.355, beam[1] / pix / 2.355), beam[2])
    data32 = img.astype(np.float32)
    inner, outer = 5.0, 4.0
    names = [n for n in ComponentSource.names]
    d = scratch_dir()
    try:
        fn = os.path.join(d, 'img.fits')
        fits.PrimaryHDU(data=data32, header=hdr).writeto(fn)
        os.makedirs(os.path.join(d, 'out'))
        try:
            ucalls, usrcs, rc = _run_cli(sf_mod, fn, sigma, inner, outer, None, os.path.join(d, 'out', 'unres'))
        except Exception:
            o.violate('raises', {'where': 'aegean, no region', 'case': case, 'traceback': traceback.format_exc()[-800:]})
            return
        if usrcs:
            names = [n for n in names if hasattr(usrcs[0], n)]
        upix = [c[1] for c in ucalls]
        scene = {'rows': rows, 'cols': cols, 'pixscale': pix}

        def make(tag):
            kind = str(rng.choice(['circle', 'circle', 'poly', 'cells_of_island', 'cells_of_island', 'end_pixel_cell']))
            reg = build_region(rng, kind, scene, z, upix, depth)
            if reg is None:
                kind = 'circle'
                reg = build_region(rng, kind, scene, z, upix, depth)
            cells = region_cells(copy_pixeldict(reg), reg.maxdepth)
            mem = Membership(z, (rows, cols), reg.maxdepth, cells)
            kept = frozenset(p for p in upix if mem.island_status(p)[0] == 'keep')
            return reg, mem, kept, kind, cells

        # two regions that keep different sets of islands (else the scenarios cannot tell them apart)
        A = make('A')
        B = make('B')
        for _ in range(8):
            if A[2] != B[2] and B[2]:
                break
            B = make('B')
        differ = bool(A[2] != B[2])
        mems = {'A': A[1], 'B': B[1], None: None}
        fileB = os.path.join(d, 'B.mim')
        B[0].save(fileB)
        sib = {'mim': os.path.join(d, 'img.mim'), 'bkg': os.path.join(d, 'img_bkg.fits'), 'rms': os.path.join(d, 'img_rms.fits')}
        chosen = [0, 2, 3, 4] + [int(k) for k in rng.choice(np.arange(len(CLI_SCENARIOS)), 3, replace=False)]
        for si in sorted(set(chosen)):
            name, siblings, autoload, use_b, region_first, acting = CLI_SCENARIOS[si]
            for k, path in sib.items():
                if os.path.exists(path):
                    os.remove(path)
            if 'mim' in siblings:
                A[0].save(sib['mim'])
            if 'bkg' in siblings:
                fits.PrimaryHDU(data=np.zeros((rows, cols), dtype=np.float32), header=hdr).writeto(sib['bkg'])
            if 'rms' in siblings:
                fits.PrimaryHDU(data=np.full((rows, cols), sigma, dtype=np.float32), header=hdr).writeto(sib['rms'])
            wit = {'case': case, 'scenario': name, 'siblings': list(siblings), 'autoload': autoload,
                   'region_option': 'B.mim' if use_b else None, 'region_expected_to_act': acting,
                   'region_kinds': {'A': A[3], 'B': B[3]}, 'islands_kept_by_A': len(A[2]), 'islands_kept_by_B': len(B[2]),
                   'unrestricted_islands': len(upix), 'shape': [rows, cols], 'depth': depth}
            try:
                rcalls, rsrcs, rc = _run_cli(sf_mod, fn, sigma, inner, outer, fileB if use_b else None,
                                             os.path.join(d, 'out', 'run_%d' % si), extra=['--autoload'] if autoload else [],
                                             region_first=region_first)
            except Exception:
                o.violate('raises', dict(wit, traceback=traceback.format_exc()[-800:]))
                continue
            o.n_eval += 1
            o.count('cli_runs_judged')
            o.count('cli_scenario_' + name)
            if rc not in (0, None):
                o.violate('cli_exit_code', dict(wit, returncode=rc))
                continue
            if autoload and use_b and 'mim' in siblings and differ:
                o.count('cli_autoload_and_region_with_different_sibling_region')
            nk, nd = compare_catalogues(o, wit, mems[acting], ucalls, usrcs, rcalls, rsrcs, names, prefix='cli_')
            if nk + nd:
                distinct.add(hash((data32.tobytes(), name)))
    finally:
        shutil.rmtree(d, ignore_errors=True)
    o.see('cli_crval1_sign', 'negative' if hdr['CRVAL1'] < 0 else 'positive')
    o.sample = {'shape': [rows, cols], 'depth': depth, 'unrestricted_islands': len(upix), 'kept_by_A': len(A[2]),
                'kept_by_B': len(B[2]), 'regions_differ': differ, 'scenarios': [CLI_SCENARIOS[i][0] for i in sorted(set(chosen))]}


# ----------------------------------------------------------------------------- find_sources_in_image with one big island
def finder_big_case(o, case, distinct):
    """one extended source whose island has 1100-3000 pixels plus compact ones; the region covers only the cells under
    one end (first/last rows/columns) of the big island.  The fit is kept cheap: smooth source, low real noise, one
    summit, no covariance matrix."""
    from astropy.io import fits
    from AegeanTools import source_finder as sf_mod
    from AegeanTools.models import ComponentSource
    from aegmon.refs import render
    rng = rng_for(*case['seed'])
    rows, cols = int(rng.integers(84, 100)), int(rng.integers(110, 130))
    if rng.random() < 0.4:
        rows, cols = cols, rows
    depth = int(rng.integers(11, 14))
    ratio = float(10 ** rng.uniform(np.log10(0.5), np.log10(3.0)))
    pix = 58.6323 / 2 ** depth / ratio
    beam = (3.0 * pix, 2.2 * pix, float(rng.uniform(-90, 90)))
    hdr = wcs_zenithal.make_header(proj=str(rng.choice(['SIN', 'TAN', 'ZEA'])),
                                   crval=(float(rng.choice([rng.uniform(0, 360), -2.5])), float(rng.uniform(-60, 60))),
                                   crpix=(cols / 2.0, rows / 2.0), cdelt=(-pix, pix), shape=(rows, cols), beam=beam)
    z = wcs_zenithal.ZenithalWCS(hdr)
    sigma = 1.0
    ra, dec = z.index2sky(rows / 2.0 + rng.uniform(-4, 4), cols / 2.0 + rng.uniform(-4, 4))
    fa, fb = float(rng.uniform(26, 36)), float(rng.uniform(17, 24))          # FWHM in pixels
    srcs = [{'ra': float(ra), 'dec': float(dec), 'peak': 60.0 * float(rng.choice([1, 1, -1])), 'a': fa * pix * 3600,
             'b': fb * pix * 3600, 'pa': float(rng.uniform(-90, 90))}]
    for _ in range(6):
        r, c = rng.uniform(3, rows - 4), rng.uniform(3, cols - 4)
        if abs(r - rows / 2.0) > 0.36 * rows or abs(c - cols / 2.0) > 0.40 * cols:
            ra, dec = z.index2sky(r, c)
            srcs.append({'ra': float(ra), 'dec': float(dec), 'peak': float(rng.uniform(10, 30)), 'a': beam[0] * 3600,
                         'b': beam[1] * 3600, 'pa': beam[2]})
    img = render.render(z, (rows, cols), srcs)
    img += render.correlated_noise(rng, (rows, cols), 0.03 * sigma, (beam[0] / pix / 2.355, beam[1] / pix / 2.355), beam[2])
    data32 = img.astype(np.float32)
    inner, outer = 5.0, 4.0
    names = [n for n in ComponentSource.names]
    d = scratch_dir()
    try:
        fn = os.path.join(d, 'img.fits')
        fits.PrimaryHDU(data=data32, header=hdr).writeto(fn)
        try:
            ucalls, usrcs = _run_finder(sf_mod, fn, sigma, inner, outer, None, docov=False, max_summits=2)
        except Exception:
            o.violate('raises', {'where': 'unrestricted run', 'case': case, 'traceback': traceback.format_exc()[-800:]})
            return
        upix = [c[1] for c in ucalls]
        kind = case['side']
        reg = build_region(rng, kind, {'rows': rows, 'cols': cols, 'pixscale': pix}, z, upix, depth)
        if reg is None:
            raise RuntimeError('harness: no island found in a finder_big field')
        cells = region_cells(copy_pixeldict(reg), reg.maxdepth)
        mem = Membership(z, (rows, cols), reg.maxdepth, cells)
        try:
            rcalls, rsrcs = _run_finder(sf_mod, fn, sigma, inner, outer, reg, docov=False, max_summits=2)
        except Exception:
            o.violate('raises', {'where': 'restricted run', 'case': case, 'region_kind': kind,
                                 'traceback': traceback.format_exc()[-800:]})
            return
    finally:
        shutil.rmtree(d, ignore_errors=True)
    o.n_eval += 1
    o.count('finder_big_pairs')
    for p in upix:
        if len(p) > 1024:
            _count_big(o, p, mem.island_status(p)[0], mem, 'finder_big_')
    wit = {'case': case, 'region_kind': kind, 'depth': depth, 'shape': [rows, cols], 'inner': inner, 'outer': outer,
           'biggest_island_pixels': max([len(p) for p in upix] or [0])}
    nk, nd = compare_catalogues(o, wit, mem, ucalls, usrcs, rcalls, rsrcs, names, prefix='finder_big_cmp_')
    if nk + nd:
        distinct.add(hash((data32.tobytes(), cells.tobytes())))
    o.sample = {'shape': [rows, cols], 'region_kind': kind, 'island_sizes': sorted(len(p) for p in upix),
                'restricted_islands': len(rcalls), 'kept': nk, 'dropped': nd}


# ----------------------------------------------------------------------------- near-extreme regions through the finder
def finder_hole_case(o, case, distinct):
    """find_sources_in_image(mask=Region | .mim file) and `aegean --region` with a region that is the whole sky minus a
    small hole (the HEALPix cells under one or two islands; 0.05 ... 3 deg^2 at depths 6-8), or its complement (only
    those cells).  Islands wholly inside the hole are not to be reported; everything else is, unchanged."""
    from astropy.io import fits
    from AegeanTools import source_finder as sf_mod
    from AegeanTools.models import ComponentSource
    from aegmon.refs import render
    rng = rng_for(*case['seed'])
    rows, cols = int(rng.integers(60, 90)), int(rng.integers(90, 130))
    if rng.random() < 0.3:
        rows, cols = cols, rows
    depth = int(case['depth'])
    cell = 58.6323 / 2 ** depth
    ratio = float(rng.uniform(10, 36))              # cells much larger than pixels: a cell can hold whole islands
    pix = cell / ratio
    beam = (float(rng.uniform(2.6, 3.6)) * pix, float(rng.uniform(1.9, 2.4)) * pix, float(rng.uniform(-90, 90)))
    hdr = wcs_zenithal.make_header(proj=str(rng.choice(['SIN', 'TAN', 'ZEA'])),
                                   crval=(float(rng.choice([rng.uniform(0, 360), -1.0])), float(rng.uniform(-70, 70))),
                                   crpix=(float(rng.uniform(0, cols)), float(rng.uniform(0, rows))), cdelt=(-pix, pix),
                                   shape=(rows, cols), beam=beam)
    z = wcs_zenithal.ZenithalWCS(hdr)
    sigma = 1.0
    srcs = []
    for _ in range(int(rng.integers(8, 15))):
        ra, dec = z.index2sky(rng.uniform(2, rows - 3), rng.uniform(2, cols - 3))
        srcs.append({'ra': float(ra), 'dec': float(dec), 'peak': float(sigma * rng.uniform(8, 50) * rng.choice([1, 1, 1, -1])),
                     'a': beam[0] * 3600 * float(rng.choice([1.0, 1.0, 2.0])), 'b': beam[1] * 3600,
                     'pa': float(rng.uniform(-90, 90))})
    img = render.render(z, (rows, cols), srcs)
    img += render.correlated_noise(rng, (rows, cols), sigma, (beam[0] / pix / 2.355, beam[1] / pix / 2.355), beam[2])
    data32 = img.astype(np.float32)
    inner, outer = 5.0, 4.0
    via = case['via']
    names = [n for n in ComponentSource.names]
    d = scratch_dir()
    try:
        fn = os.path.join(d, 'img.fits')
        fits.PrimaryHDU(data=data32, header=hdr).writeto(fn)
        try:
            if via == 'cli':
                ucalls, usrcs, rc = _run_cli(sf_mod, fn, sigma, inner, outer, None, os.path.join(d, 'unres'))
            else:
                ucalls, usrcs = _run_finder(sf_mod, fn, sigma, inner, outer, None)
        except Exception:
            o.violate('raises', {'where': 'unrestricted run', 'case': case, 'traceback': traceback.format_exc()[-800:]})
            return
        upix = [c[1] for c in ucalls]
        if not upix:
            raise RuntimeError('harness: no island in a finder_hole field')
        hole = set()
        for k in rng.choice(len(upix), size=min(len(upix), int(rng.integers(1, 3))), replace=False):
            pl = sorted(upix[int(k)])
            c, _ = cells_of(z, depth, [p[0] for p in pl], [p[1] for p in pl])
            hole.update(int(v) for v in c)
        if case['complement']:
            from AegeanTools.regions import Region
            reg = Region(maxdepth=depth)
            reg.add_pixels(sorted(hole), depth)
        else:
            reg = sky_minus_cells(depth, hole)
        area = float(reg.get_area())
        cells = region_cells(copy_pixeldict(reg), reg.maxdepth)
        mem = Membership(z, (rows, cols), reg.maxdepth, cells)
        if via in ('file', 'cli'):
            mask = os.path.join(d, 'region.mim')
            reg.save(mask)
        else:
            mask = reg
        try:
            if via == 'cli':
                rcalls, rsrcs, rc = _run_cli(sf_mod, fn, sigma, inner, outer, mask, os.path.join(d, 'res'))
                names = [n for n in names if hasattr(usrcs[0], n)] if usrcs else names
            else:
                rcalls, rsrcs = _run_finder(sf_mod, fn, sigma, inner, outer, mask)
        except Exception:
            o.violate('raises', {'where': 'restricted run', 'case': case, 'traceback': traceback.format_exc()[-800:]})
            return
    finally:
        shutil.rmtree(d, ignore_errors=True)
    o.n_eval += 1
    allsky = 4 * 180.0 ** 2 / np.pi
    gap = allsky - area
    o.count('finder_hole_pairs')
    o.count('finder_hole_via_' + via)
    o.count('finder_hole_depth_%d' % depth)
    if case['complement']:
        o.count('finder_hole_complement_tiny_region')
        o.worst('tiny_region_smallest_area_deg2_negated', -area)
    else:
        o.count('finder_hole_sky_minus_hole')
        o.count('finder_hole_missing_area_below_0.25_deg2' if gap < 0.25 else (
            'finder_hole_missing_area_0.25_to_1_deg2' if gap < 1.0 else 'finder_hole_missing_area_above_1_deg2'))
    o.see('hole_area_deg2', round(gap if not case['complement'] else area, 3))
    wit = {'case': case, 'depth': depth, 'shape': [rows, cols], 'region_area_deg2': area, 'sky_minus_region_deg2': gap,
           'hole_cells': sorted(hole)[:20], 'via': via}
    nk, nd = compare_catalogues(o, wit, mem, ucalls, usrcs, rcalls, rsrcs, names, prefix='finder_hole_')
    if not case['complement'] and nd:
        o.count('finder_hole_runs_with_island_wholly_in_hole')
    if nk + nd:
        distinct.add(hash((data32.tobytes(), cells.tobytes())))
    o.sample = {'shape': [rows, cols], 'depth': depth, 'via': via, 'complement': case['complement'],
                'region_area_deg2': area, 'islands': len(ucalls), 'kept': nk, 'dropped': nd}
