"""C12 - region exports (MOC FITS, DS9 reg, .mim) describe exactly the region's sky area.

The files written by the real code are read back by independent readers:
  * MOC: astropy.io.fits, NUNIQ decoded by aegmon/refs/healset.py (order from the bit length), expanded to the deepest
    level and compared with the region's deepest-level set; MOCORDER compared with maxdepth.
  * DS9: lines parsed by regex, RA read as hours, every polygon matched to one stored pixel whose four corners
    (healpy.boundaries, step=1) are within 0.2 arcsec of the printed vertices (the file prints 0.01 s / 0.01 arcsec, i.e.
    at most 0.0752 arcsec of rounding); one polygon per stored pixel, none left over.
  * .mim: save -> load must give the same maxdepth and the same pixels level by level (by value), and the reloaded
    region must give the same deepest set and area.
"The region's pixel set" is the expansion of a copy of `pixeldict` taken before the export (whether that state is
what the operations should have produced is C08's question; disagreements with the shadow model are only counted here).
Every export is taken before and after the queries that demote the internal representation, and the region's state
must be the same sky after each export.
Sequence cases drive the MIMAS module functions / CLI main repeatedly in ONE process on the SAME .mim paths (save,
export, mask, combine, intersect, export again, overwrite the file by Region.save and by a plain pickle dump, export
again): whatever the code remembers between calls, every export and load must describe the file that is on disk.
Extreme cases: whole sky minus a few cells (and a few cells only; and overlapping descriptions whose summed area is the
sphere) at every depth 1..12, built by different routes; where the deepest level cannot be enumerated (> 4e5 cells) the
file and the region are compared in canonical multi-level form and no demoting query is made.
Alias cases: a region built from another one (union into an empty region, add_pixels with the other's sets, pickle
copy, ...), ONE of the two modified, BOTH exported; the untouched one is judged against a by-value snapshot.
"""
import contextlib
import io
import os
import re
import shutil
import traceback

import numpy as np

from aegmon.common import Obs, rng_for, scratch_dir
from aegmon.refs import healset as hs
from aegmon.props import c08

ID = 'C12'
LEVEL = 'exploration'
RULE = ('a case is one region (direct constructions: empty / single pixel at every level / multi-level / whole sky at '
        'depths 1..12; or the regions left by one C08 random history) exported as MOC, DS9 and .mim before and after '
        'sky_within and get_demoted, also through MIMAS.mim2fits/mim2reg and the CLI; or one in-process sequence of MIMAS '
        'function / CLI calls on the same .mim paths (save, export, mask, combine, intersect, export, overwrite, export) '
        'judged against the file on disk; an evaluation is one file judged; '
        'non-trivial = the region is not empty; distinct = case hash')
ASSUMPTIONS = ['astropy.io.fits reads what was written', 'healpy.boundaries(step=1, nest=True) gives the corners of a pixel '
               '(same library the exporter uses; independent here: which pixels, which level, units, sexagesimal text)',
               'aegmon/refs/healset.py NUNIQ decode, checked against the definition in the MOC standard at start-up']
MIN_REACH = {'regions:Region.write_fits': 1, 'regions:Region._uniq': 1, 'regions:Region.write_reg': 1,
             'regions:Region.save': 1, 'regions:Region.load': 1, 'MIMAS:mim2fits': 1, 'MIMAS:mim2reg': 1,
             'regions:Region.get_demoted': 1, 'regions:Region.sky_within': 1, 'MIMAS:intersect_regions': 1,
             'MIMAS:mask_catalog': 1, 'MIMAS:mask_file': 1, 'MIMAS:combine_regions': 1, 'MIMAS:save_region': 1}
MIN_COUNTERS = {'moc_files_judged': 300, 'moc_after_query_judged': 100, 'moc_cells_at_maxdepth': 1000,
                'moc_cells_below_maxdepth': 300, 'reg_files_judged': 100, 'reg_polygons_judged': 2000,
                'reg_after_query_judged': 30, 'mim_roundtrips_judged': 200, 'depths_1_to_12_direct': 12,
                'via_mimas_functions': 20, 'via_cli': 4, 'whole_sky_regions': 2, 'empty_regions': 5,
                'history_regions': 50, 'sequences': 20, 'intersect_judged': 60, 'intersect_differs_from_a': 30,
                'sequence_exports_after_intersect': 80, 'sequence_exports_after_rewrite': 80,
                'sequence_exports_before_intersect': 10, 'sequence_loads_judged': 150, 'mask_catalog_calls_ok': 8,
                'mask_file_calls_ok': 8, 'combine_from_files_judged': 30,
                'extreme_regions': 50, 'near_full_sky_regions': 10, 'near_full_sky_moc_judged': 15,
                'whole_sky_minus_a_few_cells_moc_judged': 60, 'near_empty_sky_moc_judged': 15,
                'moc_judged_in_canonical_form': 10, 'extreme_route_whole_without': 8, 'extreme_route_overlap_sum_full': 8,
                'alias_cases': 100, 'alias_untouched_exports_judged': 500, 'alias_untouched_state_checks': 300,
                'alias_modified_A': 30, 'alias_modified_B': 30, 'alias_route_union_into_empty': 10,
                'alias_route_union_into_deeper': 8, 'alias_route_add_pixels_layers': 8,
                'alias_route_shared_caller_set': 8, 'alias_route_pickle_copy': 8,
                'degrade_cases': 60, 'degrade_operand_pixels_on_intermediate_levels': 300,
                'degrade_operand_not_queried': 30, 'degrade_operand_queried_first': 30, 'degrade_via_api': 25,
                'degrade_via_cli': 25,
                'special_id_regions': 100, 'special_id_via_cli': 25, 'special_id_via_functions': 25,
                'mim_saved_with_a_layer_equal_to_pixel_zero': 60,
                'mim_saved_with_a_layer_equal_to_pixel_zero_no_query_before': 40,
                'mim_saved_with_a_layer_equal_to_last_pixel': 60}
BATCH_TIMEOUT = 1500

REG_TOL_ARCSEC = 0.2
COARSEST_SPAN = 6           # constructions store pixels at levels maxdepth-6 .. maxdepth
REG_MAX_POLY = 200          # write_reg builds one SkyCoord per vertex (about 2 ms per polygon)


# ---------------------------------------------------------------------------------------------- mechanism predicates
def mechanism(clause, w):
    """uniq-misses-deepest-level: the MOC has no cell of order == maxdepth although the region stores pixels there, and
                                  what is missing from the decoded set is exactly the sky of those pixels
       maxdepth-1-demote:         UnboundLocalError out of _demote_all on a maxdepth=1 region"""
    if clause == 'moc_vs_region' and 'mim2fits' not in str(w.get('stage', '')) and w.get('expected_from_snapshot') is None \
            and w.get('n_stored_at_maxdepth', 0) > 0 and w.get('n_cells_at_maxdepth') == 0 \
            and w.get('n_extra') == 0 and w.get('missing_is_exactly_deepest_level'):
        return 'uniq-misses-deepest-level'
    if clause == 'raises' and w.get('exc_type') == 'UnboundLocalError' and '_demote_all' in w.get('tb', '') \
            and w.get('maxdepth') == 1:
        return 'maxdepth-1-demote'
    return None


# ---------------------------------------------------------------------------------------------- readers
def snapshot(region):
    levels, frac = hs.to_levels(dict((d, set(s)) for d, s in region.pixeldict.items()))
    return levels, frac


def read_moc(path):
    from astropy.io import fits
    with fits.open(path) as h:
        hdr = h[1].header
        cols = [c.name for c in h[1].columns]
        data = h[1].data
        vals = [] if data is None or len(data) == 0 else [int(x) for x in np.asarray(data[cols[0]]).ravel()]
        meta = {'MOCORDER': hdr.get('MOCORDER'), 'ORDERING': str(hdr.get('ORDERING', '')).strip(),
                'PIXTYPE': str(hdr.get('PIXTYPE', '')).strip(), 'TFORM1': hdr.get('TFORM1'), 'column': cols[0],
                'dtype_kind': None if data is None or len(data) == 0 else np.asarray(data[cols[0]]).dtype.kind}
    return vals, meta


_POLY = re.compile(r'^\s*fk5\s*;\s*polygon\(([^)]*)\)\s*$')


def _sexa(txt):
    t = txt.strip()
    neg = t.startswith('-')
    parts = t.lstrip('+-').split(':')
    if len(parts) != 3:
        raise ValueError(txt)
    a, b, c = float(parts[0]), float(parts[1]), float(parts[2])
    v = a + b / 60.0 + c / 3600.0
    return -v if neg else v


def read_reg(path):
    """-> list of polygons, each an array (n,3) of unit vectors; raises ValueError on a line that is not a polygon"""
    polys = []
    with open(path) as f:
        for line in f:
            if not line.strip() or line.startswith('#'):
                continue
            m = _POLY.match(line)
            if not m:
                raise ValueError('not a polygon line: %r' % line[:80])
            tok = m.group(1).split(',')
            if len(tok) % 2 or len(tok) < 6:
                raise ValueError('odd number of coordinates: %r' % line[:80])
            ra = np.radians([15.0 * _sexa(x) for x in tok[0::2]])
            dec = np.radians([_sexa(x) for x in tok[1::2]])
            polys.append(np.column_stack([np.cos(dec) * np.cos(ra), np.cos(dec) * np.sin(ra), np.sin(dec)]))
    return polys


def _sep_arcsec(a, b):
    """separation matrix (len(a), len(b)) between unit vectors, arcsec, atan2 form"""
    a = a[:, None, :]
    b = b[None, :, :]
    cr = np.linalg.norm(np.cross(a, b), axis=2)
    dt = np.sum(a * b, axis=2)
    return np.degrees(np.arctan2(cr, dt)) * 3600.0


def judge_reg(polys, levels):
    """match every polygon to one stored pixel -> dict(problems, worst, n)"""
    import healpy as hp
    stored = set((d, p) for d, s in levels.items() for p in s)
    unmatched = set(stored)
    worst = 0.0
    probs = []
    ds = sorted(d for d, s in levels.items() if s)
    for k, P in enumerate(polys):
        c = P.sum(axis=0)
        c = c / np.linalg.norm(c)
        hit = None
        best = None
        for d in ds:
            p = int(hp.vec2pix(2 ** d, c[0], c[1], c[2], nest=True))
            if (d, p) not in stored:
                continue
            corners = np.array(hp.boundaries(2 ** d, p, step=1, nest=True)).T      # (4,3)
            if len(P) != len(corners):
                continue
            S = _sep_arcsec(P, corners)
            # bijection: every printed vertex has its own nearest corner
            near = S.argmin(axis=1)
            worst_v = float(S.min(axis=1).max())
            if best is None or worst_v < best[0]:
                best = (worst_v, d, p, len(set(near.tolist())) == len(corners))
        if best is not None and best[0] <= REG_TOL_ARCSEC and best[3]:
            hit = (best[1], best[2])
            worst = max(worst, best[0])
        if hit is None:
            probs.append({'kind': 'polygon_is_not_a_stored_pixel', 'line': k,
                          'nearest_candidate': None if best is None else {'level': best[1], 'pix': best[2],
                                                                          'worst_vertex_arcsec': best[0]},
                          'n_vertices': int(len(P))})
        elif hit not in unmatched:
            probs.append({'kind': 'pixel_drawn_twice', 'line': k, 'level': hit[0], 'pix': hit[1]})
        else:
            unmatched.discard(hit)
        if len(probs) >= 5:
            break
    if not probs and unmatched:
        ex = sorted(unmatched)[:4]
        probs.append({'kind': 'stored_pixel_without_polygon', 'n': len(unmatched), 'examples': ex,
                      'levels_missing': sorted(set(d for d, p in unmatched))})
    return {'problems': probs, 'worst': worst, 'n': len(polys), 'n_stored': len(stored)}


# ---------------------------------------------------------------------------------------------- sky comparison
BIG = 400000        # above this many deepest-level cells two descriptions are compared in canonical multi-level form


def est_size(levels, M):
    return sum(len(s) * 4 ** max(0, M - d) for d, s in levels.items())


def canon(levels):
    """canonical multi-level form of a description {level: set(int)}: cells with a stored ancestor dropped, complete
    sibling quadruples merged upwards as far as level 0.  Two descriptions cover the same sky iff their canonical forms
    are equal; nothing is ever expanded, so whole-sky-minus-a-few-cells at depth 12 stays a few dozen cells."""
    lv = dict((d, set(x)) for d, x in levels.items() if x)
    ds = sorted(lv)
    for i, d in enumerate(ds):
        for e in ds[:i]:
            sh = 2 * (d - e)
            up = lv[e]
            lv[d] = set(p for p in lv[d] if (p >> sh) not in up)
    for d in range(max(lv) if lv else 0, 0, -1):
        cur = lv.get(d)
        if not cur:
            continue
        for p in [q for q in cur if q % 4 == 0]:
            if p + 1 in cur and p + 2 in cur and p + 3 in cur:
                cur.difference_update((p, p + 1, p + 2, p + 3))
                lv.setdefault(d - 1, set()).add(p >> 2)
    return dict((d, x) for d, x in lv.items() if x)


_canon_checked = [False]


def canon_selfcheck():
    if _canon_checked[0]:
        return
    rng = np.random.default_rng(4242)
    for _ in range(60):
        M = int(rng.integers(1, 5))
        lv = {}
        for d in range(0, M + 1):
            n = int(rng.integers(0, 1 + hs.npix(d) // 2))
            lv[d] = set(int(x) for x in rng.integers(0, hs.npix(d), n))
        c = canon(lv)
        if hs.expand(c, M) != hs.expand(lv, M) or hs.overlap_problems(c) or hs.n_mergeable(c, lowest=0):
            raise RuntimeError('oracle fault: canonical form')
        other = dict(lv)
        other[M] = set(lv[M]) | {int(rng.integers(0, hs.npix(M)))}
        if (canon(other) == c) != (hs.expand(other, M) == hs.expand(lv, M)):
            raise RuntimeError('oracle fault: canonical form equality')
    if canon({1: set(range(48))}) != {0: set(range(12))} or canon({2: set(range(192)) - {5}}) != \
            {0: set(range(1, 12)), 1: {0, 2, 3}, 2: {4, 6, 7}}:
        raise RuntimeError('oracle fault: canonical form constants')
    _canon_checked[0] = True


def sky(levels, M):
    """a comparable token for the sky covered: the deepest-level set, or the canonical form when that would be huge"""
    if est_size(levels, M) > BIG:
        return ('canon', canon(dict((d, x) for d, x in levels.items())))
    return ('set', hs.expand(levels, M))


def complement_levels(holes, M):
    """whole sky minus the deepest-level cells `holes`, as non-overlapping cells at levels 1..M (never expanded)"""
    anc = dict((d, set(h >> (2 * (M - d)) for h in holes)) for d in range(0, M + 1))
    out = dict((d, set()) for d in range(1, M + 1))
    for b in range(12):
        if b not in anc[0]:
            out[1].update(range(4 * b, 4 * b + 4))
    for d in range(1, M + 1):
        for a in anc[d - 1]:
            out[d].update(c for c in range(4 * a, 4 * a + 4) if c not in anc[d])
    return out


# ---------------------------------------------------------------------------------------------- the export battery
class Exporter:
    def __init__(self, o, workdir, desc):
        self.o = o
        self.workdir = workdir
        self.desc = desc
        self.n = 0
        self.dead = False

    def violate(self, clause, detail, region, stage):
        w = {'region': self.desc, 'stage': stage, 'maxdepth': getattr(region, 'maxdepth', None)}
        try:
            w['stored_per_level'] = dict((int(d), len(s)) for d, s in region.pixeldict.items() if len(s))
        except Exception:
            pass
        w.update(detail)
        m = mechanism(clause, w)
        self.o.violate(clause, w, m)
        if m:
            self.o.count('mechanism_' + m)

    def subject(self, region, stage, fn, *a):
        try:
            return True, fn(*a)
        except Exception as e:
            self.violate('raises', {'exc_type': type(e).__name__, 'exc': repr(e)[:300],
                                    'tb': traceback.format_exc()[-900:], 'call': getattr(fn, '__name__', str(fn))},
                         region, stage)
            return False, None

    def path(self, ext):
        self.n += 1
        return os.path.join(self.workdir, 'x%d.%s' % (self.n, ext))

    # ---- one file each
    def moc(self, region, stage, writer=None, after_query=False, expect=None):
        """`expect` (a by-value snapshot) replaces the region's own state as the truth the file is judged against"""
        o = self.o
        own, frac = snapshot(region)
        if frac:
            o.count('skipped_fractional_state')
            return
        own_sky = sky(own, region.maxdepth)
        levels = expect.pixeldict if expect is not None else own
        M = expect.maxdepth if expect is not None else region.maxdepth
        path = self.path('fits')
        ok, _ = self.subject(region, stage, writer or region.write_fits, path)
        if not ok:
            return
        vals, meta = read_moc(path)
        os.remove(path)
        cells, probs = hs.decode_moc(vals)
        o.count('moc_files_judged')
        o.count('moc_after_query_judged', 1 if after_query else 0)
        o.count('moc_cells_decoded', len(vals))
        o.count('moc_cells_at_maxdepth', len(cells.get(M, ())))
        o.count('moc_cells_below_maxdepth', sum(len(s) for d, s in cells.items() if d < M))
        o.n_eval += 1
        o.see('moc_order_header', meta['MOCORDER'])
        o.see('moc_ordering', meta['ORDERING'])
        if probs:
            self.violate('moc_invalid_cells', {'problems': probs[:4]}, region, stage)
        too_deep = sorted(d for d in cells if d > M)
        if too_deep:
            self.violate('moc_cell_deeper_than_order', {'orders': too_deep}, region, stage)
        if meta['MOCORDER'] != M:
            self.violate('moc_order', {'MOCORDER': meta['MOCORDER']}, region, stage)
        cm = dict((d, s) for d, s in cells.items() if d <= M)
        if est_size(levels, M) > BIG or est_size(cm, M) > BIG:
            tc, gc = canon(levels), canon(cm)
            o.count('moc_judged_in_canonical_form')
            if tc != gc:
                only_r = sorted((d, p) for d in tc for p in tc[d] - gc.get(d, set()))
                only_m = sorted((d, p) for d in gc for p in gc[d] - tc.get(d, set()))
                self.violate('moc_vs_region', {'compared': 'canonical multi-level forms', 'n_cells_only_in_region': len(only_r),
                                               'n_cells_only_in_moc': len(only_m), 'cells_only_in_region': only_r[:5],
                                               'cells_only_in_moc': only_m[:5],
                                               'cells_per_order': dict((d, len(s)) for d, s in cells.items())}, region, stage)
            self.unchanged(region, own_sky, stage, 'write_fits')
            return
        truth = hs.expand(levels, M)
        got = hs.expand(cm, M)
        if got != truth:
            miss = truth - got
            extra = got - truth
            deepest = levels.get(M, set())
            self.violate('moc_vs_region', {'n_region': len(truth), 'n_moc': len(got), 'n_missing': len(miss),
                                           'n_extra': len(extra), 'missing': sorted(miss)[:5], 'extra': sorted(extra)[:5],
                                           'n_stored_at_maxdepth': len(deepest), 'n_cells_at_maxdepth': len(cells.get(M, ())),
                                           'missing_is_exactly_deepest_level': miss == (deepest - hs.expand(
                                               dict((d, s) for d, s in levels.items() if d < M), M)),
                                           'cells_per_order': dict((d, len(s)) for d, s in cells.items())}, region, stage)
        self.unchanged(region, own_sky, stage, 'write_fits')

    def reg(self, region, stage, writer=None, after_query=False, expect=None):
        o = self.o
        own, frac = snapshot(region)
        if frac:
            return
        levels = expect.pixeldict if expect is not None else own
        nst = max(sum(len(s) for s in levels.values()), sum(len(s) for s in own.values()))
        if nst > REG_MAX_POLY:
            o.count('reg_skipped_size')
            return
        own_sky = sky(own, region.maxdepth)
        path = self.path('reg')
        ok, _ = self.subject(region, stage, writer or region.write_reg, path)
        if not ok:
            return
        try:
            polys = read_reg(path)
        except ValueError as e:
            self.violate('reg_unparsable', {'error': str(e)[:200]}, region, stage)
            return
        finally:
            if os.path.exists(path):
                os.remove(path)
        res = judge_reg(polys, levels)
        o.count('reg_files_judged')
        o.count('reg_after_query_judged', 1 if after_query else 0)
        o.count('reg_polygons_judged', res['n'])
        o.worst('reg_vertex_sep_arcsec', res['worst'])
        o.n_eval += 1
        if res['n'] != res['n_stored']:
            self.violate('reg_polygon_count', {'polygons': res['n'], 'stored_pixels': res['n_stored']}, region, stage)
        for p in res['problems'][:3]:
            self.violate('reg_' + p['kind'], p, region, stage)
        self.unchanged(region, own_sky, stage, 'write_reg')

    def mim(self, region, stage, saver=None, expect=None):
        o = self.o
        from AegeanTools.regions import Region
        own, frac = snapshot(region)
        if frac:
            return None
        own_sky = sky(own, region.maxdepth)
        levels = expect.pixeldict if expect is not None else own
        M = expect.maxdepth if expect is not None else region.maxdepth
        big = own_sky[0] == 'canon'
        truth = None if big else hs.expand(own, region.maxdepth)
        path = self.path('mim')
        if saver is None:
            ok, _ = self.subject(region, stage, region.save, path)
        else:
            ok, _ = self.subject(region, stage, saver, region, path)
        if not ok:
            return None
        ok, r2 = self.subject(region, stage, Region.load, path)
        if not ok:
            return None
        o.count('mim_roundtrips_judged')
        o.n_eval += 1
        if any(x == {0} for x in own.values()):
            o.count('mim_saved_with_a_layer_equal_to_pixel_zero')
            if len(getattr(region, 'demoted', ())) == 0:
                o.count('mim_saved_with_a_layer_equal_to_pixel_zero_no_query_before')
        if any(x == {hs.npix(d) - 1} for d, x in own.items()):
            o.count('mim_saved_with_a_layer_equal_to_last_pixel')
        l2, f2 = snapshot(r2)
        same = (not f2) and r2.maxdepth == M and dict((d, s) for d, s in l2.items() if s) == \
            dict((d, s) for d, s in levels.items() if s)
        if not same:
            self.violate('mim_reload_differs', {'loaded_maxdepth': r2.maxdepth,
                                                'loaded_per_level': dict((d, len(s)) for d, s in l2.items() if s)},
                         region, stage)
        elif big:
            o.count('mim_answers_not_asked_of_huge_region')      # get_demoted would enumerate > 4e5 cells
        else:
            # the reloaded object must also *answer* like the original does (asked of a deep copy of the original, so
            # nothing is demoted by asking; whether those answers are the right ones is C08's question)
            import copy
            c = copy.deepcopy(region)
            ok0, d0 = self.subject(c, stage + ':clone', c.get_demoted)
            ok, d2 = self.subject(r2, stage + ':reloaded', r2.get_demoted)
            if ok and ok0:
                dl, df = hs.to_levels({M: set(d2)})
                cl, cf = hs.to_levels({M: set(d0)})
                ok0, a0 = self.subject(c, stage + ':clone', c.get_area)
                ok2, a2 = self.subject(r2, stage + ':reloaded', r2.get_area)
                if df or cf or dl[M] != cl[M]:
                    self.violate('mim_reloaded_answers', {'n_demoted_reloaded': len(dl[M]), 'n_demoted_original': len(cl[M]),
                                                          'n_region': len(truth)}, region, stage)
                elif ok0 and ok2 and not abs(a2 - a0) <= 1e-9 * max(abs(a0), 1e-30):
                    self.violate('mim_reloaded_area', {'area_reloaded': a2, 'area_original': a0}, region, stage)
                if cl[M] != truth:
                    self.o.count('original_answers_differ_from_its_own_pixeldict')     # C08's finding (stale cache)
        self.unchanged(region, own_sky, stage, 'save')
        return path

    def unchanged(self, region, before, stage, what):
        levels, frac = snapshot(region)
        if frac or sky(levels, region.maxdepth) != before:
            self.violate('export_changed_region', {'export': what}, region, stage)

    # ---- the battery
    def battery(self, region, model=None, via='methods'):
        """exports before and after the demoting queries"""
        from AegeanTools import MIMAS
        o = self.o
        M = region.maxdepth
        levels, frac = snapshot(region)
        if frac:
            o.count('skipped_fractional_state')
            return
        token = sky(levels, M)
        if model is not None and token[0] == 'set' and token[1] != model:
            o.count('state_differs_from_shadow_model')      # C08's finding, not judged here
        o.see('maxdepth', M)
        o.worst('stored_pixels', sum(len(s) for s in levels.values()))
        stages = ['fresh', 'after_sky_within', 'after_get_demoted']
        if token[0] == 'canon':
            stages = ['fresh']          # a query would enumerate more than 4e5 deepest-level cells
            o.count('huge_regions_exported_without_queries')
        for st in stages:
            if st == 'after_sky_within':
                ok, _ = self.subject(region, st, region.sky_within, [0.3, 1.0], [0.1, -0.4])
                if not ok:
                    return
            elif st == 'after_get_demoted':
                ok, _ = self.subject(region, st, region.get_demoted)
                if not ok:
                    return
            aq = st != 'fresh'
            if via == 'methods':
                self.moc(region, st, after_query=aq)
                self.reg(region, st, after_query=aq)
                self.mim(region, st)
            else:
                # through MIMAS: save_region -> mim2fits / mim2reg (function level or the command line)
                path = self.mim(region, st, saver=MIMAS.save_region)
                if path is None:
                    return
                if via == 'functions':
                    o.count('via_mimas_functions')
                    self.moc(region, st + ':mim2fits', writer=lambda out: MIMAS.mim2fits(path, out), after_query=aq)
                    self.reg(region, st + ':mim2reg', writer=lambda out: MIMAS.mim2reg(path, out), after_query=aq)
                else:
                    from AegeanTools.CLI import MIMAS as cli
                    o.count('via_cli')

                    def run_cli(flag):
                        def f(out):
                            buf = io.StringIO()
                            with contextlib.redirect_stdout(buf):
                                rc = cli.main([flag, path, out])
                            if rc not in (0, None):
                                raise RuntimeError('MIMAS %s returned %r' % (flag, rc))
                        f.__name__ = 'MIMAS' + flag
                        return f
                    self.moc(region, st + ':--mim2fits', writer=run_cli('--mim2fits'), after_query=aq)
                    self.reg(region, st + ':--mim2reg', writer=run_cli('--mim2reg'), after_query=aq)
                os.remove(path)
            for f in os.listdir(self.workdir):
                if f.startswith('x') and f.endswith('.mim'):
                    os.remove(os.path.join(self.workdir, f))


# ---------------------------------------------------------------------------------------------- workloads
def build_direct(case):
    """-> (region, description).  Built with the public API only; depth-1 regions by plain insertion, since nothing
    else is needed to own a pixel there."""
    import healpy as hp
    from AegeanTools.regions import Region
    M = case['depth']
    what = case['what']
    rng = rng_for(*case['seed'])
    r = Region(maxdepth=M)
    if what == 'empty':
        pass
    elif what == 'single_deepest':
        r.add_pixels([int(rng.integers(0, hs.npix(M)))], M)
    elif what == 'single_coarse':
        lo = max(1, M - COARSEST_SPAN)
        r.add_pixels([int(rng.integers(0, hs.npix(lo)))], lo)
    elif what in ('pixel_zero', 'pixel_last'):
        # exact special ids: the first / the last pixel of the sphere, alone in the deepest layer
        r.add_pixels([0 if what == 'pixel_zero' else hs.npix(M) - 1], M)
    elif what in ('pixel_zero_coarse', 'pixel_last_coarse'):
        # ... alone in a coarser layer, beside a few deepest-level pixels elsewhere on the sphere
        lo = int(rng.integers(max(1, M - COARSEST_SPAN), M + 1))
        r.add_pixels([0 if what == 'pixel_zero_coarse' else hs.npix(lo) - 1], lo)
        if M > 1:
            base = 4 * 4 ** (M - 1)                     # deepest-level ids of base cells 4..7 (away from both ends)
            r.add_pixels(sorted(set(int(x) for x in rng.integers(base, 2 * base, 5))), M)
    elif what == 'zero_and_last_layers':
        # pixel 0 alone in one layer, the last pixel alone in another, a circle's worth of other layers in between
        lo = max(1, M - COARSEST_SPAN)
        l0 = int(rng.integers(lo, M + 1))
        l1 = int(rng.integers(lo, M + 1))
        r.add_pixels([0], l0)
        if l1 != l0 or M == 1:
            r.add_pixels([hs.npix(l1) - 1], l1)
        if M >= 3 and rng.random() < 0.5:
            res = c08._resol(M)
            r.add_circles(3.0, 0.05, float(3.0 * res))          # equatorial, base cells 4..7
    elif what == 'single_each_level':
        # disjoint pixels, one per level (each inside its own level-1 cell, so no two overlap); the coarsest level used
        # is maxdepth-6, which keeps the deepest-level set (4**6 per pixel) small enough to enumerate
        for d in range(max(1, M - COARSEST_SPAN), M + 1):
            base = (d * 5) % 48                         # distinct level-1 cells for d = 1..12 (5 is coprime to 48)
            p = base * 4 ** (d - 1) + int(rng.integers(0, 4 ** (d - 1)))
            r.add_pixels([p], d)
    elif what == 'polar_and_wrap':
        # pixels touching the poles and the RA = 0 meridian
        th = np.array([1e-9, np.pi - 1e-9, np.pi / 2, np.pi / 3, 2.0])
        ph = np.array([0.3, 4.0, 1e-9, 2 * np.pi - 1e-9, 0.0])
        r.add_pixels(sorted(set(int(x) for x in hp.ang2pix(2 ** M, th, ph, nest=True))), M)
    elif what == 'circle':
        res = c08._resol(M)
        ra, dec = float(rng.uniform(0, 2 * np.pi)), float(np.arcsin(rng.uniform(-1, 1)))
        rad = float(min(rng.uniform(1.5, 7.0) * res, 1.2))
        r.add_circles(ra, dec, rad)
    elif what == 'circle_poly':
        res = c08._resol(M)
        anchor = (float(rng.uniform(0, 2 * np.pi)), float(np.arcsin(rng.uniform(-0.9, 0.9))))
        ra, dec, rad = c08._gen_circle(rng, anchor, M, scale=0.4)
        r.add_circles(ra, dec, rad)
        try:
            r.add_poly(c08._gen_poly(rng, anchor, M))
        except RuntimeError:
            pass
    elif what == 'whole':
        lvl = int(rng.integers(1, M + 1))
        r.add_pixels(np.arange(hs.npix(lvl)), lvl)
        if M >= 2:
            r._renorm()
    else:
        raise RuntimeError('harness: unknown construction')
    return r


class OnDisk:
    """stand-in for "the region that is on disk": the levels (by value) and maxdepth of what was last written to a path"""

    def __init__(self, region):
        levels, frac = snapshot(region)
        if frac:
            raise RuntimeError('harness: fractional ids in a freshly built region')
        self.maxdepth = region.maxdepth
        self.pixeldict = dict((d, set(x)) for d, x in levels.items())

    def deepest(self):
        return hs.expand(self.pixeldict, self.maxdepth)


def _seq_region(rng, anchor, M, scale):
    """a small region around the anchor, built with the public API"""
    from AegeanTools.regions import Region
    r = Region(maxdepth=M)
    ra, dec, rad = c08._gen_circle(rng, anchor, M, scale=scale)
    r.add_circles(ra, dec, rad)
    return r


def run_sequence(case, o, workdir):
    """In ONE process, on the SAME paths: save a.mim / b.mim, use them (exports, masks, combine), intersect them,
    export them again, overwrite a.mim (Region.save, then a plain pickle dump) and export again.  Every export and every
    load is judged against what is on disk at that moment."""
    import pickle
    import healpy as hp
    from astropy.io import fits
    from AegeanTools import MIMAS
    from AegeanTools.regions import Region
    from AegeanTools.CLI import MIMAS as cli
    rng = rng_for(*case['seed'])
    M = case['depth']
    via = case['via']
    res = c08._resol(M)
    anchor = (float(rng.uniform(0.2, 6.0)), float(np.arcsin(rng.uniform(-0.8, 0.8))))
    A = _seq_region(rng, anchor, M, 0.45)
    # B overlaps A but neither contains the other as a rule: centred on a cell of A, similar size
    pa = sorted(hs.expand(snapshot(A)[0], M))
    th, ph = hp.pix2ang(2 ** M, pa[int(rng.integers(0, len(pa)))], nest=True)
    B = _seq_region(rng, (float(ph), float(np.pi / 2 - th)), M, 0.45)
    C = _seq_region(rng, (float((anchor[0] + 0.5) % (2 * np.pi)), -anchor[1]), M, 0.45)
    D = _seq_region(rng, anchor, M, 0.3)
    pa_, pb_ = os.path.join(workdir, 'a.mim'), os.path.join(workdir, 'b.mim')
    disk = {}
    ex = Exporter(o, workdir, {'sequence': case['seed'], 'depth': M, 'via': via})
    log = []

    def cli_call(args, what):
        buf = io.StringIO()
        with contextlib.redirect_stdout(buf):
            rc = cli.main(args)
        if rc not in (0, None):
            raise RuntimeError('MIMAS %s returned %r' % (what, rc))

    def save(region, path, how):
        log.append('%s -> %s' % (how, os.path.basename(path)))
        if how == 'Region.save':
            region.save(path)
        elif how == 'save_region':
            MIMAS.save_region(region, path)
        else:                                   # a plain pickle dump, as any other tool would write the file
            with open(path, 'wb') as f:
                pickle.dump(region, f, protocol=2)
        disk[path] = OnDisk(region)

    def check(path, when):
        """mim2fits, mim2reg and Region.load of `path`, judged against what is on disk"""
        d = disk[path]
        name = os.path.basename(path)
        log.append('export %s (%s)' % (name, when))
        st = 'seq:%s:%s' % (when, name)
        if via == 'cli':
            ex.moc(d, st + ':--mim2fits', writer=lambda out: cli_call(['--mim2fits', path, out], '--mim2fits'),
                   after_query=False)
            ex.reg(d, st + ':--mim2reg', writer=lambda out: cli_call(['--mim2reg', path, out], '--mim2reg'))
        else:
            ex.moc(d, st + ':mim2fits', writer=lambda out: MIMAS.mim2fits(path, out))
            ex.reg(d, st + ':mim2reg', writer=lambda out: MIMAS.mim2reg(path, out))
        ok, r2 = ex.subject(d, st + ':Region.load', Region.load, path)
        if ok:
            l2, f2 = snapshot(r2)
            o.count('sequence_loads_judged')
            o.n_eval += 1
            if f2 or r2.maxdepth != d.maxdepth or dict((k, v) for k, v in l2.items() if v) != \
                    dict((k, v) for k, v in d.pixeldict.items() if v):
                ex.violate('load_vs_file_on_disk', {'file': name, 'when': when, 'n_loaded': len(hs.expand(l2, r2.maxdepth))
                                                    if not f2 else None, 'n_on_disk': len(d.deepest())}, d, st)
        o.count('sequence_exports_' + when.split('#')[0])

    def intersect(when):
        """a.mim & b.mim -> compared with the intersection of what is on disk"""
        want = disk[pa_].deepest() & disk[pb_].deepest()
        log.append('intersect (%s)' % when)
        if via == 'cli':
            out = os.path.join(workdir, 'out.mim')
            ok, _ = ex.subject(disk[pa_], 'seq:' + when, lambda: cli_call(['--intersect', pa_, '--intersect', pb_,
                                                                          '-o', out], '--intersect'))
            got = Region.load(out) if ok else None
        else:
            ok, got = ex.subject(disk[pa_], 'seq:' + when, MIMAS.intersect_regions, [pa_, pb_])
        if not ok:
            return
        lv, fr = snapshot(got)
        o.count('intersect_judged')
        o.n_eval += 1
        if want != disk[pa_].deepest():
            o.count('intersect_differs_from_a')
        if fr or hs.expand(lv, got.maxdepth) != want:
            ex.violate('intersect_vs_files_on_disk', {'when': when, 'n_result': None if fr else len(hs.expand(lv, got.maxdepth)),
                                                      'n_expected': len(want), 'n_a': len(disk[pa_].deepest()),
                                                      'n_b': len(disk[pb_].deepest())}, disk[pa_], 'seq:' + when)

    def use_mask_catalog():
        # a user of the region file whose own correctness is C10's question: here it only has to have happened
        cat = os.path.join(workdir, 'cat.csv')
        th2, ph2 = hp.pix2ang(2 ** M, np.array(pa[:5] + [0, hs.npix(M) - 1]), nest=True)
        with open(cat, 'w') as f:
            f.write('ra,dec,peak_flux\n')
            for a_, d_ in zip(np.degrees(ph2), 90 - np.degrees(th2)):
                f.write('%.9f,%.9f,1.0\n' % (a_, d_))
        log.append('mask_catalog(a.mim)')
        try:
            MIMAS.mask_catalog(pa_, cat, os.path.join(workdir, 'cat_out.csv'), negate=bool(rng.random() < 0.5))
            o.count('mask_catalog_calls_ok')
        except Exception:
            o.count('mask_catalog_raised_not_judged_here')

    def use_mask_file():
        img = os.path.join(workdir, 'img.fits')
        h = fits.Header()
        h['CTYPE1'], h['CTYPE2'] = 'RA---SIN', 'DEC--SIN'
        h['CRVAL1'], h['CRVAL2'] = float(np.degrees(anchor[0])), float(np.degrees(anchor[1]))
        h['CRPIX1'], h['CRPIX2'] = 8.0, 8.0
        step = float(np.degrees(res)) / 2
        h['CDELT1'], h['CDELT2'] = -step, step
        fits.PrimaryHDU(data=np.ones((16, 16), dtype=np.float32), header=h).writeto(img, overwrite=True)
        log.append('mask_file(a.mim)')
        try:
            MIMAS.mask_file(pa_, img, os.path.join(workdir, 'img_out.fits'), negate=bool(rng.random() < 0.5))
            o.count('mask_file_calls_ok')
        except Exception:
            o.count('mask_file_raised_not_judged_here')

    def use_combine():
        cont = MIMAS.Dummy(maxdepth=M)
        cont.add_region = [[pa_]]
        cont.rem_region = [[pb_]]
        want = disk[pa_].deepest() - disk[pb_].deepest()
        log.append('combine_regions(+a -b)')
        ok, got = ex.subject(disk[pa_], 'seq:combine', MIMAS.combine_regions, cont)
        if ok:
            lv, fr = snapshot(got)
            o.count('combine_from_files_judged')
            o.n_eval += 1
            if fr or hs.expand(lv, got.maxdepth) != want:
                ex.violate('combine_vs_files_on_disk', {'n_result': None if fr else len(hs.expand(lv, got.maxdepth)),
                                                        'n_expected': len(want)}, disk[pa_], 'seq:combine')

    save(A, pa_, str(rng.choice(['Region.save', 'save_region'])))
    save(B, pb_, str(rng.choice(['Region.save', 'save_region'])))
    users = [lambda: check(pa_, 'before_intersect'), lambda: check(pb_, 'before_intersect'), use_mask_catalog,
             use_mask_file, use_combine]
    for k in rng.permutation(len(users)):
        if rng.random() < 0.6:
            users[int(k)]()
    intersect('intersect#1')
    post = [lambda: check(pa_, 'after_intersect'), lambda: check(pb_, 'after_intersect'), use_combine]
    for k in rng.permutation(len(post)):
        post[int(k)]()
    intersect('intersect#2')                   # the same answer twice
    check(pa_, 'after_intersect')
    # overwrite a.mim with other regions: the exports must follow the file
    save(C, pa_, 'Region.save')
    check(pa_, 'after_rewrite')
    save(D, pa_, 'pickle.dump')
    check(pa_, 'after_rewrite')
    intersect('intersect#3')
    check(pa_, 'after_rewrite_and_intersect')
    if rng.random() < 0.5:
        use_combine()
    save(A, pa_, 'save_region')
    check(pa_, 'after_rewrite')
    o.count('sequences')
    o.n_nontrivial += 1
    o.sample = {'depth': M, 'via': via, 'steps': log, 'a_cells': len(disk[pa_].deepest()), 'b_cells': len(disk[pb_].deepest())}


# ---------------------------------------------------------------------------------------------- union from a deeper operand
class Expect:
    """the sky a file must describe, given by value"""

    def __init__(self, maxdepth, deepest):
        self.maxdepth = maxdepth
        self.pixeldict = {maxdepth: set(deepest)}


def run_degrade(case, o, workdir):
    """A region of depth N produced by union from a normalised multi-level operand k >= 2 levels deeper (queried first,
    or not), via the API and via `MIMAS -depth N +r deep.mim -o out.mim`; its exports are judged against the operand's
    set degraded to depth N."""
    from AegeanTools import MIMAS
    from AegeanTools.regions import Region
    from AegeanTools.CLI import MIMAS as cli
    rng = rng_for(*case['seed'])
    N, k = case['depth'], case['k']
    D = N + k
    anchor = (float(rng.uniform(0.2, 6.0)), float(np.arcsin(rng.uniform(-0.8, 0.8))))
    B = Region(maxdepth=D)
    # wide in units of the receiver's cells, so the normal form of B has pixels on the levels between N and D
    rad = float(rng.uniform(2.0, 5.0) * c08._resol(N))
    B.add_circles(anchor[0], anchor[1], rad)
    lvB, _ = snapshot(B)
    want = hs.change_depth(hs.expand(lvB, D), D, N)
    inter = sum(len(x) for d, x in lvB.items() if N < d < D)
    o.count('degrade_cases')
    o.count('degrade_operand_pixels_on_intermediate_levels', inter)
    if case['query_first']:
        B.sky_within(0.3, 0.2)
        o.count('degrade_operand_queried_first')
    else:
        o.count('degrade_operand_not_queried')
    ex = Exporter(o, workdir, {'degrade': [D, N], 'via': case['via'], 'query_first': case['query_first'],
                               'operand_stored': dict((d, len(x)) for d, x in lvB.items() if x)})
    exp = Expect(N, want)
    if case['via'] == 'api':
        A = Region(maxdepth=N)
        ok, _ = ex.subject(A, 'degrade:union', A.union, B)
        if not ok:
            return
        ex.moc(A, 'degrade:api:write_fits', expect=exp)
        ex.reg(A, 'degrade:api:write_reg')
        lv, fr = snapshot(A)
        if fr or hs.expand(lv, N) != want:
            ex.violate('union_from_deeper_vs_model', {'n_region': None if fr else len(hs.expand(lv, N)),
                                                      'n_expected': len(want)}, A, 'degrade:api')
        path = ex.mim(A, 'degrade:api:save')
        if path:
            ex.moc(A, 'degrade:api:mim2fits', writer=lambda out: MIMAS.mim2fits(path, out), expect=exp)
    else:
        deep = os.path.join(workdir, 'deep.mim')
        outm = os.path.join(workdir, 'out.mim')
        B.save(deep)

        def cli_main(args):
            buf = io.StringIO()
            with contextlib.redirect_stdout(buf):
                rc = cli.main(args)
            if rc not in (0, None):
                raise RuntimeError('MIMAS %s returned %r' % (args, rc))
        ok, _ = ex.subject(exp, 'degrade:cli:+r', cli_main, ['-depth', str(N), '+r', deep, '-o', outm])
        if not ok:
            return
        ex.moc(exp, 'degrade:cli:--mim2fits', writer=lambda out: cli_main(['--mim2fits', outm, out]))
        ok, A = ex.subject(exp, 'degrade:cli:load', Region.load, outm)
        if ok:
            lv, fr = snapshot(A)
            if fr or A.maxdepth != N or hs.expand(lv, N) != want:
                ex.violate('union_from_deeper_vs_model', {'n_region': None if fr else len(hs.expand(lv, A.maxdepth)),
                                                          'n_expected': len(want), 'maxdepth': A.maxdepth}, A, 'degrade:cli')
            ex.reg(A, 'degrade:cli:write_reg')
    o.count('degrade_via_' + case['via'])
    o.n_nontrivial += 1
    o.sample = {'receiver_depth': N, 'operand_depth': D, 'via': case['via'], 'query_first': case['query_first'],
                'operand_stored': dict((d, len(x)) for d, x in lvB.items() if x), 'expected_cells': len(want)}


# ---------------------------------------------------------------------------------------------- near-extreme regions
EXTREME_ROUTES = ('complement_norenorm', 'complement_renorm', 'whole_without', 'few_only', 'few_by_intersect',
                  'overlap_sum_full')


def run_extreme(case, o, workdir):
    """whole sky minus a few cells (and, symmetrically, a few cells only) at every depth, built by different routes,
    exported by API / MIMAS functions / CLI, before and after queries where the region can be enumerated"""
    from AegeanTools.regions import Region
    rng = rng_for(*case['seed'])
    M = case['depth']
    route = case['route']
    k = case['k']
    n = hs.npix(M)
    first = int(rng.integers(0, n))
    if k > 1 and rng.random() < 0.5:
        holes = sorted(set([first] + [(first & ~3) + int(x) for x in rng.integers(0, 4, k - 1)]))     # siblings
    else:
        holes = sorted(set([first] + [int(x) for x in rng.integers(0, n, k - 1)]))
    r = Region(maxdepth=M)
    if route == 'complement_norenorm':
        # the caller hands over a non-overlapping multi-level description and defers renormalisation
        for d, cells in sorted(complement_levels(holes, M).items()):
            if cells:
                r.add_pixels(sorted(cells), d, renorm=False)
        want = complement_levels(holes, M)
    elif route == 'complement_renorm':
        r.add_pixels(np.setdiff1d(np.arange(n, dtype=np.int64), np.array(holes, dtype=np.int64)), M)
        want = complement_levels(holes, M)
    elif route == 'whole_without':
        lvl = int(rng.integers(1, M + 1))
        r.add_pixels(np.arange(hs.npix(lvl)), lvl)
        h = Region(maxdepth=M)
        h.add_pixels(holes, M)
        if rng.random() < 0.5:
            r.sky_within(0.3, 0.2)
        if rng.random() < 0.5:
            r.without(h)
        else:
            r.symmetric_difference(h)
        want = complement_levels(holes, M)
    elif route == 'few_only':
        r.add_pixels(holes, M, renorm=bool(rng.random() < 0.5))
        want = {M: set(holes)}
    elif route == 'few_by_intersect':
        lvl = int(rng.integers(1, M + 1))
        r.add_pixels(np.arange(hs.npix(lvl)), lvl)
        h = Region(maxdepth=M)
        h.add_pixels(holes, M)
        r.intersect(h)
        want = {M: set(holes)}
    elif route == 'overlap_sum_full':
        # 47 of the 48 level-1 cells plus, again, the four children of one of them: the summed area is the whole
        # sphere, the sky covered is not
        c = int(rng.integers(0, 48))
        c2 = (c + 1 + int(rng.integers(0, 47))) % 48
        r.add_pixels([x for x in range(48) if x != c], 1, renorm=False)
        r.add_pixels([4 * c2 + x for x in range(4)], 2, renorm=False)
        want = {1: set(x for x in range(48) if x != c)}
    else:
        raise RuntimeError('harness: unknown route')
    lv, fr = snapshot(r)
    if fr or canon(lv) != canon(want):
        # the construction itself is C08's question; without the intended region there is nothing to export here
        o.count('extreme_construction_differs_from_intent')
    cov = sum(len(x) * 4 ** (M - d) for d, x in canon(lv).items())      # exact count of deepest-level cells covered
    near_full = 0 < n - cov <= 1e-5 * n
    near_empty = 0 < cov <= 1e-5 * n
    o.count('extreme_regions')
    o.count('extreme_route_' + route)
    before = o.counters.get('moc_files_judged', 0)
    ex = Exporter(o, workdir, {'extreme': route, 'depth': M, 'holes_or_cells': holes[:6], 'via': case['via'],
                               'cells_covered': cov, 'cells_on_sphere': n})
    ex.battery(r, via=case['via'])
    judged = o.counters.get('moc_files_judged', 0) - before
    if near_full:
        o.count('near_full_sky_regions')
        o.count('near_full_sky_moc_judged', judged)
        o.see('near_full_sky_depths', M)
    if near_empty:
        o.count('near_empty_sky_moc_judged', judged)
    if n - cov > 0 and n - cov <= max(8, 1e-4 * n):
        o.count('whole_sky_minus_a_few_cells_moc_judged', judged)
    o.n_nontrivial += 1
    o.sample = {'route': route, 'depth': M, 'holes_or_cells': holes[:6], 'missing_fraction': (n - cov) / n,
                'stored_per_level': dict((d, len(x)) for d, x in lv.items() if x), 'moc_files_judged': judged}


# ---------------------------------------------------------------------------------------------- regions that share history
ALIAS_ROUTES = ('union_into_empty', 'union_into_empty_norenorm', 'union_into_deeper', 'union_into_coarser',
                'add_pixels_layers', 'add_pixels_layers_norenorm', 'shared_caller_set', 'pickle_copy',
                'symdiff_into_empty', 'intersect_with_whole', 'union_then_union')
ALIAS_MODS = ('add_circles', 'without', 'intersect', 'symmetric_difference', 'union', 'add_pixels', 'get_demoted',
              'sky_within', '_renorm')


def run_alias(case, o, workdir):
    """One region is built from another, then ONE of the two is modified, then BOTH are exported: the untouched one must
    still export exactly what it was (by-value snapshot taken before the modification)."""
    import healpy as hp
    from AegeanTools.regions import Region
    rng = rng_for(*case['seed'])
    M = case['depth']
    route = case['route']
    anchor = (float(rng.uniform(0.2, 6.0)), float(np.arcsin(rng.uniform(-0.8, 0.8))))
    B = _seq_region(rng, anchor, M, 0.45)
    ex = Exporter(o, workdir, {'alias': route, 'depth': M, 'modify': case['who'], 'seed': case['seed']})
    log = ['B = circles at depth %d' % M]
    if route in ('union_into_empty', 'union_into_empty_norenorm', 'union_then_union'):
        A = Region(maxdepth=M)
        A.union(B, renorm=route != 'union_into_empty_norenorm')
        if route == 'union_then_union':
            A.union(B)
    elif route == 'union_into_deeper':
        A = Region(maxdepth=min(M + int(rng.integers(1, 3)), 12))
        A.union(B)
    elif route == 'union_into_coarser':
        A = Region(maxdepth=max(M - 1, 1))
        A.union(B)
    elif route in ('add_pixels_layers', 'add_pixels_layers_norenorm'):
        A = Region(maxdepth=M)
        for d in sorted(B.pixeldict):
            if len(B.pixeldict[d]):
                A.add_pixels(B.pixeldict[d], d, renorm=route == 'add_pixels_layers')       # B's own set objects
    elif route == 'shared_caller_set':
        S = set(hs.expand(snapshot(B)[0], M))
        B = Region(maxdepth=M)
        B.add_pixels(S, M)
        A = Region(maxdepth=M)
        A.add_pixels(S, M)
    elif route == 'pickle_copy':
        path = os.path.join(workdir, 'copy.mim')
        B.save(path)
        A = Region.load(path)
    elif route == 'symdiff_into_empty':
        A = Region(maxdepth=M)
        A.symmetric_difference(B)
    elif route == 'intersect_with_whole':
        A = Region(maxdepth=M)
        A.add_pixels(np.arange(48), 1)
        A.intersect(B)
    else:
        raise RuntimeError('harness: unknown route')
    log.append('A = %s' % route)
    o.count('alias_cases')
    o.count('alias_route_' + route)
    regs = {'A': A, 'B': B}
    frozen = {'A': OnDisk(A), 'B': OnDisk(B)}
    # what A must be: B's sky at A's depth
    wantA = hs.change_depth(frozen['B'].deepest(), B.maxdepth, A.maxdepth)
    if frozen['A'].deepest() != wantA:
        ex.violate('derived_region_vs_source', {'n_derived': len(frozen['A'].deepest()), 'n_expected': len(wantA)},
                   A, 'alias:derive')

    def exports(name, stage, by_value):
        r = regs[name]
        f = frozen[name]
        before = o.counters.get('moc_files_judged', 0)
        if by_value:
            lv, fr = snapshot(r)
            o.count('alias_untouched_state_checks')
            if fr or sky(lv, r.maxdepth) != sky(f.pixeldict, f.maxdepth):
                got = hs.expand(lv, r.maxdepth) if not fr else set()
                ex.violate('untouched_region_changed', {'which': name, 'n_now': len(got), 'n_before': len(f.deepest()),
                                                        'extra': sorted(got - f.deepest())[:5],
                                                        'missing': sorted(f.deepest() - got)[:5], 'steps': log[-6:]},
                           r, stage)
            ex.moc(r, stage, expect=f)
            ex.reg(r, stage, expect=f)
            ex.mim(r, stage, expect=f)
            o.count('alias_untouched_exports_judged', o.counters.get('moc_files_judged', 0) - before)
        else:
            ex.moc(r, stage)
            ex.reg(r, stage)
            ex.mim(r, stage)

    exports('A', 'alias:derived:A', True)
    exports('B', 'alias:derived:B', True)
    who = case['who']
    other = 'B' if who == 'A' else 'A'
    X = regs[who]
    Mx = X.maxdepth
    model = set(frozen[who].deepest())
    Cr = _seq_region(rng, anchor, Mx, 0.45)
    Cset = hs.expand(snapshot(Cr)[0], Mx)
    mods = [str(m) for m in rng.choice(ALIAS_MODS, size=int(rng.integers(1, 4)))]
    if case.get('mods'):
        mods = list(case['mods'])
    for k, m in enumerate(mods):
        log.append('%s.%s' % (who, m))
        o.count('alias_mod_' + m)
        if m == 'add_circles':
            ra, dec, rad = c08._gen_circle(rng, anchor, Mx, scale=0.4)
            for v, rr in zip(c08.vec_of(ra, dec), rad):
                model |= set(int(p) for p in hp.query_disc(2 ** Mx, v, rr, inclusive=True, nest=True))
            ok, _ = ex.subject(X, 'alias:modify', X.add_circles, ra, dec, rad)
        elif m in ('without', 'intersect', 'symmetric_difference', 'union'):
            model = {'without': model - Cset, 'intersect': model & Cset, 'symmetric_difference': model ^ Cset,
                     'union': model | Cset}[m]
            ok, _ = ex.subject(X, 'alias:modify', getattr(X, m), Cr)
        elif m == 'add_pixels':
            pix = [int(x) for x in rng.integers(0, hs.npix(Mx), 3)]
            model |= set(pix)
            ok, _ = ex.subject(X, 'alias:modify', X.add_pixels, pix, Mx)
        elif m == 'get_demoted':
            ok, _ = ex.subject(X, 'alias:modify', X.get_demoted)
        elif m == 'sky_within':
            ok, _ = ex.subject(X, 'alias:modify', X.sky_within, [0.3, 1.0], [0.1, -0.4])
        else:
            ok, _ = ex.subject(X, 'alias:modify', X._renorm)
        if not ok:
            return
        st = 'alias:after_%s.%s#%d' % (who, m, k)
        # the modified one against the set algebra, its exports against its own state
        lv, fr = snapshot(X)
        if fr or hs.expand(lv, Mx) != model:
            ex.violate('modified_region_vs_model', {'which': who, 'n_now': None if fr else len(hs.expand(lv, Mx)),
                                                    'n_model': len(model), 'steps': log[-6:]}, X, st)
        exports(who, st + ':' + who, False)
        # the untouched one against its snapshot
        exports(other, st + ':' + other, True)
    o.count('alias_modified_' + who)
    # finally a query on the untouched one (its sky must still be the snapshot's; its layout may now be the demoted one)
    U = regs[other]
    ok, d = ex.subject(U, 'alias:query_untouched', U.get_demoted)
    if ok:
        dl, df = hs.to_levels({U.maxdepth: set(d)})
        o.count('alias_untouched_state_checks')
        if df or dl[U.maxdepth] != frozen[other].deepest():
            ex.violate('untouched_region_changed', {'which': other, 'n_now': len(dl[U.maxdepth]),
                                                    'n_before': len(frozen[other].deepest()), 'after': 'get_demoted',
                                                    'steps': log[-6:]}, U, 'alias:query_untouched')
        before = o.counters.get('moc_files_judged', 0)
        ex.moc(U, 'alias:queried:' + other, expect=frozen[other], after_query=True)
        ex.reg(U, 'alias:queried:' + other, after_query=True)
        ex.mim(U, 'alias:queried:' + other)
        o.count('alias_untouched_exports_judged', o.counters.get('moc_files_judged', 0) - before)
    o.n_nontrivial += 1
    o.sample = {'route': route, 'depth': M, 'modified': who, 'steps': log}


def cases(seed, tier):
    out = []
    # a receiver of depth N united with an operand k >= 2 levels deeper
    j = 0
    for N in range(1, 10):
        for k in (2, 3):
            for rep_ in range(2 if tier == 'quick' else 8):
                for qf in (False, True):
                    out.append({'kind': 'degrade', 'depth': N, 'k': k, 'query_first': qf, 'via': ('api', 'cli')[j % 2],
                                'seed': [0 if rep_ < 2 else seed, 'degrade', N, k, rep_, qf]})
                    j += 1
                j += 1
    # near-extreme regions at every depth
    k_of = {0: 1, 1: 3}
    for M in range(1, 13):
        for j, route in enumerate(EXTREME_ROUTES):
            if route == 'overlap_sum_full' and M < 2:
                continue
            heavy = route in ('complement_renorm', 'whole_without', 'few_by_intersect')
            if heavy and M > (7 if tier == 'quick' else 8):
                continue
            reps = 1 if (heavy and M >= 7) or tier == 'quick' else 3
            for rep_ in range(reps if not (route.startswith('complement') or route == 'whole_without') else max(reps, 2)):
                if heavy and M >= 7 and rep_ > 0 and tier == 'quick' and route != 'whole_without':
                    continue
                out.append({'kind': 'extreme', 'depth': M, 'route': route, 'k': k_of[rep_ % 2],
                            'via': ('methods', 'functions', 'cli')[(M + j + rep_) % 3],
                            'seed': [0 if rep_ < 2 else seed, 'extreme', M, route, rep_]})
    # regions that share history
    nal = 2 if tier == 'quick' else 14
    for j, route in enumerate(ALIAS_ROUTES):
        for M in (2, 3, 4, 6, 8, 10):
            if route == 'intersect_with_whole' and M > 6:
                continue
            for rep_ in range(nal):
                case = {'kind': 'alias', 'depth': M, 'route': route, 'who': 'AB'[(rep_ + M + j) % 2],
                        'seed': [0 if rep_ == 0 else seed, 'alias', route, M, rep_]}
                out.append(case)
    # the seeded pattern spelt out: union into an empty region, then the copy is modified / queried
    for M in (4, 7):
        for mods in (['add_circles'], ['without'], ['get_demoted', 'add_circles'], ['union', '_renorm']):
            out.append({'kind': 'alias', 'depth': M, 'route': 'union_into_empty', 'who': 'A', 'mods': mods,
                        'seed': [0, 'alias-fixed', M] + mods})
    nseq = 48 if tier == 'quick' else 480
    for k in range(nseq):
        out.append({'kind': 'sequence', 'depth': 2 + k % 9, 'via': ('functions', 'cli', 'functions')[k % 3],
                    'seed': [seed if k >= 6 else 0, 'seq', k]})
    for M in range(1, 13):
        for what in ('empty', 'single_deepest', 'single_coarse', 'single_each_level', 'polar_and_wrap', 'circle',
                     'circle_poly'):
            out.append({'kind': 'direct', 'depth': M, 'what': what, 'via': 'methods', 'seed': [0, 'direct', M, what]})
        if M <= 6:
            out.append({'kind': 'direct', 'depth': M, 'what': 'whole', 'via': 'methods', 'seed': [0, 'whole', M]})
        # exact special pixel ids (0 and 12*4**d - 1) alone in a layer, by API, MIMAS functions and CLI from the file
        for j, what in enumerate(('pixel_zero', 'pixel_last', 'pixel_zero_coarse', 'pixel_last_coarse',
                                  'zero_and_last_layers')):
            for rep_ in range(2 if tier == 'quick' else 6):
                out.append({'kind': 'direct', 'depth': M, 'what': what, 'special': True,
                            'via': ('methods', 'functions', 'cli')[(M + j + rep_) % 3],
                            'seed': [0 if rep_ < 2 else seed, 'special', M, what, rep_]})
    nrand = 8 if tier == 'quick' else 80
    for M in range(1, 13):
        for k in range(nrand):
            what = ('circle', 'circle_poly', 'single_each_level')[k % 3]
            via = 'methods' if k % 5 else ('functions' if (k // 5) % 3 else 'cli')
            out.append({'kind': 'direct', 'depth': M, 'what': what, 'via': via, 'seed': [seed, 'rand', M, k]})
    for M in (2, 5, 9):
        out.append({'kind': 'direct', 'depth': M, 'what': 'circle_poly', 'via': 'functions', 'seed': [0, 'fn', M]})
        out.append({'kind': 'direct', 'depth': M, 'what': 'single_each_level', 'via': 'cli', 'seed': [0, 'cli', M]})
    nh = 64 if tier == 'quick' else 1000
    for k in range(nh):
        out.append({'kind': 'history', 'depth': 2 + k % 9, 'length': 8, 'seed': [seed, 'hist', k],
                    'via': 'methods' if k % 4 else 'functions'})
    return out


def run(case):
    hs.selfcheck()
    canon_selfcheck()
    o = Obs()
    workdir = scratch_dir()
    try:
        if case['kind'] == 'direct':
            M = case['depth']
            desc = dict((k, case[k]) for k in ('depth', 'what', 'via'))
            ex = Exporter(o, workdir, desc)
            try:
                r = build_direct(case)
            except Exception as e:
                # building a region of a depth in 1..12 with the public API is inside the domain
                ex.violate('raises', {'exc_type': type(e).__name__, 'exc': repr(e)[:300],
                                      'tb': traceback.format_exc()[-900:], 'call': 'construction'},
                           type('R', (), {'maxdepth': M, 'pixeldict': {}})(), 'construction')
                o.n_eval += 1
                return o.result()
            if case['seed'][0] == 0 and case['seed'][1] == 'direct':
                o.count('depths_1_to_12_direct', 1 if case['what'] == 'single_each_level' else 0)
            if case['what'] == 'whole':
                o.count('whole_sky_regions')
            if case['what'] == 'empty':
                o.count('empty_regions')
            if case.get('special'):
                o.count('special_id_regions')
                o.count('special_id_via_' + case['via'])
            ex.battery(r, via=case['via'])
            lv, fr = snapshot(r)
            if any(lv.values()):
                o.n_nontrivial += 1
            o.sample = {'region': desc, 'stored_per_level_at_end': dict((d, len(s)) for d, s in lv.items() if s),
                        'files_judged': o.n_eval}
        elif case['kind'] == 'history':
            c08.install()
            scratch = Obs()
            c08.set_obs(scratch)
            try:
                h = c08.run_random({'seed': case['seed'], 'depth': case['depth'], 'length': case['length'],
                                    'whole_max': 5}, scratch, workdir, return_history=True)
            finally:
                c08.set_obs(None)
            o.count('c08_violations_during_history', len(scratch.violations))
            n = 0
            for s in h.pool:
                if s.name in ('empty',):
                    continue
                lv, fr = snapshot(s.region)
                if fr:
                    o.count('skipped_fractional_state')
                    continue
                ex = Exporter(o, workdir, {'from_history': case['seed'], 'slot': s.name, 'depth': s.depth})
                ex.battery(s.region, model=s.model, via=case['via'] if s.name == 'T' else 'methods')
                o.count('history_regions')
                n += 1
            if any(len(s.model) for s in h.pool):
                o.n_nontrivial += 1
            o.sample = {'history_ops': [r_.get('op') for r_ in h.hist], 'regions_exported': n}
        elif case['kind'] == 'sequence':
            run_sequence(case, o, workdir)
        elif case['kind'] == 'extreme':
            run_extreme(case, o, workdir)
        elif case['kind'] == 'degrade':
            run_degrade(case, o, workdir)
        elif case['kind'] == 'alias':
            run_alias(case, o, workdir)
        else:
            raise RuntimeError('harness: unknown case kind')
        return o.result()
    finally:
        shutil.rmtree(workdir, ignore_errors=True)
