"""C14 - AeRes model images are the catalogue's Gaussians; subtraction closes the loop.

Case kinds (judged separately through their clause names; `closed_loop` depends on the fitting code as well):
  model        make_model of seeded catalogues against the independent sky-plane renderer (per source), presence of
               sources near/over the image edges, additivity over a random split
  mask         mask mode (frac / sigma) against the set {reference model >= threshold}
  files        make_residual on FITS images with csv/fits/vot catalogues with renamed columns: subtract (+ model
               file), add, add-then-subtract restoration, mask; input images float32, float64, and with integer pixel
               type (BITPIX 16/32 without BSCALE: counts of ~100 with peaks of ~40, and int16 with BSCALE as control)
  closed_loop  noise-free image of isolated sources -> SourceFinder.find_sources_in_image (rms forced to
               0.02 |peak|, bkg 0) -> make_model of the extracted catalogue -> residual < 1e-3 |peak|

Logging level: make_model tests the root logger for DEBUG; every make_model call made at the default level is repeated
with the root logger at DEBUG (first 8 per case, and every whole-catalogue / mask / closed-loop model) and must return
the identical array (`logging_level_changes_model`); a share of the model / mask / files cases runs entirely at DEBUG
and the AeRes command line is also driven with --debug, judged by the ordinary clauses.

WCS forms: besides rotation-free CDELT/CD headers, pixel grids rotated by 37..271 deg written as CD matrix, PC + CDELT or
CROTA2 (the oracle always gets the equivalent CD matrix), and RA---TAN-SIP headers with a conformal quadratic distortion of
0.015-0.04 px at the far corner and sources of at most 1.4 beams (oracle: SipZenithal = SIP forward polynomial + ZenithalWCS); both cross-checked against
astropy.wcs at start-up; those catalogues put a source near each of the four corners and each of the four edges.

Coordinates: numpy index (i, j) = (row, column), 0-based; the image area is [-0.5, n-0.5] on each axis.
The C16 contracts on WCSHelper are armed during every case (their records are prefixed `c16_`).
"""
import os
import shutil
import traceback

import numpy as np

from aegmon.common import Obs, rng_for, scratch_dir
from aegmon.refs import sphere, render, wcs_zenithal as wz
from aegmon.props import c16

ID = 'C14'
LEVEL = 'exploration'
RULE = ('a case is one header (five projections x reference points x pixel scale x CRPIX, every position <= 0.5 deg from '
        'CRVAL) plus a seeded catalogue (1..200 sources; strata: interior, within 3 px of each of the four edges, '
        'inside the last half pixel of each edge, the one-pixel ring outside (generated, not judged), 1.5..60 px off '
        'the image, the far hemisphere; major FWHM 1..6 beams, minor FWHM >= 3 px, all PAs incl. cardinal values, both '
        'signs; plus catalogues of 2..40 sources that all share one float-identical (a, b, pa) - the beam, an elongated shape, or two shapes mixed - on fields reaching 0.4-0.5 deg from reference points at |dec| 80-85, judged per source, as a whole against the summed renderings, for additivity and for catalogue order); mask mode through make_residual and the AeRes command line with sigma in {2.5, 4, 10, 25} and frac unset; an evaluation is one judged source, one whole-model comparison, one additivity comparison, one mask image, one output file or one '
        'closed-loop source; non-trivial = source centred on the image with a non-zero reference model; distinct = '
        'distinct (header, source) tuples, cases with equal hash counted once')
ASSUMPTIONS = ['oracle: aegmon/refs/render.py (Gaussian in the tangent plane of the source, sky positions of the pixel centres '
               'from aegmon/refs/wcs_zenithal.py), independent of AegeanTools and astropy.wcs',
               'pixel-plane vs sky-plane Gaussian differ at second order (off-axis angle x source extent): <= 1e-5 of the '
               'peak inside 0.5 deg for FWHM <= 0.08 deg; tolerance 1e-4 of the peak from the statement',
               'float32 accumulation: additivity tolerance (n_contributing + 2) eps32 sum|terms|; restoration 2 eps32 max|terms|',
               'mask thresholds >= 1e-3 of the peak (inside the 5 sigma extent the statement gives the model)',
               'closed loop: all sources of a field share |peak|; rms = 0.02 |peak| and bkg = 0 are forced']
MIN_REACH = {'AeRes:make_model': 1, 'AeRes:make_residual': 1, 'AeRes:load_sources': 1,
             'wcs_helpers:WCSHelper.sky2pix_ellipse': 1, 'fitting:elliptical_gaussian': 1,
             'source_finder:SourceFinder.find_sources_in_image': 1, 'CLI.AeRes:main': 1}
MIN_COUNTERS = {'sources_compared_with_render': 300, 'sources_in_last_half_pixel': 8, 'sources_off_image_checked': 30,
                'sources_within_3px_of_edge': 30, 'additivity_comparisons': 10, 'mask_images': 6, 'files_checked': 12,
                'restorations_checked': 3, 'closed_loop_fields': 4, 'closed_loop_sources_matched': 8,
                'c16_contract_sky2pix_ellipse': 300, 'shared_shape_catalogues': 10, 'whole_models_compared_with_render': 10,
                'mask_files_via_cli': 1, 'files_checked_integer_input': 12, 'files_checked_integer_input_bscale': 4,
                'mask_files_integer_input': 4, 'restorations_checked_integer_input': 2,
                'cases_at_debug_logging': 8, 'cases_at_debug_logging_model': 4, 'cases_at_debug_logging_files': 2,
                'logging_level_pairs_compared': 100, 'cli_runs_with_debug': 3, 'cli_runs_with_debug_effective': 3,
                'rotated_grid_cases': 10, 'rotated_grid_cases_cd': 6, 'rotated_grid_cases_pc': 1, 'rotated_grid_cases_crota': 1,
                'rotated_grid_sources_compared': 60, 'rotated_grid_files_checked': 8, 'corner_and_edge_catalogues': 10,
                'sip_cases': 4, 'sip_sources_compared': 20, 'sip_files_checked': 4, 'sip_far_source_catalogues': 1,
                'circular_source_catalogues': 5, 'exactly_circular_sources': 40, 'rectangular_pixel_cases': 5,
                'aegean_written_catalogues': 5, 'aegean_written_catalogues_fits': 3, 'catalogues_stored_as_float32': 3}

TOL_MODEL = 1e-4        # of |peak|, statement
TOL_LOOP = 1e-3         # of |peak|, statement
EPS32 = float(np.finfo(np.float32).eps)
MAX_OFF_AXIS = 0.5      # deg, domain of the 1e-4 comparison
BATCH_TIMEOUT = 1500

CRVALS = [(180.0, -30.0), (0.001, 60.0), (359.99, -75.0), (45.0, 0.0), (200.0, 85.0), (310.0, 20.0)]


# ----------------------------------------------------------------------------- C16 contracts armed with a prefix
class _Prefixed:
    def __init__(self, o, prefix):
        self._o, self._p, self.n_eval = o, prefix, 0

    def count(self, name, k=1):
        self._o.count(self._p + name, k)

    def worst(self, name, value):
        self._o.worst(self._p + name, value)

    def see(self, name, value):
        self._o.see(self._p + name, value)

    def violate(self, clause, witness, mechanism=None):
        self._o.violate(self._p + clause, witness, mechanism)


# ----------------------------------------------------------------------------- rotated grids and SIP distortion
def _rotate_header(hdr, cdelt, rot_deg, form):
    """rotate the pixel grid of a rotation-free header by rot_deg.  Returns (header for Aegean, CD-form header for the
    oracle): form 'cd' writes the CD matrix, 'pc' CDELT + PCi_j, 'crota' CDELT + CROTA2 (FITS paper II, eq. 188-189)."""
    c, s_ = float(np.cos(np.radians(rot_deg))), float(np.sin(np.radians(rot_deg)))
    cd = [[cdelt[0] * c, -cdelt[1] * s_], [cdelt[0] * s_, cdelt[1] * c]]
    base = hdr.copy()
    for k in ('CDELT1', 'CDELT2', 'CD1_1', 'CD1_2', 'CD2_1', 'CD2_2'):
        if k in base:
            del base[k]
    hcd = base.copy()
    hcd['CD1_1'], hcd['CD1_2'], hcd['CD2_1'], hcd['CD2_2'] = cd[0][0], cd[0][1], cd[1][0], cd[1][1]
    if form == 'cd':
        return hcd.copy(), hcd
    h = base.copy()
    h['CDELT1'], h['CDELT2'] = float(cdelt[0]), float(cdelt[1])
    if form == 'pc':
        # CD = diag(CDELT) . PC
        h['PC1_1'], h['PC1_2'] = c, -cdelt[1] * s_ / cdelt[0]
        h['PC2_1'], h['PC2_2'] = cdelt[0] * s_ / cdelt[1], c
    elif form == 'crota':
        h['CROTA2'] = float(rot_deg)
    else:
        raise ValueError(form)
    return h, hcd


class SipZenithal(wz.ZenithalWCS):
    """ZenithalWCS preceded by the SIP forward polynomial (pixel offsets u, v from CRPIX -> u + sum A_pq u^p v^q,
    v + sum B_pq u^p v^q, then the CD matrix and the projection).  sky -> pixel inverts the polynomial by fixed-point
    iteration; AP/BP are not used."""

    def __init__(self, header):
        h = header.copy()
        h['CTYPE1'] = str(h['CTYPE1'])[:-4]
        h['CTYPE2'] = str(h['CTYPE2'])[:-4]
        if not (str(header['CTYPE1']).endswith('-SIP') and str(header['CTYPE2']).endswith('-SIP')):
            raise ValueError('not a SIP header')
        wz.ZenithalWCS.__init__(self, h)
        self.A = {(p_, q): float(header['A_%d_%d' % (p_, q)]) for p_ in range(4) for q in range(4)
                  if 'A_%d_%d' % (p_, q) in header}
        self.B = {(p_, q): float(header['B_%d_%d' % (p_, q)]) for p_ in range(4) for q in range(4)
                  if 'B_%d_%d' % (p_, q) in header}

    def _poly(self, u, v):
        with np.errstate(all='ignore'):          # positions far from the image: the iteration overflows to inf/nan = off image
            return self._poly_(u, v)

    def _poly_(self, u, v):
        f = sum(a * u ** p_ * v ** q for (p_, q), a in self.A.items())
        g = sum(b * u ** p_ * v ** q for (p_, q), b in self.B.items())
        return f, g

    def pix2sky(self, p1, p2):
        u = np.asarray(p1, dtype=float) - self.crpix[0]
        v = np.asarray(p2, dtype=float) - self.crpix[1]
        f, g = self._poly(u, v)
        return wz.ZenithalWCS.pix2sky(self, u + f + self.crpix[0], v + g + self.crpix[1])

    def sky2pix(self, ra, dec):
        q1, q2 = wz.ZenithalWCS.sky2pix(self, ra, dec)
        U = np.asarray(q1, dtype=float) - self.crpix[0]
        V = np.asarray(q2, dtype=float) - self.crpix[1]
        u, v = U, V
        for _ in range(40):
            f, g = self._poly(u, v)
            u, v = U - f, V - g
        return u + self.crpix[0], v + self.crpix[1]


def _sip_header(hdr, c1, c2):
    """conformal quadratic distortion f + i g = (c1 + i c2) (u + i v)^2: a sky ellipse stays, to first order, an ellipse
    with perpendicular axes on the pixel grid (what AeRes draws)"""
    h = hdr.copy()
    h['CTYPE1'] = str(h['CTYPE1']) + '-SIP'
    h['CTYPE2'] = str(h['CTYPE2']) + '-SIP'
    h['A_ORDER'] = 2
    h['B_ORDER'] = 2
    h['A_2_0'], h['A_1_1'], h['A_0_2'] = c1, -2 * c2, -c1
    h['B_2_0'], h['B_1_1'], h['B_0_2'] = c2, 2 * c1, -c2
    return h


_WCS_FORMS_CHECKED = False


def selfcheck_wcs_forms():
    """once per process: the oracle's WCS for rotated CD / PC / CROTA2 headers and for SIP headers against
    astropy.wcs (all_pix2world).  A failure is an oracle fault (harness error), never a violation."""
    global _WCS_FORMS_CHECKED
    if _WCS_FORMS_CHECKED:
        return
    import warnings
    from astropy.wcs import WCS
    worst = 0.0
    p1, p2 = np.meshgrid(np.linspace(-5, 200, 6), np.linspace(-8, 170, 6))
    pix = np.column_stack([p1.ravel(), p2.ravel()])
    with warnings.catch_warnings():
        warnings.simplefilter('ignore')
        for t, rot in enumerate((40.0, 60.0, 85.0, 120.0, -150.0, 271.3)):
            proj = wz.PROJECTIONS[t % 5]
            cdelt = ((-1) ** t * 6.0 / 3600, 5.0 / 3600)
            base = wz.make_header(proj, CRVALS[t % len(CRVALS)], (90.3, 70.1), cdelt, (160, 190), use_cd=False)
            for form in ('cd', 'pc', 'crota'):
                h, hcd = _rotate_header(base, cdelt, rot, form)
                sky = WCS(h, naxis=2).all_pix2world(pix, 1)
                ra, dec = wz.ZenithalWCS(hcd).pix2sky(pix[:, 0], pix[:, 1])
                worst = max(worst, float(np.max(sphere.sep(sky[:, 0], sky[:, 1], ra, dec))))
        base = wz.make_header('TAN', (201.3, 27.4), (90.3, 70.1), (-4.0 / 3600, 4.0 / 3600), (160, 190), use_cd=True)
        for c1, c2 in ((0.5e-5, -0.3e-5), (-1.2e-5, 0.8e-5)):
            h = _sip_header(base, c1, c2)
            z = SipZenithal(h)
            sky = WCS(h, naxis=2).all_pix2world(pix, 1)
            ra, dec = z.pix2sky(pix[:, 0], pix[:, 1])
            worst = max(worst, float(np.max(sphere.sep(sky[:, 0], sky[:, 1], ra, dec))))
            q1, q2 = z.sky2pix(ra, dec)
            worst = max(worst, float(np.max(np.hypot(q1 - pix[:, 0], q2 - pix[:, 1]))) * 4.0 / 3600)
            plain = wz.ZenithalWCS(base).pix2sky(pix[:, 0], pix[:, 1])
            if not np.max(sphere.sep(plain[0], plain[1], ra, dec)) > 1e-6:
                raise RuntimeError('oracle fault: the SIP self-check header is not distorted')
    if not worst < 1e-10:
        raise RuntimeError('oracle fault: rotated/SIP WCS of the oracle disagrees with astropy.wcs by %g deg' % worst)
    _WCS_FORMS_CHECKED = True


def _corner_edge_sources(rng, z, shape, scale_as, compact=False):
    """one source 2-6 px inside each of the four corners and one within 3 px of each of the four edges"""
    rows, cols = shape
    beam = 4.0 * scale_as
    pos = []
    for ci in (0, 1):
        for cj in (0, 1):
            di, dj = float(rng.uniform(2.0, 6.0)), float(rng.uniform(2.0, 6.0))
            pos.append((di if ci == 0 else rows - 1 - di, dj if cj == 0 else cols - 1 - dj))
    d = [float(rng.uniform(0.0, 3.0)) for _ in range(4)]
    pos += [(d[0], float(rng.uniform(8, cols - 9))), (rows - 1 - d[1], float(rng.uniform(8, cols - 9))),
            (float(rng.uniform(8, rows - 9)), d[2]), (float(rng.uniform(8, rows - 9)), cols - 1 - d[3])]
    out = []
    for k, (i, j) in enumerate(pos):
        ra, dec = z.index2sky(i, j)
        a = beam * float(rng.uniform(1.0, 1.4 if compact else 4.0))
        b = max(a * float(rng.uniform(0.4, 1.0)), 3.0 * scale_as * 1.02)
        a = max(a, b)
        out.append({'ra': float(ra), 'dec': float(dec), 'peak': float(10 ** rng.uniform(-1, 1)) * (1.0 if k % 3 else -1.0),
                    'a': float(a), 'b': float(b), 'pa': _pa(rng), 'stratum': 'corner' if k < 4 else 'edge3'})
    return out


# ----------------------------------------------------------------------------- case generation
def _header_params(rng, k, proj):
    rows = int(rng.integers(120, 260))
    cols = int(rng.integers(120, 260))
    half = np.hypot(rows, cols) / 2.0
    smax = 0.42 * 3600.0 / (half * 1.25 + 8)            # arcsec/pixel: farthest corner <= 0.42 deg from CRVAL
    scale = float(10 ** rng.uniform(0.0, np.log10(smax)))
    crpix = (cols / 2.0 + 0.5 + float(rng.uniform(-0.2, 0.2)) * cols, rows / 2.0 + 0.5 + float(rng.uniform(-0.2, 0.2)) * rows)
    sg1 = 1.0 if k % 5 == 4 else -1.0
    return {'proj': proj, 'crval': list(CRVALS[k % len(CRVALS)]), 'crpix': [float(crpix[0]), float(crpix[1])],
            'cdelt': [sg1 * scale / 3600.0, scale / 3600.0], 'shape': [rows, cols], 'use_cd': bool(k % 3 == 1)}


HIGH_CRVALS = [(120.0, -82.0), (30.0, 84.0), (200.0, 85.0), (359.99, -80.0), (180.0, -30.0), (45.0, 0.0)]


def _wide_header_params(rng, k, proj):
    """fields whose farthest corner lies 0.4-0.5 deg from CRVAL (the full domain of the 1e-4 comparison), reference points
    mostly at |dec| 80-85 where the direction of north turns by degrees across such a field"""
    rows = int(rng.integers(160, 300))
    cols = int(rng.integers(160, 300))
    c1 = cols / 2.0 + 0.5 + float(rng.uniform(-0.1, 0.1)) * cols
    c2 = rows / 2.0 + 0.5 + float(rng.uniform(-0.1, 0.1)) * rows
    far = np.hypot(max(c1 - 0.5, cols + 0.5 - c1), max(c2 - 0.5, rows + 0.5 - c2))
    scale = float(rng.uniform(0.8, 0.99)) * MAX_OFF_AXIS * 3600.0 / far
    sg1 = 1.0 if k % 5 == 4 else -1.0
    return {'proj': proj, 'crval': list(HIGH_CRVALS[k % len(HIGH_CRVALS)]), 'crpix': [float(c1), float(c2)],
            'cdelt': [sg1 * scale / 3600.0, scale / 3600.0], 'shape': [rows, cols], 'use_cd': bool(k % 3 == 1)}


def cases(seed, tier):
    out = []
    q = tier == 'quick'
    # catalogues whose sources share one exact (a, b, pa): the beam (point sources), an elongated shape, two shapes mixed
    ks = 0
    for proj in wz.PROJECTIONS:
        for shared in ('beam', 'elongated', 'two_shapes'):
            for rep_ in range(1 if q else 4):
                rng = rng_for(seed, 'c14shared', proj, shared, rep_)
                c = {'kind': 'model', 'shared': shared, 'nsrc': int(rng.choice([2, 3, 6, 15, 40])),
                     'seed': [seed, 'shared', proj, shared, rep_]}
                c.update(_wide_header_params(rng, ks, proj))
                out.append(c)
                ks += 1
    # catalogue sizes: the small ones and one of 200
    nsrcs = [1, 2, 5, 12, 30, 60, 200] if q else [1, 2, 3, 5, 8, 12, 20, 30, 45, 60, 100, 200]
    reps = 1 if q else 6
    k = 0
    for proj in wz.PROJECTIONS:
        for rep in range(reps):
            for n in nsrcs:
                rng = rng_for(seed, 'c14hdr', proj, rep, n)
                c = {'kind': 'model', 'nsrc': n, 'seed': [seed, 'model', proj, rep, n]}
                c.update(_header_params(rng, k, proj))
                out.append(c)
                k += 1
    # targeted, seed-independent: one source in each decisive edge position (DESIGN section 4, D29)
    for t, proj in enumerate(wz.PROJECTIONS):
        c = {'kind': 'model', 'nsrc': 0, 'targeted_edges': True, 'seed': [0, 'edges', proj]}
        c.update({'proj': proj, 'crval': list(CRVALS[t]), 'crpix': [40.0 + t, 41.0], 'cdelt': [-5.0 / 3600, 5.0 / 3600],
                  'shape': [80, 96 + t], 'use_cd': False})
        out.append(c)
    for proj in wz.PROJECTIONS:
        for mode in ('frac', 'sigma'):
            for rep in range(1 if q else 8):
                rng = rng_for(seed, 'c14mask', proj, mode, rep)
                c = {'kind': 'mask', 'mode': mode, 'nsrc': int(rng.integers(1, 25)), 'seed': [seed, 'mask', proj, mode, rep]}
                c.update(_header_params(rng, k, proj))
                out.append(c)
                k += 1
    fmts = ['csv', 'fits', 'vot']
    for t, proj in enumerate(wz.PROJECTIONS):
        for rep in range(1 if q else 6):
            rng = rng_for(seed, 'c14files', proj, rep)
            c = {'kind': 'files', 'fmt': fmts[(t + rep) % 3], 'nsrc': int(rng.integers(1, 20)),
                 'sigma': [2.5, 4.0, 10.0, 25.0][(t + rep) % 4], 'mask_via_cli': bool((t + rep) % 2 == 1),
                 'seed': [seed, 'files', proj, rep]}
            c.update(_header_params(rng, k, proj))
            out.append(c)
            k += 1
    nloop = 10 if q else 80
    for t in range(nloop):
        proj = wz.PROJECTIONS[t % 5]
        rng = rng_for(seed, 'c14loop', t)
        c = {'kind': 'closed_loop', 'negative': bool(t % 5 == 3), 'via_files': bool(t % 2 == 0),
             'seed': [seed, 'loop', t]}
        c.update(_header_params(rng, t, proj))
        c['shape'] = [int(rng.integers(150, 200)), int(rng.integers(150, 200))]
        c['crpix'] = [c['shape'][1] / 2.0 + float(rng.uniform(-20, 20)), c['shape'][0] / 2.0 + float(rng.uniform(-20, 20))]
        out.append(c)
    # input images stored with an integer pixel type (BITPIX 16/32 without BSCALE/BZERO - count maps) and, as control,
    # BSCALE'd int16 and float64; appended last so that the cases above are unchanged
    ptypes = ['int16', 'int32', 'int16_bscale', 'int32', 'int16', 'float64']
    for t, proj in enumerate(wz.PROJECTIONS):
        for rep in range(1 if q else 6):
            rng = rng_for(seed, 'c14pixtype', proj, rep)
            c = {'kind': 'files', 'fmt': fmts[(t + rep + 1) % 3], 'nsrc': int(rng.integers(2, 15)),
                 'pixtype': ptypes[(t + rep) % len(ptypes)],
                 'sigma': [2.5, 4.0, 10.0, 25.0][(t + rep) % 4], 'mask_via_cli': bool((t + rep) % 2 == 0),
                 'seed': [seed, 'pixtype', proj, rep]}
            c.update(_header_params(rng, 900 + t + 5 * rep, proj))
            out.append(c)
    # the logging level is configuration that must not change results: a share of the model / mask / files cases with
    # the root logger at DEBUG (records to os.devnull), the AeRes command line with --debug; appended last
    for t, proj in enumerate(wz.PROJECTIONS):
        for rep in range(1 if q else 4):
            rng = rng_for(seed, 'c14debug', proj, rep)
            c = {'kind': 'model', 'nsrc': int(rng.choice([3, 12, 30])), 'debug_logging': True,
                 'seed': [seed, 'debug-model', proj, rep]}
            c.update(_header_params(rng, 1200 + t + 5 * rep, proj))
            out.append(c)
            if (t + rep) % 2 == 0:
                c = {'kind': 'mask', 'mode': ('frac', 'sigma')[(t // 2 + rep) % 2], 'nsrc': int(rng.integers(1, 25)),
                     'debug_logging': True, 'seed': [seed, 'debug-mask', proj, rep]}
                c.update(_header_params(rng, 1300 + t + 5 * rep, proj))
                out.append(c)
            c = {'kind': 'files', 'fmt': fmts[(t + rep) % 3], 'nsrc': int(rng.integers(1, 15)),
                 'sigma': [2.5, 4.0, 10.0, 25.0][(t + rep) % 4], 'mask_via_cli': True,
                 'seed': [seed, 'debug-files', proj, rep]}
            c['debug_logging' if t % 2 == 0 else 'cli_debug'] = True     # whole case at DEBUG / only the CLI's --debug
            c.update(_header_params(rng, 1400 + t + 5 * rep, proj))
            out.append(c)
    # rotated pixel grids (CD matrix, PC + CDELT, CROTA2) with sources near all four corners and edges; appended last
    rots = [40.0, 60.0, 85.0, 120.0, -150.0, 37.0, 271.3, 179.0]
    forms = ['cd', 'cd', 'cd', 'cd', 'pc', 'crota', 'cd', 'pc']
    for rep in range(1 if q else 4):
        for t, rot in enumerate(rots):
            rng = rng_for(seed, 'c14rot', t, rep)
            if rep:
                rot = float(rng.uniform(-180, 180))
            c = {'kind': 'model', 'corners': True, 'nsrc': int(rng.integers(2, 9)), 'cd_rot': rot, 'rot_form': forms[(t + rep) % 8],
                 'seed': [seed, 'rot-model', t, rep]}
            c.update(_header_params(rng, 1500 + t + 8 * rep, wz.PROJECTIONS[(t + rep) % 5]))
            c['use_cd'] = False
            out.append(c)
        for t, rot in enumerate([60.0, 120.0, 85.0]):
            rng = rng_for(seed, 'c14rotfiles', t, rep)
            c = {'kind': ('files', 'files', 'mask')[t], 'fmt': fmts[(t + rep) % 3], 'nsrc': int(rng.integers(6, 20)),
                 'mode': ('frac', 'sigma')[rep % 2], 'sigma': 4.0, 'mask_via_cli': bool(t == 1),
                 'cd_rot': rot if rep == 0 else float(rng.uniform(40, 140)), 'rot_form': 'cd',
                 'seed': [seed, 'rot-files', t, rep]}
            c.update(_header_params(rng, 1600 + t + 3 * rep, wz.PROJECTIONS[(t + 2 * rep) % 5]))
            c['use_cd'] = False
            out.append(c)
    # rectangular pixels (|CDELT1| != |CDELT2|) with exactly circular sources (a == b) near corners, edges and inside
    ratios = [1.25, 1.5, 1.4, 0.7, 0.8]
    for rep in range(1 if q else 4):
        for t, proj in enumerate(wz.PROJECTIONS):
            rng = rng_for(seed, 'c14rect', proj, rep)
            r_ = ratios[(t + rep) % 5] if rep == 0 else float(rng.choice([rng.uniform(1.1, 1.6), rng.uniform(0.65, 0.9)]))
            c = {'kind': 'model', 'corners': True, 'circular': True, 'nsrc': int(rng.integers(3, 10)), 'pix_ratio': r_,
                 'seed': [seed, 'rect', proj, rep]}
            c.update(_header_params(rng, 1800 + t + 5 * rep, proj))
            f1, f2 = (1.0, 1.0 / r_) if r_ > 1 else (r_, 1.0)                   # both <= 1: the field only shrinks
            c['cdelt'] = [c['cdelt'][0] * f1, c['cdelt'][1] * f2]
            c['crval'] = [45.0 + 30.0 * t, 0.0]                                 # dec 0: north is the pixel y axis everywhere
            out.append(c)
            if t == 0 and rep % 2 == 0:
                # the same grid with arbitrary position angles: a known limitation (see _mech_nonsquare), kept in one case
                c2 = dict(c, generic_pa=True, nsrc=2, seed=[seed, 'rect-generic', proj, rep])
                out.append(c2)
    # the catalogue file format as Aegean itself writes it (catalogs.save_catalog -> csv, VOTable, FITS with float32
    # columns) for arcsec-scale sources on arcsec pixels
    for rep in range(1 if q else 4):
        for t, fmt_ in enumerate(['fits', 'fits', 'csv', 'vot', 'fits']):
            rng = rng_for(seed, 'c14writer', t, rep)
            c = {'kind': 'files', 'fmt': fmt_, 'writer': 'aegean', 'nsrc': int(rng.integers(4, 16)),
                 'sigma': [2.5, 4.0, 10.0, 25.0][(t + rep) % 4], 'mask_via_cli': bool((t + rep) % 2 == 0),
                 'seed': [seed, 'writer', t, rep]}
            c.update(_header_params(rng, 1900 + t + 5 * rep, wz.PROJECTIONS[(t + rep) % 5]))
            asec = float(rng.uniform(0.8, 2.5)) / 3600.0                         # arcsec pixels
            c['cdelt'] = [float(np.sign(c['cdelt'][0])) * asec, asec]
            out.append(c)
    # SIP distortion (RA---TAN-SIP, conformal quadratic, 0.015-0.04 px at the far corner), compact sources (<= 1.4 beams):
    # the pixel-plane Gaussian AeRes draws equals the sky Gaussian only to first order in the distortion across the source;
    # the remainder was measured to grow linearly with the amplitude (6.9e-5 of the peak at 0.10 px, 2.1e-5 at 0.03 px), so
    # the amplitude is bounded to keep it below a third of the 1e-4 tolerance.  A source drawn at the undistorted pixel is
    # then still off by 0.6 * shift / sigma_px ~ 0.3-1 % of the peak near the corners (30-100 tolerances).
    for t in range(4 if q else 16):
        rng = rng_for(seed, 'c14sip', t)
        c = {'kind': 'files' if t % 4 == 3 else 'model', 'corners': True, 'nsrc': int(rng.integers(2, 9)), 'fmt': fmts[t % 3],
             'sigma': 4.0, 'mask_via_cli': False, 'seed': [seed, 'sip', t]}
        c.update(_header_params(rng, 1700 + t, 'TAN'))
        c['use_cd'] = True
        rr = np.hypot(max(c['crpix'][0], c['shape'][1] - c['crpix'][0]), max(c['crpix'][1], c['shape'][0] - c['crpix'][1]))
        amp = float(rng.uniform(0.015, 0.04)) / float(rr) ** 2
        ang = float(rng.uniform(0, 2 * np.pi))
        c['sip'] = [float(amp * np.cos(ang)), float(amp * np.sin(ang))]
        out.append(c)
        if t % 4 == 0:
            # the same image with catalogue positions far from it (kept apart so that the other SIP judgements survive)
            c2 = dict(c, kind='model', nsrc=2, sip_far=True, seed=[seed, 'sip-far', t])
            out.append(c2)
    return out


_PAS = [0.0, 90.0, -90.0, 180.0, -179.9999, 45.0, -45.0, 179.9999, 1e-6]


def _pa(rng):
    if rng.random() < 0.25:
        return float(rng.choice(_PAS))
    return float(-rng.uniform(-180, 180))


def _edge_value(rng, stratum, n, low):
    if stratum == 'edge3':                       # within 3 px of an edge, inside
        d = float(rng.uniform(0.0, 3.0))
        return -0.5 + 1e-3 + d if low else n - 0.5 - 1e-3 - d
    if stratum == 'last_half':                   # inside the outermost half pixel
        d = float(rng.uniform(0.001, 0.499))
        return -0.5 + d if low else n - 0.5 - d
    if stratum == 'ring':                        # the one-pixel ring outside: generated, not judged
        d = float(rng.uniform(0.0, 1.0))
        return -0.5 - d if low else n - 0.5 + d
    if stratum == 'off':                         # clearly off the image
        d = float(rng.uniform(1.05, 60.0))
        return -0.5 - d if low else n - 0.5 + d
    raise ValueError(stratum)


def _position(rng, stratum, rows, cols):
    """index coordinates (i, j) for a stratum"""
    i, j = float(rng.uniform(3.0, rows - 4.0)), float(rng.uniform(3.0, cols - 4.0))
    if stratum == 'interior':
        return i, j
    axis = int(rng.integers(0, 2))
    corner = rng.random() < 0.25
    if axis == 0 or corner:
        i = _edge_value(rng, stratum, rows, bool(rng.integers(0, 2)))
    if axis == 1 or corner:
        j = _edge_value(rng, stratum, cols, bool(rng.integers(0, 2)))
    return i, j


def _catalogue(rng, z, shape, scale_as, n, strata, positive=False, equal_peak=None, shapes=None):
    rows, cols = shape
    beam = 4.0 * scale_as                        # FWHM arcsec = 4 px
    out = []
    for k in range(n):
        st = strata[k % len(strata)] if k < len(strata) else str(rng.choice(strata))
        if st == 'far':
            ra, dec = (z.crval[0] + 180.0) % 360.0, -z.crval[1]
            i = j = float('nan')
        else:
            i, j = _position(rng, st, rows, cols)
            ra, dec = z.index2sky(i, j)
        a = beam * float(rng.uniform(1.0, 6.0))
        b = max(a * float(rng.uniform(0.2, 1.0)), 3.0 * scale_as * 1.02)
        if a < b:
            a = b
        peak = float(10 ** rng.uniform(-2, 2)) * (1.0 if positive else float(rng.choice([-1.0, 1.0])))
        if equal_peak is not None:
            peak = equal_peak
        pa = _pa(rng)
        if shapes is not None and not (len(shapes) > 1 and k % 7 == 6):     # (two_shapes: every 7th keeps its own shape)
            a, b, pa = shapes[k % len(shapes)]
        out.append({'ra': float(ra), 'dec': float(dec), 'peak': peak, 'a': float(a), 'b': float(b), 'pa': pa,
                    'stratum': st})
    return out


def _shared_shapes(rng, scale_as, which):
    beam = 4.0 * scale_as
    circ = (beam, beam * 0.8, 15.0)                                # the restoring beam of the header
    a = beam * float(rng.uniform(3.0, 6.0))
    elong = (a, max(a * float(rng.uniform(0.15, 0.4)), 3.06 * scale_as), float(-rng.uniform(-180, 180)))
    return {'beam': [circ], 'elongated': [elong], 'two_shapes': [elong, circ]}[which]


def _classify(z, shape, s):
    """'in' (must be modelled), 'out' (must be ignored), 'ring' (not judged); index coordinates from the oracle"""
    i, j = z.sky2index(s['ra'], s['dec'])
    i, j = float(i), float(j)
    if not (np.isfinite(i) and np.isfinite(j)):
        return 'out', i, j
    rows, cols = shape
    if sphere.sep(z.crval[0], z.crval[1], s['ra'], s['dec']) > 89.0:
        return 'out', i, j
    inside = (-0.5 + 1e-6 <= i <= rows - 0.5 - 1e-6) and (-0.5 + 1e-6 <= j <= cols - 0.5 - 1e-6)
    if inside:
        return 'in', i, j
    if i < -1.5 or i > rows + 0.5 or j < -1.5 or j > cols + 0.5:
        return 'out', i, j
    return 'ring', i, j


def _component(models, s, k, rms=None):
    c = models.ComponentSource()
    c.island, c.source = k, 0
    c.ra, c.dec, c.peak_flux, c.a, c.b, c.pa = s['ra'], s['dec'], s['peak'], s['a'], s['b'], s['pa']
    c.local_rms = abs(s['peak']) / 50.0 if rms is None else rms
    c.background = 0.0
    return c


def _mech_dropped(i, j, shape):
    """predicate over the witness: the centre is on the image but its 1-based coordinate is >= the axis length"""
    rows, cols = shape
    if (rows - 1 <= i <= rows - 0.5) or (cols - 1 <= j <= cols - 0.5):
        return 'aeres-on-image-test-1-based'
    return None


def _hdr_witness(case):
    w = {k: case[k] for k in ('proj', 'crval', 'crpix', 'cdelt', 'shape', 'use_cd')}
    for k in ('cd_rot', 'rot_form', 'sip'):
        if case.get(k) is not None:
            w[k] = case[k]
    return w


# ----------------------------------------------------------------------------- run
def run(case):
    from AegeanTools import AeRes, models, wcs_helpers
    c16.install()
    sphere.selfcheck()
    wz.selfcheck()
    o = Obs()
    p16 = _Prefixed(o, 'c16_')
    c16.set_obs(p16)
    tmp = None
    try:
        shape = tuple(case['shape'])
        scale_as = abs(case['cdelt'][1]) * 3600.0
        beam_deg = 4.0 * scale_as / 3600.0
        hdr = wz.make_header(case['proj'], tuple(case['crval']), tuple(case['crpix']), tuple(case['cdelt']), shape,
                             beam=(beam_deg, beam_deg * 0.8, 15.0), use_cd=case['use_cd'])
        z = wz.ZenithalWCS(hdr)
        if case.get('cd_rot') is not None or case.get('sip'):
            selfcheck_wcs_forms()
        if case.get('cd_rot') is not None:
            # rotated pixel grid: Aegean gets the CD / PC / CROTA2 header, the oracle the equivalent CD matrix
            hdr, hcd = _rotate_header(hdr, tuple(case['cdelt']), float(case['cd_rot']), case.get('rot_form', 'cd'))
            z = wz.ZenithalWCS(hcd)
            o.count('rotated_grid_cases')
            o.count('rotated_grid_cases_' + case.get('rot_form', 'cd'))
            o.see('grid_rotation_deg', float(case['cd_rot']))
        if case.get('pix_ratio'):
            o.count('rectangular_pixel_cases')
            o.see('pixel_aspect_cdelt1_over_cdelt2', round(abs(case['cdelt'][0] / case['cdelt'][1]), 3))
        if case.get('sip'):
            hdr = _sip_header(hdr, float(case['sip'][0]), float(case['sip'][1]))
            z = SipZenithal(hdr)
            c16.set_obs(None)            # the C16 contracts' oracle does not cover distortion terms
            o.count('sip_cases')
            rr = np.hypot(max(case['crpix'][0], shape[1] - case['crpix'][0]), max(case['crpix'][1], shape[0] - case['crpix'][1]))
            o.worst('sip_distortion_at_far_corner_px', float(np.hypot(*case['sip'])) * rr ** 2)
        import warnings
        with warnings.catch_warnings():
            warnings.simplefilter('ignore')
            helper = wcs_helpers.WCSHelper.from_header(hdr)
        rng = rng_for(*case['seed'])
        o.see('projection', case['proj'])
        kind = case['kind']
        if case.get('debug_logging') and kind in ('model', 'mask', 'files'):
            # the whole case with the root logger at DEBUG, judged by the same clauses
            o.count('cases_at_debug_logging')
            o.count('cases_at_debug_logging_' + kind)
            o.see('logging_level', 'DEBUG')
            with _debug_logging():
                if kind == 'model':
                    _run_model(case, o, rng, z, helper, shape, scale_as, AeRes, models)
                elif kind == 'mask':
                    _run_mask(case, o, rng, z, helper, shape, scale_as, AeRes, models)
                else:
                    tmp = scratch_dir()
                    _run_files(case, o, rng, z, hdr, shape, scale_as, AeRes, tmp)
        elif kind == 'model':
            _run_model(case, o, rng, z, helper, shape, scale_as, AeRes, models)
        elif kind == 'mask':
            _run_mask(case, o, rng, z, helper, shape, scale_as, AeRes, models)
        elif kind == 'files':
            tmp = scratch_dir()
            _run_files(case, o, rng, z, hdr, shape, scale_as, AeRes, tmp)
        elif kind == 'closed_loop':
            tmp = scratch_dir()
            _run_closed_loop(case, o, rng, z, hdr, helper, shape, scale_as, AeRes, tmp)
        else:
            raise ValueError(kind)
        o.count('c16_evaluations', p16.n_eval)
        if case.get('cd_rot') is not None:
            o.count('rotated_grid_sources_compared', o.counters.get('sources_compared_with_render', 0))
            o.count('rotated_grid_files_checked', o.counters.get('files_checked', 0))
        if case.get('sip'):
            o.count('sip_sources_compared', o.counters.get('sources_compared_with_render', 0))
            o.count('sip_files_checked', o.counters.get('files_checked', 0))
        return o.result()
    finally:
        c16.set_obs(None)
        if tmp:
            shutil.rmtree(tmp, ignore_errors=True)


class _debug_logging:
    """root logger at DEBUG (what `AeRes --debug` / an API caller with DEBUG logging has) with the records sent to
    os.devnull; level and handlers are restored on exit.  The logging level is configuration that must not change
    any result."""

    def __enter__(self):
        import logging
        self.root = logging.getLogger()
        self.level = self.root.level
        self.parked = list(self.root.handlers)       # e.g. the stderr handler an earlier logging.info() installed
        for h in self.parked:
            self.root.removeHandler(h)
        self.sink = open(os.devnull, 'w')
        self.handler = logging.StreamHandler(self.sink)
        self.root.addHandler(self.handler)
        self.root.setLevel(logging.DEBUG)
        return self

    def __exit__(self, *exc):
        self.root.setLevel(self.level)
        for h in list(self.root.handlers):
            self.root.removeHandler(h)
        for h in self.parked:
            self.root.addHandler(h)
        self.sink.close()
        return False


def _root_is_debug():
    import logging
    return logging.getLogger().isEnabledFor(logging.DEBUG)


_ALWAYS_PAIRED = ('whole catalogue', 'mask mode', 'extracted catalogue')


def _model_of(AeRes, o, comps, shape, helper, what, **kw):
    m = _model_of_plain(AeRes, o, comps, shape, helper, what, **kw)
    # direct clause: the same call with the root logger at DEBUG returns the identical array
    if m is not None and not _root_is_debug() and \
            (what in _ALWAYS_PAIRED or o.counters.get('logging_level_pairs_compared', 0) < 8):
        with _debug_logging():
            md = _model_of_plain(AeRes, o, comps, shape, helper, what + ' at DEBUG logging', **kw)
        if md is not None:
            o.count('logging_level_pairs_compared')
            o.n_eval += 1
            if md.shape != m.shape or not np.array_equal(md, m, equal_nan=True):
                diff = np.nanmax(np.abs(np.nan_to_num(md.astype(float)) - np.nan_to_num(m.astype(float)))) \
                    if md.shape == m.shape else None
                o.violate('logging_level_changes_model',
                          {'where': 'AeRes.make_model ' + what, 'kw': {k: repr(v) for k, v in kw.items()},
                           'max_abs_difference': None if diff is None else float(diff),
                           'nan_pattern_differs': bool(md.shape == m.shape and (np.isnan(md) != np.isnan(m)).any()),
                           'sources': [[c.ra, c.dec, c.peak_flux, c.a, c.b, c.pa] for c in comps][:5]})
    return m


def _mech_nonsquare(case, srcs):
    """predicate over the witness: pixels that are not square (|CDELT1| != |CDELT2| by more than 1 %) and a source whose
    axes do not lie along the pixel axes: sky2pix_ellipse maps the two semi-axes separately and AeRes draws them
    perpendicular on the pixel grid, which they are not (an ellipse through a non-conformal map)"""
    c1, c2 = abs(case['cdelt'][0]), abs(case['cdelt'][1])
    if abs(c1 / c2 - 1.0) <= 0.01:
        return None
    rot = float(case.get('cd_rot') or 0.0)
    if any(abs(((s_['pa'] + rot) % 90.0 + 45.0) % 90.0 - 45.0) > 1e-3 for s_ in srcs):
        return 'nonsquare-pixels-oblique-ellipse'
    return None


def _model_of_plain(AeRes, o, comps, shape, helper, what, **kw):
    try:
        return np.asarray(AeRes.make_model(comps, shape, helper, **kw))
    except Exception as e:
        o.n_eval += 1
        o.violate('raises', {'where': 'AeRes.make_model ' + what, 'exc': repr(e), 'tb': traceback.format_exc()[-800:],
                             'sources': [[c.ra, c.dec, c.peak_flux, c.a, c.b, c.pa] for c in comps][:5]},
                  _mech_model_raises(e, helper, comps))
        return None


def _mech_model_raises(e, helper, comps):
    """predicate over the witness: astropy's iterative all_world2pix raises NoConvergence for a catalogue position far
    from the image when the header carries SIP terms (without them the closed-form inverse returns NaN silently)"""
    try:
        sip = getattr(helper.wcs, 'sip', None) is not None
        crval = helper.wcs.wcs.crval
        far = any(float(sphere.sep(crval[0], crval[1], c.ra, c.dec)) > 5.0 for c in comps)
    except Exception:
        return None
    if type(e).__name__ == 'NoConvergence' and sip and far:
        return 'sip-far-source-noconvergence'
    return None


def _run_model(case, o, rng, z, helper, shape, scale_as, AeRes, models):
    rows, cols = shape
    if case.get('targeted_edges'):
        srcs = []
        beam = 4.0 * scale_as
        for (i, j, st) in [(rows - 0.6, 30.2, 'last_half'), (rows - 0.999, 20.0, 'last_half'), (30.3, cols - 0.6, 'last_half'),
                           (rows - 0.52, cols - 0.55, 'last_half'), (-0.4, 40.1, 'last_half'), (33.3, -0.45, 'last_half'),
                           (-0.6, 30.0, 'ring'), (30.0, -0.9, 'ring'), (rows - 0.4, 30.0, 'ring'), (-1.6, 30.0, 'off'),
                           (30.0, -2.5, 'off'), (rows + 0.6, 30.0, 'off'), (30.0, cols + 0.7, 'off'), (rows + 30.0, cols + 30.0, 'off'),
                           (rows / 2.0, cols / 2.0, 'interior'), (0.0, 0.0, 'edge3'), (rows - 1.0, cols - 1.0, 'edge3')]:
            ra, dec = z.index2sky(i, j)
            srcs.append({'ra': float(ra), 'dec': float(dec), 'peak': 1.0 if len(srcs) % 2 else -2.0, 'a': beam * 2.0,
                         'b': beam * 1.2, 'pa': 30.0 * len(srcs) - 170.0, 'stratum': st})
        srcs.append({'ra': (z.crval[0] + 180.0) % 360.0, 'dec': -z.crval[1], 'peak': 1.0, 'a': beam, 'b': beam, 'pa': 0.0,
                     'stratum': 'far'})
    elif case.get('shared'):
        # every source has exactly the same sky shape (float-identical); corners first so the field's full extent is used
        shapes = _shared_shapes(rng, scale_as, case['shared'])
        srcs = _catalogue(rng, z, shape, scale_as, case['nsrc'], ['interior', 'interior', 'edge3', 'interior', 'off', 'last_half'],
                          shapes=shapes)
        corners = [(4.0, 4.0), (rows - 5.0, cols - 5.0), (4.0, cols - 5.0), (rows - 5.0, 4.0)]
        for s_, (ci, cj) in zip([t for t in srcs if t['stratum'] == 'interior'], corners):
            ra, dec = z.index2sky(ci + float(rng.uniform(-0.5, 0.5)), cj + float(rng.uniform(-0.5, 0.5)))
            s_['ra'], s_['dec'] = float(ra), float(dec)
        o.count('shared_shape_catalogues')
        o.count('shared_shape_sources', len(srcs))
    elif case.get('corners'):
        # rotated grids / SIP: sources near all four corners and all four edges first, then the ordinary strata
        compact = bool(case.get('sip'))
        srcs = _corner_edge_sources(rng, z, shape, scale_as, compact=compact)
        srcs += _catalogue(rng, z, shape, scale_as, case['nsrc'],
                           ['interior', 'edge3', 'off', 'last_half', 'interior', 'off' if compact else 'far'])
        if case.get('sip_far'):
            # catalogue positions far from a SIP image (5, 30, 95 deg away and the antipode): must be ignored without error
            for dist, th in ((5.5, 40.0), (30.0, 200.0), (95.0, 310.0), (180.0, 0.0)):
                ra, dec = sphere.destination(z.crval[0], z.crval[1], dist, th)
                srcs.append({'ra': float(ra), 'dec': float(dec), 'peak': 1.0, 'a': 4.0 * scale_as, 'b': 4.0 * scale_as, 'pa': 0.0,
                             'stratum': 'far'})
            o.count('sip_far_source_catalogues')
        if case.get('circular'):
            # exactly circular on the sky (a == b, float-identical): where the local pixel scale is anisotropic
            # (rectangular pixels here) they are ellipses on the pixel grid
            for k_, s_ in enumerate(srcs):
                if k_ % 4 != 3:
                    s_['a'] = s_['b'] = float(max(s_['b'], 3.0 * 1.02 * max(scale_as, abs(case['cdelt'][0]) * 3600.0)))
            o.count('circular_source_catalogues')
            o.count('exactly_circular_sources', sum(1 for s_ in srcs if s_['a'] == s_['b']))
        if case.get('pix_ratio') and not case.get('generic_pa'):
            # non-square pixels: AeRes draws an ellipse whose axes are perpendicular on the pixel grid, which is the image of
            # the sky ellipse only when its axes lie along the pixel axes - the domain of this stratum: position angles
            # that are multiples of 90 deg on a rotation-free grid at dec 0 (meridian convergence < 0.002 deg)
            for s_ in srcs:
                s_['pa'] = float(rng.choice([0.0, 90.0, 180.0, -90.0]))
        if compact:
            # the 1e-4 comparison holds to first order in the distortion across a source: keep the sources compact
            beam = 4.0 * scale_as
            for s_ in srcs:
                s_['a'] = min(s_['a'], 1.4 * beam)
                s_['b'] = min(s_['b'], s_['a'])
        o.count('corner_and_edge_catalogues')
    else:
        strata = ['interior', 'edge3', 'last_half', 'off', 'ring', 'interior', 'edge3', 'off', 'last_half', 'far']
        n = case['nsrc']
        if n <= 2:
            strata = [strata[int(rng.integers(0, 3))], 'interior']
        srcs = _catalogue(rng, z, shape, scale_as, n, strata)
    comps = [_component(models, s, k) for k, s in enumerate(srcs)]
    singles = []
    nontriv = 0
    ref_sum = np.zeros(shape)
    tol_sum = np.zeros(shape)
    whole_determined = True          # False when a source is neither clearly on nor clearly off, or outside the 1e-4 domain
    for k, (s, c) in enumerate(zip(srcs, comps)):
        cls, i, j = _classify(z, shape, s)
        m = _model_of(AeRes, o, [c], shape, helper, 'single source')
        singles.append(m)
        if m is None:
            continue
        o.see('model_dtype', str(m.dtype))
        if m.shape != shape:
            o.violate('model_shape', {'shape': list(m.shape), 'expected': list(shape)})
            continue
        wit = {'source': {kk: s[kk] for kk in ('ra', 'dec', 'peak', 'a', 'b', 'pa')}, 'index_ij': [i, j],
               'class': cls, 'header': _hdr_witness(case)}
        if cls == 'ring':
            whole_determined = False
            o.count('ring_sources_not_judged')
            o.see('ring_source_modelled', bool(np.any(m != 0)))
            continue
        o.n_eval += 1
        if cls == 'out':
            o.count('sources_off_image_checked')
            if np.any(m != 0) or not np.all(np.isfinite(m)):
                o.violate('off_image_source_contributes', dict(wit, max_abs=float(np.nanmax(np.abs(m)))))
            continue
        # on the image: must be modelled and agree with the independent rendering
        edge = min(i + 0.5, rows - 0.5 - i, j + 0.5, cols - 0.5 - j)
        if edge <= 3.0:
            o.count('sources_within_3px_of_edge')
        if edge <= 0.5:
            o.count('sources_in_last_half_pixel')
        off_axis = float(sphere.sep(z.crval[0], z.crval[1], s['ra'], s['dec']))
        o.worst('source_off_axis_deg', off_axis)
        ref = render.render(z, shape, [s], nsigma=7.0)
        if not np.any(m != 0):
            # the nearest pixel centre is at most 0.71 px from the centre: reference there is >= 0.9 |peak| for FWHM >= 3 px
            o.count('sources_compared_with_render')
            o.violate('in_image_source_dropped', dict(wit, reference_max_abs=float(np.max(np.abs(ref)))),
                      _mech_dropped(i, j, shape))
            continue
        if off_axis > MAX_OFF_AXIS or s['b'] < 3.0 * scale_as:
            whole_determined = False
            o.count('sources_outside_comparison_domain')
            continue
        ref_sum += ref
        tol_sum += np.where(ref != 0, TOL_MODEL, 4e-6) * abs(s['peak'])
        o.count('sources_compared_with_render')
        nontriv += 1
        err = np.abs(m.astype(float) - ref)
        worst = float(np.max(err)) / abs(s['peak'])
        o.worst('model_vs_render_rel_peak', worst)
        if not worst <= TOL_MODEL:
            p = np.unravel_index(int(np.argmax(err)), err.shape)
            o.violate('model_vs_render', dict(wit, worst_rel_peak=worst, at_index=[int(p[0]), int(p[1])],
                                              model=float(m[p]), reference=float(ref[p])), _mech_nonsquare(case, [s]))
    o.n_nontrivial += nontriv
    # additivity: model(A u B) = model(A) + model(B), and = sum of the single-source models
    ok = [k for k, m in enumerate(singles) if m is not None and m.shape == shape]
    if len(ok) >= 2 and len(ok) == len(srcs):
        whole = _model_of(AeRes, o, comps, shape, helper, 'whole catalogue')
        pick = rng.random(len(comps)) < 0.5
        if pick.all() or not pick.any():
            pick[0] = not pick[0]
        ma = _model_of(AeRes, o, [c for c, p in zip(comps, pick) if p], shape, helper, 'subset A')
        mb = _model_of(AeRes, o, [c for c, p in zip(comps, pick) if not p], shape, helper, 'subset B')
        if whole is not None and ma is not None and mb is not None:
            stack = np.array([m.astype(float) for m in singles])
            sabs = np.abs(stack).sum(axis=0)
            ncontrib = (stack != 0).sum(axis=0)
            tol = (ncontrib + 2) * EPS32 * sabs + 1e-38
            others = [('split', ma.astype(float) + mb.astype(float)), ('singles', stack.sum(axis=0))]
            rev = _model_of(AeRes, o, comps[::-1], shape, helper, 'reversed catalogue')
            if rev is not None:
                others.append(('reversed_order', rev.astype(float)))
            if whole_determined and np.all(np.isfinite(whole)):
                # the catalogue's model as a whole against the sum of the independent renderings
                o.count('whole_models_compared_with_render')
                o.n_eval += 1
                errw = np.abs(whole.astype(float) - ref_sum)
                ratio = float(np.max(errw / (tol_sum + 1e-38))) if tol_sum.any() else 0.0
                o.worst('whole_model_vs_render_over_tolerance', ratio)
                if case.get('shared'):
                    o.worst('shared_shape_whole_model_vs_render_over_tolerance', ratio)
                if not np.all(errw <= tol_sum + 1e-38):
                    p = np.unravel_index(int(np.argmax(errw / (tol_sum + 1e-38))), errw.shape)
                    o.violate('whole_model_vs_render', {'at_index': [int(p[0]), int(p[1])], 'model': float(whole[p]),
                                                        'reference': float(ref_sum[p]), 'tolerance': float(tol_sum[p]),
                                                        'n_sources': len(comps), 'shared_shape': case.get('shared'),
                                                        'first_source': {kk: srcs[0][kk] for kk in ('ra', 'dec', 'peak', 'a', 'b', 'pa')},
                                                        'header': _hdr_witness(case)}, _mech_nonsquare(case, srcs))
            for name, other in others:
                o.count('additivity_comparisons')
                o.n_eval += 1
                err = np.abs(whole.astype(float) - other)
                ratio = float(np.max(err / tol))
                o.worst('additivity_error_over_tolerance', ratio)
                o.worst('additivity_max_overlap', int(ncontrib.max()))
                if not ratio <= 1.0:
                    p = np.unravel_index(int(np.argmax(err / tol)), err.shape)
                    o.violate('additivity', {'against': name, 'at_index': [int(p[0]), int(p[1])], 'whole': float(whole[p]),
                                             'sum_of_parts': float(other[p]), 'tolerance': float(tol[p]),
                                             'n_sources': len(comps), 'shared_shape': case.get('shared'),
                                             'header': _hdr_witness(case)})
    o.sample = {'n_sources': len(srcs), 'first_source': {k: v for k, v in srcs[0].items()},
                'classes': [_classify(z, shape, s)[0] for s in srcs][:20],
                'peak_pixel_first': None if singles[0] is None else float(np.max(np.abs(singles[0])))}


def _mask_expectation(z, shape, srcs, thr):
    """(must_nan, must_clear) boolean images; pixels in neither are undetermined"""
    must_nan = np.zeros(shape, bool)
    may_nan = np.zeros(shape, bool)
    for s, t in zip(srcs, thr):
        ref = render.render(z, shape, [s], nsigma=7.0)
        band = TOL_MODEL * abs(s['peak'])
        must_nan |= ref >= t + band
        may_nan |= ref >= t - band
    return must_nan, ~may_nan


def _mask_sources(rng, z, shape, scale_as, n):
    srcs = _catalogue(rng, z, shape, scale_as, n, ['interior', 'edge3', 'interior', 'off', 'last_half', 'interior'],
                      positive=True)
    return [s for s in srcs if _classify(z, shape, s)[0] != 'ring']


def _run_mask(case, o, rng, z, helper, shape, scale_as, AeRes, models):
    srcs = _mask_sources(rng, z, shape, scale_as, case['nsrc'])
    if case['mode'] == 'frac':
        frac = float(rng.choice([0.01, 0.1, 0.5, 0.9, float(rng.uniform(0.002, 0.95))]))
        comps = [_component(models, s, k) for k, s in enumerate(srcs)]
        thr = [frac * s['peak'] for s in srcs]
        kw = {'mask': True, 'frac': frac}
    else:
        sigma = float(rng.choice([3.0, 4.0, 5.0, 10.0]))
        rms = [s['peak'] * float(rng.uniform(0.002, 0.9)) / sigma for s in srcs]
        comps = [_component(models, s, k, rms=r) for k, (s, r) in enumerate(zip(srcs, rms))]
        thr = [sigma * r for r in rms]
        kw = {'mask': True, 'sigma': sigma}
    m = _model_of(AeRes, o, comps, shape, helper, 'mask mode', **kw)
    if m is None:
        return
    inimg = [s for s in srcs if _classify(z, shape, s)[0] == 'in']
    thr_in = [t for s, t in zip(srcs, thr) if _classify(z, shape, s)[0] == 'in']
    must_nan, must_clear = _mask_expectation(z, shape, inimg, thr_in)
    got = np.isnan(m)
    o.count('mask_images')
    o.n_eval += 1
    o.n_nontrivial += int(must_nan.any())
    o.count('mask_pixels_must_blank', int(must_nan.sum()))
    o.count('mask_pixels_must_stay', int(must_clear.sum()))
    o.count('mask_pixels_undetermined', int((~must_nan & ~must_clear).sum()))
    bad1 = must_nan & ~got
    bad2 = must_clear & got
    bad3 = ~got & (m != 0)
    wit = {'mode': case['mode'], 'kw': {k: v for k, v in kw.items()}, 'n_sources': len(srcs), 'header': _hdr_witness(case)}
    if bad1.any():
        p = np.argwhere(bad1)[0]
        o.violate('mask_pixel_not_blanked', dict(wit, count=int(bad1.sum()), at_index=p.tolist()))
    if bad2.any():
        p = np.argwhere(bad2)[0]
        o.violate('mask_blanked_below_threshold', dict(wit, count=int(bad2.sum()), at_index=p.tolist()))
    if bad3.any():
        p = np.argwhere(bad3)[0]
        o.violate('mask_model_not_zero', dict(wit, count=int(bad3.sum()), at_index=p.tolist(), value=float(m[tuple(p)])))
    o.sample = {'mode': case['mode'], 'kw': kw, 'blanked': int(got.sum()), 'must_blank': int(must_nan.sum()),
                'undetermined': int((~must_nan & ~must_clear).sum())}


COLMAP = {'ra_col': 'RAJ2000', 'dec_col': 'DEJ2000', 'peak_col': 'Speak', 'a_col': 'Maj', 'b_col': 'Min', 'pa_col': 'PosAng'}


def _write_catalogue(path, srcs, fmt, rms, renamed=True):
    from astropy.table import Table
    names = COLMAP if renamed else {'ra_col': 'ra', 'dec_col': 'dec', 'peak_col': 'peak_flux', 'a_col': 'a', 'b_col': 'b',
                                    'pa_col': 'pa'}
    t = Table()
    t['island'] = np.arange(len(srcs), dtype=np.int64)
    t['source'] = np.zeros(len(srcs), dtype=np.int64)
    for col, key in (('ra_col', 'ra'), ('dec_col', 'dec'), ('peak_col', 'peak'), ('a_col', 'a'), ('b_col', 'b'), ('pa_col', 'pa')):
        t[names[col]] = np.array([s[key] for s in srcs], dtype=np.float64)
    t['local_rms'] = np.array(rms, dtype=np.float64)
    t.write(path, format={'csv': 'ascii.csv', 'fits': 'fits', 'vot': 'votable'}[fmt], overwrite=True)


def _read(path):
    from astropy.io import fits
    with fits.open(path) as h:
        return np.array(h[0].data)


def _cli_mask(o, wit, img, cat, rfile, sigma, debug=False, colmap=None):
    """the AeRes command line: --mask --sigma S with frac unset and the renamed columns"""
    import logging
    from AegeanTools.CLI import AeRes as cli
    root = logging.getLogger()
    level, handlers = root.level, list(root.handlers)
    cm = colmap or COLMAP
    argv = ['-c', cat, '-f', img, '-r', rfile, '--mask', '--sigma', repr(sigma), '--racol', cm['ra_col'],
            '--deccol', cm['dec_col'], '--peakcol', cm['peak_col'], '--acol', cm['a_col'],
            '--bcol', cm['b_col'], '--pacol', cm['pa_col']]
    o.count('mask_files_via_cli')
    sink = old_stderr = None
    if debug:
        argv.append('--debug')
        o.count('cli_runs_with_debug')
        if not _root_is_debug():
            # let the command line's own logging.basicConfig(level=DEBUG) take effect (it is a no-op when the root
            # logger already has handlers) and keep its stderr handler quiet
            import sys
            for h in handlers:
                root.removeHandler(h)
            sink, old_stderr = open(os.devnull, 'w'), sys.stderr
            sys.stderr = sink
    try:
        rc = cli.main(argv)
        if debug:
            o.count('cli_runs_with_debug_effective', int(_root_is_debug()))
    except BaseException as e:
        if isinstance(e, KeyboardInterrupt):
            raise
        o.n_eval += 1
        o.violate('raises', dict(wit, where='CLI AeRes ' + ' '.join(argv[6:9]), exc=repr(e), tb=traceback.format_exc()[-800:]))
        return False
    finally:
        root.setLevel(level)
        for h in list(root.handlers):
            if h not in handlers:
                root.removeHandler(h)
        if sink is not None:
            import sys
            sys.stderr = old_stderr
            sink.close()
            for h in handlers:
                if h not in root.handlers:
                    root.addHandler(h)
    if rc != 0 or not os.path.exists(rfile):
        o.n_eval += 1
        o.violate('no_output_file', dict(wit, where='CLI AeRes --mask --sigma', returncode=rc))
        return False
    return True


def _run_files(case, o, rng, z, hdr, shape, scale_as, AeRes, tmp):
    from astropy.io import fits
    srcs = _mask_sources(rng, z, shape, scale_as, case['nsrc'])          # positive, no ring sources
    if case.get('sip'):
        srcs = [dict(s_, peak=abs(s_['peak'])) for s_ in _corner_edge_sources(rng, z, shape, scale_as, compact=True)] + srcs
        for s_ in srcs:                                                  # compact sources (see the SIP cases)
            s_['a'] = min(s_['a'], 1.4 * 4.0 * scale_as)
            s_['b'] = min(s_['b'], s_['a'])
    fmt = case['fmt']
    sigma = float(case.get('sigma', 4.0))
    o.see('mask_sigma_through_make_residual', sigma)
    pixtype = case.get('pixtype', 'float32')
    o.see('input_pixel_type', pixtype)
    if pixtype.startswith('int'):
        # integer images: peaks of some tens of counts, so that a result squeezed back into integers is visible
        typ0 = float(np.median([s['peak'] for s in srcs]))
        for s in srcs:
            s['peak'] = s['peak'] * (40.0 / typ0)
    rms = [s['peak'] * float(rng.uniform(0.01, 0.5)) / sigma for s in srcs]
    cat = os.path.join(tmp, 'cat.' + fmt)
    colmap = dict(COLMAP)
    if case.get('writer') == 'aegean':
        # the catalogue as Aegean writes it (catalogs.save_catalog: FITS tables store every float as float32 'E'), given
        # back to make_residual / the command line in that format.  The expected image is rendered from the values AS
        # STORED in the file (read back with astropy.table, widened exactly to float64), so 1e-4 of the peak is decidable.
        from astropy.table import Table
        from AegeanTools import catalogs, models as models_
        comps_ = [_component(models_, s_, k_, rms=r_) for k_, (s_, r_) in enumerate(zip(srcs, rms))]
        for c_ in comps_:                       # the sexagesimal strings are not read by AeRes; any non-empty text does
            c_.ra_str, c_.dec_str = '%012.8f' % c_.ra, '%+012.8f' % c_.dec
        catalogs.save_catalog(cat, comps_)
        cat = os.path.join(tmp, 'cat_comp.' + fmt)
        if not os.path.exists(cat):
            raise RuntimeError('harness: catalogs.save_catalog wrote no %s' % cat)
        colmap = {'ra_col': 'ra', 'dec_col': 'dec', 'peak_col': 'peak_flux', 'a_col': 'a', 'b_col': 'b', 'pa_col': 'pa'}
        tb = Table.read(cat, format={'csv': 'ascii.csv', 'fits': 'fits', 'vot': 'votable'}[fmt])
        if len(tb) != len(srcs):
            raise RuntimeError('harness: catalogue read back with %d rows, wrote %d' % (len(tb), len(srcs)))
        o.see('aegean_written_catalogue_column_dtype', '%s:%s' % (fmt, tb['a'].dtype.str))
        stored_single = tb['a'].dtype.itemsize == 4
        worst_q = 0.0
        for k_, s_ in enumerate(srcs):
            for key, col in (('ra', 'ra'), ('dec', 'dec'), ('peak', 'peak_flux'), ('a', 'a'), ('b', 'b'), ('pa', 'pa')):
                v = float(np.float64(tb[col][k_]))
                if key in ('a', 'b'):
                    worst_q = max(worst_q, abs(v - s_[key]) / s_[key])
                s_[key] = v
            rms[k_] = float(np.float64(tb['local_rms'][k_]))
        o.count('aegean_written_catalogues')
        o.count('aegean_written_catalogues_' + fmt)
        if stored_single:
            o.count('catalogues_stored_as_float32')
            o.worst('float32_storage_relative_change_of_axes', worst_q)
    else:
        _write_catalogue(cat, srcs, fmt, rms)
    typ = float(np.median([s['peak'] for s in srcs]))
    data = (rng.normal(0.0, 0.05 * typ, shape)).astype(np.float32)
    img = os.path.join(tmp, 'img.fits')
    if pixtype == 'float32':
        fits.PrimaryHDU(data, header=hdr).writeto(img, overwrite=True)
    elif pixtype == 'float64':
        data = rng.normal(0.0, 0.05 * typ, shape)
        fits.PrimaryHDU(data, header=hdr).writeto(img, overwrite=True)
    else:
        big = pixtype.startswith('int32')
        raw = np.rint(rng.normal(0.0, 3.0, shape) + (70000 if big else 100)).astype(np.int32 if big else np.int16)
        fits.PrimaryHDU(raw, header=hdr).writeto(img, overwrite=True)
        data = raw
        if pixtype.endswith('_bscale'):
            with fits.open(img, mode='update', do_not_scale_image_data=True) as hl_:
                hl_[0].header['BSCALE'] = 0.5
            data = (raw * 0.5).astype(np.float32)
        with fits.open(img, do_not_scale_image_data=True) as hl_:           # harness self-check of the input file
            if hl_[0].header['BITPIX'] != (32 if big else 16) or 'BZERO' in hl_[0].header or \
                    not np.array_equal(hl_[0].data, raw) or ('BSCALE' in hl_[0].header) != pixtype.endswith('_bscale'):
                raise RuntimeError('harness: could not write the %s input image' % pixtype)
    inimg = [(s, r) for s, r in zip(srcs, rms) if _classify(z, shape, s)[0] == 'in']
    refs = [render.render(z, shape, [s], nsigma=7.0) for s, _ in inimg]
    ref = np.sum(refs, axis=0) if refs else np.zeros(shape)
    tol_model = sum((TOL_MODEL * abs(s['peak'])) * (r != 0) + 4e-6 * abs(s['peak']) for (s, _), r in zip(inimg, refs)) \
        if refs else np.zeros(shape)
    wit = {'fmt': fmt, 'colmap': colmap, 'catalogue_writer': case.get('writer', 'astropy.table'), 'n_sources': len(srcs), 'sigma': sigma, 'mask_via_cli': bool(case.get('mask_via_cli')),
           'input_pixel_type': pixtype, 'debug_logging': bool(case.get('debug_logging')), 'cli_debug': bool(case.get('cli_debug')),
           'header': _hdr_witness(case)}

    def call(what, rfile, **kw):
        try:
            AeRes.make_residual(kw.pop('image', img), cat, rfile, colmap=dict(colmap), **kw)
        except Exception as e:
            o.n_eval += 1
            o.violate('raises', dict(wit, where='AeRes.make_residual ' + what, exc=repr(e),
                                     tb=traceback.format_exc()[-800:]))
            return False
        if not os.path.exists(rfile):
            o.n_eval += 1
            o.violate('no_output_file', dict(wit, where=what))
            return False
        return True

    def judge(name, got, expect, tol):
        o.count('files_checked')
        if pixtype.startswith('int'):
            o.count('files_checked_integer_input' + ('_bscale' if pixtype.endswith('_bscale') else ''))
        o.n_eval += 1
        if got.shape != expect.shape:
            o.violate(name + '_shape', dict(wit, got=list(got.shape)))
            return
        tol = tol + 1e-38
        err = np.abs(got.astype(float) - expect)
        bad = ~(err <= tol)
        ratio = float(np.nanmax(err / tol)) if np.isfinite(err).all() else float('inf')
        o.worst(name + '_error_over_tolerance', ratio)
        if bad.any():
            p = np.argwhere(bad)[0]
            o.violate(name, dict(wit, count=int(bad.sum()), at_index=p.tolist(), got=float(got[tuple(p)]),
                                 expected=float(expect[tuple(p)]), tolerance=float(np.broadcast_to(tol, err.shape)[tuple(p)])))

    d = data.astype(float)
    fl = 2 * EPS32 * (np.abs(d) + np.abs(ref))
    r_sub, m_sub = os.path.join(tmp, 'r_sub.fits'), os.path.join(tmp, 'm_sub.fits')
    if call('subtract', r_sub, mfile=m_sub):
        judge('residual_file', _read(r_sub), d - ref, tol_model + fl)
        if os.path.exists(m_sub):
            judge('model_file', _read(m_sub), ref, tol_model + fl)
        else:
            o.violate('no_output_file', dict(wit, where='mfile'))
    r_add = os.path.join(tmp, 'r_add.fits')
    if call('add', r_add, add=True):
        added = _read(r_add)
        judge('added_file', added, d + ref, tol_model + fl)
        r_back = os.path.join(tmp, 'r_back.fits')
        if call('subtract after add', r_back, image=r_add):
            back = _read(r_back)
            o.count('restorations_checked')
            tol = 2 * EPS32 * np.maximum(np.maximum(np.abs(d), np.abs(added.astype(float))), np.abs(ref)) + 1e-38
            judge('add_then_subtract_restores', back, d, tol)
            if pixtype.startswith('int') and not pixtype.endswith('_bscale'):
                o.count('restorations_checked_integer_input')
    for mode in ('frac', 'sigma'):
        r_m = os.path.join(tmp, 'r_mask_%s.fits' % mode)
        if mode == 'frac':
            frac = float(rng.choice([0.05, 0.25, 0.5]))
            thr = [frac * s['peak'] for s, _ in inimg]
            okc = call('mask frac', r_m, mask=True, frac=frac)
        elif case.get('mask_via_cli'):
            thr = [sigma * r for _, r in inimg]
            okc = _cli_mask(o, wit, img, cat, r_m, sigma, debug=bool(case.get('cli_debug') or case.get('debug_logging')),
                            colmap=colmap)
        else:
            thr = [sigma * r for _, r in inimg]
            okc = call('mask sigma', r_m, mask=True, sigma=sigma)
        if not okc:
            continue
        got = _read(r_m)
        must_nan, must_clear = _mask_expectation(z, shape, [s for s, _ in inimg], thr)
        o.count('files_checked')
        o.count('mask_files')
        if pixtype.startswith('int') and not pixtype.endswith('_bscale'):
            o.count('mask_files_integer_input')
        o.n_eval += 1
        o.count('mask_pixels_undetermined', int((~must_nan & ~must_clear).sum()))
        bad1 = must_nan & ~np.isnan(got)
        bad2 = must_clear & ~(got == data)
        if bad1.any():
            o.violate('mask_file_pixel_not_blanked', dict(wit, mode=mode, count=int(bad1.sum()), at_index=np.argwhere(bad1)[0].tolist()))
        if bad2.any():
            p = np.argwhere(bad2)[0]
            o.violate('mask_file_changed_unmasked_pixel', dict(wit, mode=mode, count=int(bad2.sum()), at_index=p.tolist(),
                                                               got=float(got[tuple(p)]), data=float(data[tuple(p)])))
    o.n_nontrivial += len(inimg)
    o.sample = {'fmt': fmt, 'n_sources': len(srcs), 'on_image': len(inimg), 'colmap': COLMAP}


def _isolated_sources(rng, z, shape, scale_as, sign):
    """3-6 sources on a jittered grid, >= 36 px from the edges and >= 55 px apart; FWHM 4..10 px, minor >= 4 px
    (>= the 4 x 3.2 px beam of the header, so the fit's lower size bound 0.8 x beam is far away)"""
    rows, cols = shape
    cells = [(a, b) for a in (0.27, 0.73) for b in (0.2, 0.5, 0.8)]
    pick = rng.permutation(len(cells))[: int(rng.integers(3, 7))]
    out = []
    for c in pick:
        i = cells[c][0] * rows + float(rng.uniform(-4, 4))
        j = cells[c][1] * cols + float(rng.uniform(-4, 4))
        ra, dec = z.index2sky(i, j)
        a = float(rng.uniform(4.4, 10.0)) * scale_as
        b = max(a * float(rng.uniform(0.45, 1.0)), 4.1 * scale_as)
        a = max(a, b * 1.02)
        out.append({'ra': float(ra), 'dec': float(dec), 'peak': sign * 1.0, 'a': a, 'b': b, 'pa': float(rng.uniform(-90, 90)),
                    'index_ij': [i, j]})
    return out


def _compare_with_truth(truth, found, scale_as):
    """nearest-position match; per truth source the deviations of the extracted parameters"""
    rows = []
    for s in truth:
        if not found:
            rows.append(None)
            continue
        d = [float(sphere.sep(s['ra'], s['dec'], f.ra, f.dec)) * 3600.0 for f in found]
        k = int(np.argmin(d))
        f = found[k]
        if d[k] > 3 * scale_as:
            rows.append(None)
            continue
        rows.append({'pos_px': d[k] / scale_as, 'peak_rel': abs(f.peak_flux - s['peak']) / abs(s['peak']),
                     'a_rel': abs(f.a - s['a']) / s['a'], 'b_rel': abs(f.b - s['b']) / s['b'],
                     'pa_deg': float(abs(sphere.angdiff(f.pa, s['pa'], 180.0))) if s['a'] / s['b'] > 1.05 else 0.0,
                     'flags': int(f.flags)})
    return rows


def _run_closed_loop(case, o, rng, z, hdr, helper, shape, scale_as, AeRes, tmp):
    from astropy.io import fits
    from AegeanTools.source_finder import SourceFinder
    from AegeanTools import catalogs
    sign = -1.0 if case['negative'] else 1.0
    truth = _isolated_sources(rng, z, shape, scale_as, sign)
    image = render.render(z, shape, truth, nsigma=None).astype(np.float32)
    img = os.path.join(tmp, 'loop.fits')
    fits.PrimaryHDU(image, header=hdr).writeto(img, overwrite=True)
    o.count('closed_loop_fields')
    o.n_eval += 1
    wit = {'truth': [{k: s[k] for k in ('ra', 'dec', 'peak', 'a', 'b', 'pa', 'index_ij')} for s in truth],
           'header': _hdr_witness(case), 'forced_rms': 0.02, 'forced_bkg': 0.0}
    try:
        sf = SourceFinder()
        found = sf.find_sources_in_image(img, rms=0.02, bkg=0.0, cores=1, nonegative=not case['negative'],
                                         nopositive=bool(case['negative']))
    except Exception as e:
        o.violate('closed_loop_find_raises', dict(wit, exc=repr(e), tb=traceback.format_exc()[-1200:]), 'closed-loop-finder-raises')
        return
    found = list(found)
    wit['extracted'] = [[float(v) for v in (f.ra, f.dec, f.peak_flux, f.a, f.b, f.pa)] + [int(f.flags)] for f in found][:12]
    model = _model_of(AeRes, o, found, shape, helper, 'extracted catalogue')
    if model is None:
        return
    resid = image.astype(float) - model.astype(float)
    if case['via_files'] and found:
        # the same through the files a user would have: save_catalog -> make_residual
        try:
            catalogs.save_catalog(os.path.join(tmp, 'out.csv'), found)
            rfile = os.path.join(tmp, 'loop_resid.fits')
            AeRes.make_residual(img, os.path.join(tmp, 'out_comp.csv'), rfile)
            rf = _read(rfile).astype(float)
            o.count('closed_loop_via_files')
            # csv keeps full precision: the file residual equals the in-memory one
            o.worst('closed_loop_file_vs_memory_rel_peak', float(np.nanmax(np.abs(rf - resid))))
            if not np.nanmax(np.abs(rf - resid)) <= 1e-6:
                o.violate('closed_loop_file_vs_memory', dict(wit, max_abs=float(np.nanmax(np.abs(rf - resid)))))
        except Exception as e:
            o.violate('raises', dict(wit, where='save_catalog/make_residual', exc=repr(e), tb=traceback.format_exc()[-800:]))
    worst = float(np.max(np.abs(resid)))            # |peak| = 1
    o.worst('closed_loop_residual_rel_peak', worst)
    match = _compare_with_truth(truth, found, scale_as)
    nmatched = sum(r is not None for r in match)
    o.count('closed_loop_sources_matched', nmatched)
    o.count('closed_loop_sources_injected', len(truth))
    o.n_nontrivial += nmatched
    for r in match:
        if r:
            for k in ('pos_px', 'peak_rel', 'a_rel', 'b_rel', 'pa_deg'):
                o.worst('closed_loop_catalogue_vs_truth_' + k, r[k])
            o.see('closed_loop_flags', r['flags'])
    if not worst <= TOL_LOOP:
        # diagnosis: is the model faithful to the catalogue it was given (AeRes), and is the catalogue the truth (fitting)?
        as_dicts = [{'ra': f.ra, 'dec': f.dec, 'peak': f.peak_flux, 'a': f.a, 'b': f.b, 'pa': f.pa} for f in found
                    if np.all(np.isfinite([f.ra, f.dec, f.peak_flux, f.a, f.b, f.pa])) and f.a > 0 and f.b > 0]
        ref_found = render.render(z, shape, as_dicts, nsigma=7.0) if as_dicts else np.zeros(shape)
        aeres_err = float(np.max(np.abs(model.astype(float) - ref_found)))
        cat_ok = len(found) == len(truth) and all(
            r is not None and r['pos_px'] <= 1e-3 and r['peak_rel'] <= 3e-4 and r['a_rel'] <= 3e-4 and r['b_rel'] <= 3e-4
            and r['pa_deg'] <= 0.05 for r in match)
        p = np.unravel_index(int(np.argmax(np.abs(resid))), resid.shape)
        mech = None
        if aeres_err <= 3 * TOL_MODEL and not cat_ok:
            mech = 'closed-loop-extracted-catalogue-differs-from-truth'
        o.violate('closed_loop_residual', dict(wit, residual_rel_peak=worst, at_index=[int(p[0]), int(p[1])],
                                               n_found=len(found), n_injected=len(truth), catalogue_vs_truth=match,
                                               catalogue_equals_truth=cat_ok,
                                               aeres_model_vs_render_of_extracted_catalogue=aeres_err,
                                               diagnosis=('AeRes reproduces the extracted catalogue to %.1e of the peak; the extracted '
                                                          'catalogue is %s the injected truth' % (aeres_err, 'equal to' if cat_ok else 'NOT'))),
                  mech)
    o.sample = {'n_injected': len(truth), 'n_found': len(found), 'residual_rel_peak': worst, 'catalogue_vs_truth': match[:3]}
