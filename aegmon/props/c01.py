"""C01 - closed-loop recovery of an injected isolated Gaussian.

Truth is generated, not measured: the image is rendered by aegmon.refs.render from sky-plane parameters with the
independent WCS of aegmon.refs.wcs_zenithal; the real SourceFinder.find_sources_in_image (or the aegean CLI) then has
to return exactly one component with those parameters.  The noise clause is decided on aggregate pull statistics
(fold), never on a single trial.
"""
import os
import shutil
import subprocess
import sys

import numpy as np

from aegmon.common import Obs, rng_for, scratch_dir
from aegmon.refs import render, sphere
from aegmon.refs import wcs_zenithal as wz

ID = 'C01'
LEVEL = 'exploration'
RULE = ('noise-free cases: one sky-plane Gaussian (sub-pixel position incl. pixel centre/corner, PA over (-90,90] incl. 0, '
        '+-45, 90, axis ratio 1..3, size beam..3 beams, |amp| 1e-3..1e3 of both signs, beam 3-6 px FWHM of any '
        'elongation/BPA, pixel scale 1-60 arcsec, all five zenithal projections, CRVAL incl. |dec| 80-89 and RA 0/359.999, '
        'docov on/off, API and CLI) with forced rms = 0.02|amp|; noisy batches: the same generator at SNR 40-300 with the '
        'noise each mode models (white for docov=False, beam-correlated for docov=True), forced or BANE-estimated rms. '
        'An evaluation is one find_sources_in_image run; non-trivial = the rendered source is inside the image and above '
        'the seed threshold; distinct = distinct case dicts (each trial of a noisy batch has its own parameters).')
ASSUMPTIONS = ['truth comes from aegmon/refs/render.py + wcs_zenithal.py (cross-checked against astropy.wcs to 1e-10 deg at start-up)',
               'sources lie within 3 deg of CRVAL (projection anisotropy <= 0.14 % against the 0.5 % tolerance)',
               'noise clause: decided per (mode, parameter) over all trials of the run: violated iff the number of trials '
               'beyond 5 reported sigma reaches k0 = smallest k with P[Binomial(N, 5e-3) >= k] < 1e-9, or the robust '
               'pull scale 1.4826*MAD exceeds 2.2; SNR 40-300 only; noise matched to the mode']
MIN_REACH = {'source_finder:SourceFinder.find_sources_in_image': 1, 'source_finder:SourceFinder._fit_island': 1,
             'fitting:do_lmfit': 1}
MIN_COUNTERS = {'nf_judged': 20, 'noisy_trials': 100, 'nf_cube_cases_plane_above_0': 4, 'nf_psfmap_judged': 6, 'nf_user_beam_cases': 5, 'nf_mas_pixel_cases': 5, 'nf_maps_saved_by_the_same_finder_first': 5, 'nf_rectangular_pixel_cases': 5}
BATCHES_PER_JOB = 6
KEY_D25 = 'amplitude-bound-excludes-truth'
KEY_SPLIT = 'pixel-noise-local-maxima-split-source'
KEY_SAMPLING = 'pixel-sampling-local-maxima-split-source'

TOL = {'pos_px': 0.02, 'peak': 1e-3, 'a': 5e-3, 'b': 5e-3, 'pa_deg': 0.5, 'int': 5e-3}
PARS = ('ra', 'dec', 'peak', 'a', 'b', 'pa', 'int')


def sys_path_repo():
    repo = os.environ.get('AEGMON_REPO', '/repo')
    if sys.path[0] != repo:
        sys.path.insert(0, repo)
    return repo


# ------------------------------------------------------------------------------------------ generator
def gen_source_case(rng, noisy=False, d25=False, big_ok=True, mas=False):
    proj = str(rng.choice(wz.PROJECTIONS))
    scale = float(10 ** rng.uniform(np.log10(1.0), np.log10(60.0)) / 3600.0)
    if mas:
        scale = float(10 ** rng.uniform(np.log10(0.2e-3), np.log10(20e-3)) / 3600.0)      # VLBI: 0.2 - 20 mas per pixel
    rows, cols = int(rng.integers(56, 90)), int(rng.integers(56, 90))
    dec_kind = rng.random()
    if dec_kind < 0.25:
        dec0 = float(rng.choice([-1, 1]) * rng.uniform(80, 89))
    elif dec_kind < 0.35:
        dec0 = 0.0
    else:
        dec0 = float(rng.uniform(-80, 80))
    ra0 = float(rng.choice([0.0, 359.999, 180.0])) if rng.random() < 0.3 else float(rng.uniform(0, 360))
    # reference pixel inside or up to ~150 px outside the image, source always <= 3 deg from CRVAL
    maxoff = min(150.0, 2.5 / scale)
    crpix = (float(rng.uniform(-maxoff, cols + maxoff)), float(rng.uniform(-maxoff, rows + maxoff))) if rng.random() < 0.5 \
        else (float(rng.uniform(1, cols)), float(rng.uniform(1, rows)))
    beam_px = float(rng.uniform(3.0, 6.0))
    bmaj = beam_px * scale
    bmin = bmaj * (1.0 if rng.random() < 0.4 else float(rng.uniform(0.55, 1.0)))
    bpa = float(rng.choice([0.0, 90.0, 45.0, -45.0])) if rng.random() < 0.3 else float(rng.uniform(-90, 90))
    south = bool(rng.random() < 0.08)
    if south:
        # beam position angle given near +-180 (the same beam as near 0): the fit then works at theta ~ +-180, where a
        # bearing difference can wrap
        bpa = float(rng.choice([179.6, -179.7, 180.0, 179.95, -180.0, 178.0]))
    docov = bool(rng.random() < 0.5)
    # source shape (arcsec): b >= beam major so that it is at least beam sized in every direction
    amax = 3.0 if (big_ok and not docov) else (2.0 if docov else 3.0)
    b = bmaj * 3600 * float(rng.uniform(1.0, 1.6))
    if d25:
        b = max(bmaj, 3.2 * scale) * 3600 * float(rng.uniform(1.0, 1.05))
    a = b * (1.0 if rng.random() < 0.15 else float(rng.uniform(1.0, 3.0)))
    a = min(a, bmaj * 3600 * amax * 1.6, 11.0 * scale * 3600)
    a = max(a, b)
    pa = float(rng.choice([0.0, 45.0, -45.0, 90.0, 30.0])) if rng.random() < 0.3 else float(rng.uniform(-89.99, 90))
    if south:
        pa = float(rng.uniform(-3.0, 3.0))
        a = max(a, 1.6 * b)
    sub = rng.random()
    i0, j0 = float(rng.integers(24, rows - 24)), float(rng.integers(24, cols - 24))
    if d25 or sub < 0.25:
        i0 += 0.5
        j0 += 0.5                     # pixel corner
    elif sub < 0.5:
        pass                          # pixel centre
    else:
        i0 += float(rng.uniform(-0.5, 0.5))
        j0 += float(rng.uniform(-0.5, 0.5))
    amp = float(rng.choice([-1, 1]) * 10 ** rng.uniform(-3, 3))
    case = {'proj': proj, 'crval': [ra0, dec0], 'crpix': list(crpix), 'scale': scale, 'flip_dec': bool(rng.random() < 0.15),
            'shape': [rows, cols], 'beam': [bmaj, bmin, bpa], 'index': [i0, j0],
            'src': {'peak': amp, 'a': a, 'b': b, 'pa': pa}, 'docov': docov,
            'use_cd': bool(rng.random() < 0.3)}
    if noisy:
        case['snr'] = float(10 ** rng.uniform(np.log10(40), np.log10(300)))
        case['bane'] = bool(rng.random() < 0.2)
        if case['bane']:
            case['shape'] = [int(rng.integers(150, 190)), int(rng.integers(150, 190))]
            case['index'] = [case['shape'][0] / 2.0 + float(rng.uniform(-20, 20)), case['shape'][1] / 2.0 + float(rng.uniform(-20, 20))]
            case['cores'] = int(rng.choice([1, 4]))
        case['noise_seed'] = int(rng.integers(0, 2 ** 31))
    if d25:
        case['snr_forced'] = 1000.0
    elif not noisy:
        # the forced rms sets how much of the source is inside the island (flood = 4 rms): from a thin core to the far wings
        case['snr_forced'] = float(10 ** rng.uniform(np.log10(10.0), np.log10(300.0)))
    return case


def gen_aligned_case(rng):
    """elongated source along a pixel axis, beam elongated across it, island reduced to a sliver by the forced rms:
    the corner of parameter space where the fitted sx/sy swap roles and island-size dependent bounds bite"""
    c = gen_source_case(rng)
    c['flip_dec'] = False
    bmaj = c['beam'][0]
    c['beam'][1] = bmaj * float(rng.uniform(0.55, 0.8))
    pa = float(rng.choice([0.0, 90.0])) + float(rng.uniform(-20, 20))
    pa = pa - 180 if pa > 90 else pa
    c['src']['pa'] = pa
    c['beam'][2] = float(pa + 90 + rng.uniform(-10, 10))
    if c['beam'][2] > 90:
        c['beam'][2] -= 180
    b = bmaj * 3600 * float(rng.uniform(1.0, 1.3))
    c['src']['b'] = b
    c['src']['a'] = min(b * float(rng.uniform(2.0, 3.0)), 11.0 * c['scale'] * 3600 * 1.6)
    c['snr_forced'] = float(10 ** rng.uniform(1.0, np.log10(60.0)))
    c['stratum'] = 'aligned'
    return c


def cases(seed, tier):
    rng = rng_for(seed, 'c01')
    out = []
    n_nf = 96 if tier == 'quick' else 2000
    for i in range(n_nf):
        c = gen_source_case(rng)
        c.update(kind='nf', via='cli' if i % 8 == 7 else 'api')
        if i % 8 == 3:
            c['save_first'] = True
        out.append(c)
    n_al = 32 if tier == 'quick' else 400
    for i in range(n_al):
        c = gen_aligned_case(rng)
        c.update(kind='nf', via='api')
        out.append(c)
    # rms forced, background NOT forced: the background pass still has to run and remove a pedestal
    n_ped = 10 if tier == 'quick' else 100
    for i in range(n_ped):
        c = gen_source_case(rng, big_ok=False)
        c['shape'] = [int(rng.integers(130, 170)), int(rng.integers(130, 170))]
        c['index'] = [c['shape'][0] / 2.0 + float(rng.uniform(-25, 25)), c['shape'][1] / 2.0 + float(rng.uniform(-25, 25))]
        c['src']['a'] = min(c['src']['a'], 8.0 * c['scale'] * 3600)
        c['src']['b'] = min(c['src']['b'], c['src']['a'])
        c['pedestal_in_rms'] = float(rng.choice([-3.0, 2.0, 5.0, 20.0]))
        c['snr_forced'] = float(rng.uniform(30, 100))
        c['cores'] = int(rng.choice([1, 2]))
        c.update(kind='nf', via='cli' if i % 4 == 3 else 'api', stratum='pedestal')
        out.append(c)
    # the image is one plane of a cube (other planes: other zero levels, a decoy source elsewhere); forced or internal bkg
    n_cube = 12 if tier == 'quick' else 120
    for i in range(n_cube):
        c = gen_source_case(rng, big_ok=False)
        c['shape'] = [int(rng.integers(130, 170)), int(rng.integers(130, 170))]
        c['index'] = [c['shape'][0] / 2.0 + float(rng.uniform(-25, 25)), c['shape'][1] / 2.0 + float(rng.uniform(-25, 25))]
        c['src']['a'] = min(c['src']['a'], 8.0 * c['scale'] * 3600)
        c['src']['b'] = min(c['src']['b'], c['src']['a'])
        nplane = int(rng.integers(2, 5))
        c['cube'] = {'planes': nplane, 'index': int(rng.integers(0, nplane)),
                     'pedestals_in_rms': [float(rng.choice([-4.0, 3.0, 6.0, 15.0, 0.0])) for _ in range(nplane)]}
        if i % 3 != 2:
            c['cube']['index'] = max(1, c['cube']['index'])
            c['pedestal_in_rms'] = c['cube']['pedestals_in_rms'][c['cube']['index']]
            if all(p_ == c['pedestal_in_rms'] for p_ in c['cube']['pedestals_in_rms']):
                c['cube']['pedestals_in_rms'][0] = c['pedestal_in_rms'] + 7.0
        c['snr_forced'] = float(rng.uniform(30, 100))
        c['cores'] = int(rng.choice([1, 2]))
        c.update(kind='nf', via='cli' if i % 4 == 3 else 'api', stratum='cube')
        out.append(c)
    # an external psf map that differs from quadrant to quadrant of the image: the local psf (psf_a/psf_b columns) and with it
    # the integrated flux are those of the map AT THE SOURCE
    n_psf = 12 if tier == 'quick' else 120
    for i in range(n_psf):
        c = gen_source_case(rng, big_ok=False)
        c['shape'] = [int(rng.integers(150, 200)), int(rng.integers(150, 200))]
        c['crpix'] = [c['shape'][1] / 2.0 + float(rng.uniform(-30, 30)), c['shape'][0] / 2.0 + float(rng.uniform(-30, 30))]
        c['index'] = [c['shape'][0] / 2.0 + float(rng.choice([-1, 1])) * float(rng.uniform(30, 50)),
                      c['shape'][1] / 2.0 + float(rng.choice([-1, 1])) * float(rng.uniform(30, 50))]
        c['src']['a'] = min(c['src']['a'], 8.0 * c['scale'] * 3600)
        c['src']['b'] = min(c['src']['b'], c['src']['a'])
        quads = []
        for q in range(4):
            qa = c['beam'][0] * float(rng.uniform(0.7, 1.0))
            quads.append([qa, qa * float(rng.uniform(0.6, 1.0)), float(rng.uniform(-90, 90))])
        c['psfmap'] = {'quadrants': quads, 'n': [int(rng.choice([36, 40, 48])), int(rng.choice([30, 40, 44]))]}
        c.update(kind='nf', via='cli' if i % 4 == 3 else 'api', stratum='psfmap')
        out.append(c)
    # the beam given by the caller (API beam=, CLI --beam) while the header carries another one, or none
    n_ub = 10 if tier == 'quick' else 100
    for i in range(n_ub):
        c = gen_source_case(rng, big_ok=False)
        c['user_beam'] = True
        c['header_beam'] = None if i % 3 == 0 else [c['beam'][0] * 0.75, c['beam'][1] * 0.7, c['beam'][2] + 30.0 - (180.0 if c['beam'][2] + 30.0 > 90 else 0.0)]
        c.update(kind='nf', via='cli' if i % 4 == 3 else 'api', stratum='userbeam')
        out.append(c)
    # milli-arcsecond pixels, results read from the table file the command line writes (csv, tab, VOTable)
    n_mas = 9 if tier == 'quick' else 90
    for i in range(n_mas):
        c = gen_source_case(rng, big_ok=False, mas=True)
        c.update(kind='nf', via='cli', stratum='mas', table_ext=['vot', 'csv', 'tab'][i % 3])
        out.append(c)
    # rectangular pixels (|CDELT1| != |CDELT2|) with a beam oblique to the grid; the source itself is aligned with the pixel axes
    # or circular (an oblique ellipse on non-square pixels is the known finding D51 of C14 and outside what a pixel-plane
    # ellipse can represent to first order)
    n_rect = 10 if tier == 'quick' else 100
    for i in range(n_rect):
        c = gen_source_case(rng, big_ok=False)
        # (ratios below one only: the second axis is sampled more finely, so the source stays well sampled; and the source sits
        # ON the reference pixel, where north/east coincide with the pixel axes exactly - away from it, at high declination, the
        # meridian turns by up to a degree across the image and the 'aligned' source becomes an oblique one, i.e. D51; both found
        # by the thorough tier as 4 alarms in 100 cases, all explained by these two effects)
        c['cdelt_ratio'] = float(rng.choice([0.6, 0.7, 0.8]))
        c['flip_dec'] = False
        c['use_cd'] = False
        c['crpix'] = [c['index'][1] + 1.0, c['index'][0] + 1.0]
        c['beam'][1] = c['beam'][0] * float(rng.uniform(0.55, 0.8))
        c['beam'][2] = float(rng.choice([-1, 1]) * rng.uniform(25, 65))
        if i % 2:
            c['src']['a'] = c['src']['b']
        else:
            c['src']['pa'] = float(rng.choice([0.0, 90.0]))
        c.update(kind='nf', via='cli' if i % 5 == 4 else 'api', stratum='rectpix')
        out.append(c)
    n_d25 = 30 if tier == 'quick' else 300
    for i in range(n_d25):
        c = gen_source_case(rng, d25=True)
        c.update(kind='nf', via='api', stratum='d25')
        out.append(c)
    n_noisy = 800 if tier == 'quick' else 8000
    per = 10
    for i in range(n_noisy // per):
        docov = bool(i % 2)
        trials = []
        for _ in range(per):
            t = gen_source_case(rng, noisy=True, big_ok=False)
            t['docov'] = docov
            if rng.random() < 0.35:
                # elongated sources along an image axis: the corner where the fitted sx/sy swap roles
                t['src']['a'] = t['src']['b'] * float(rng.uniform(2.2, 4.0))
                t['src']['pa'] = float(rng.choice([0.0, 90.0, 90.0])) + float(rng.uniform(-15, 15))
                if t['src']['pa'] > 90:
                    t['src']['pa'] -= 180
            if docov:          # keep islands small enough for the covariance matrix
                t['src']['a'] = min(t['src']['a'], 9.0 * t['scale'] * 3600)
                t['src']['b'] = min(t['src']['b'], t['src']['a'])
            trials.append(t)
        out.append({'kind': 'noisy', 'docov': docov, 'trials': trials})
    return out


# ------------------------------------------------------------------------------------------ one run
def build(case):
    """-> header, ZenithalWCS, truth dict (sky), noise-free image"""
    s = case['scale']
    cd = (-s, (-s if case.get('flip_dec') else s) * case.get('cdelt_ratio', 1.0))
    h = wz.make_header(case['proj'], case['crval'], case['crpix'], cd, case['shape'], beam=case['beam'],
                       use_cd=case.get('use_cd', False))
    z = wz.ZenithalWCS(h)
    ra, dec = z.index2sky(case['index'][0], case['index'][1])
    truth = dict(case['src'], ra=float(ra), dec=float(dec))
    off = float(sphere.sep(case['crval'][0], case['crval'][1], truth['ra'], truth['dec']))
    img = render.render(z, tuple(case['shape']), [truth])
    return h, z, truth, img, off


def write_psf_map(case, z, truth, sc):
    """3-plane psf cube (a, b [deg], pa [deg]) on its own coarser north-up grid of the image's projection, centred on the image
    centre, constant within each quadrant -> (path, psf at the source, distance of the source from the nearest quadrant border in
    map pixels); the psf at the source comes from the independent WCS of the map, not from the subject"""
    from astropy.io import fits
    rows, cols = case['shape']
    n1, n2 = case['psfmap']['n']
    rac, decc = [float(v) for v in z.index2sky(rows / 2.0 - 0.5, cols / 2.0 - 0.5)]
    extent = 1.5 * case['scale'] * np.hypot(rows, cols)
    cd = extent / min(n1, n2)
    ph = wz.make_header(case['proj'], (rac, decc), (n1 / 2.0 + 0.5, n2 / 2.0 + 0.5), (-cd, cd), (n2, n1))
    cube = np.zeros((3, n2, n1))
    for q, (qa, qb, qpa) in enumerate(case['psfmap']['quadrants']):
        rsel = slice(n2 // 2, n2) if q // 2 else slice(0, n2 // 2)
        csel = slice(n1 // 2, n1) if q % 2 else slice(0, n1 // 2)
        cube[0, rsel, csel], cube[1, rsel, csel], cube[2, rsel, csel] = qa, qb, qpa
    path = os.path.join(sc, 'psf.fits')
    fits.PrimaryHDU(cube.astype(np.float64), header=ph).writeto(path, overwrite=True)
    zp = wz.ZenithalWCS({k_: ph[k_] for k_ in ('CTYPE1', 'CTYPE2', 'CRVAL1', 'CRVAL2', 'CRPIX1', 'CRPIX2', 'CDELT1', 'CDELT2')})
    im, jm = [float(v) for v in zp.sky2index(truth['ra'], truth['dec'])]          # 0-based (row, column) in the map
    q = 2 * int(im >= n2 // 2 - 0.5) + int(jm >= n1 // 2 - 0.5)
    margin = min(abs(im - (n2 // 2 - 0.5)), abs(jm - (n1 // 2 - 0.5)))
    return path, list(case['psfmap']['quadrants'][q]), float(margin)


def pixbeam_kernel(z, truth, beam):
    """beam (deg, deg, deg E of N) at the source -> (sigma_major_px, sigma_minor_px, angle from +row toward +col)"""
    i0, j0 = z.sky2index(truth['ra'], truth['dec'])
    out = []
    for length, pa in ((beam[0] / 2, beam[2]), (beam[1] / 2, beam[2] + 90)):
        r1, d1 = sphere.destination(truth['ra'], truth['dec'], length, pa)
        i1, j1 = z.sky2index(r1, d1)
        out.append((float(i1 - i0), float(j1 - j0)))
    fwhm_a = 2 * np.hypot(*out[0])
    fwhm_b = 2 * np.hypot(*out[1])
    ang = np.degrees(np.arctan2(out[0][1], out[0][0]))
    return fwhm_a * render.FWHM2SIG, fwhm_b * render.FWHM2SIG, ang


def run_finder(case, img, h, rms, sc, bane=False, cores=1, bkg_internal=False):
    """-> list of dict rows (the catalogue), or raises"""
    from astropy.io import fits
    fn = os.path.join(sc, 'im.fits')
    if case.get('user_beam'):
        h = h.copy() if hasattr(h, 'copy') else dict(h)
        for k_, v_ in zip(('BMAJ', 'BMIN', 'BPA'), case['header_beam'] or (None, None, None)):
            if v_ is None:
                if k_ in h:
                    del h[k_]
            else:
                h[k_] = v_
    cube = case.get('cube')
    if cube:
        planes = []
        for k in range(cube['planes']):
            if k == cube['index']:
                planes.append(img)
            else:
                # another plane: its own zero level and a decoy source (the wanted source mirrored through the image centre)
                planes.append(img[::-1, ::-1] * 1.7 + (cube['pedestals_in_rms'][k] - (case.get('pedestal_in_rms') or 0.0) * 1.7) * rms)
        fits.PrimaryHDU(np.array(planes).astype(np.float32), header=h).writeto(fn, overwrite=True)
    else:
        fits.PrimaryHDU(img.astype(np.float32), header=h).writeto(fn, overwrite=True)
    psf_fn = case.get('psf_file')
    if case.get('via') == 'cli':
        repo = sys_path_repo()
        ext = case.get('table_ext', 'csv')
        tab = os.path.join(sc, 'out.' + ext)
        cmd = [sys.executable, '-c',
               'import sys; sys.path.insert(0, %r); from AegeanTools.CLI import aegean; sys.exit(aegean.main(sys.argv[1:]))' % repo,
               fn, '--table', tab, '--cores', '1', '--negative']
        if case.get('user_beam'):
            cmd += ['--beam'] + [repr(float(v)) for v in case['beam']]
        if not bane:
            cmd += ['--forcerms', repr(float(rms))] + ([] if bkg_internal else ['--forcebkg', '0'])
        if not case['docov']:
            cmd += ['--nocov']
        if cube:
            cmd += ['--slice', str(cube['index'])]
        if psf_fn:
            cmd += ['--psf', psf_fn]
        p = subprocess.run(cmd, stdout=subprocess.PIPE, stderr=subprocess.STDOUT, timeout=600, cwd=sc)
        comp = os.path.join(sc, 'out_comp.' + ext)
        if not os.path.exists(comp):
            if p.returncode != 0:
                raise SubjectError('aegean CLI exit %d: %s' % (p.returncode, p.stdout.decode(errors='replace')[-800:]))
            return []
        from astropy.table import Table
        t = Table.read(comp, format={'csv': 'ascii.csv', 'tab': 'ascii.tab', 'vot': 'votable'}[ext])
        return [{k: (t[k][i].item() if hasattr(t[k][i], 'item') else t[k][i]) for k in t.colnames} for i in range(len(t))]
    from AegeanTools.source_finder import SourceFinder
    import logging
    sf = SourceFinder(log=logging.getLogger('aegmon-null'))
    kw = dict(cores=cores, docov=case['docov'], nonegative=False, nopositive=False)
    if not bane:
        kw.update(rms=float(rms))
        if not bkg_internal:
            kw.update(bkg=0.0)
    if cube:
        kw.update(cube_index=cube['index'])
    if case.get('user_beam'):
        from AegeanTools.wcs_helpers import Beam
        kw.update(beam=Beam(*[float(v) for v in case['beam']]))
    if psf_fn:
        kw.update(imgpsf=psf_fn)
    if case.get('save_first'):
        # a script that first saves the background/noise/snr maps and then searches, with one and the same finder object
        sf.save_background_files(fn, rms=kw.get('rms'), bkg=kw.get('bkg'), cores=1, outbase=os.path.join(sc, 'saved'),
                                 beam=kw.get('beam'), cube_index=kw.get('cube_index'))
    srcs = sf.find_sources_in_image(fn, **kw)
    names = ['island', 'source', 'ra', 'dec', 'peak_flux', 'a', 'b', 'pa', 'int_flux', 'flags', 'err_ra', 'err_dec',
             'err_peak_flux', 'err_a', 'err_b', 'err_pa', 'err_int_flux', 'local_rms', 'ra_str', 'dec_str', 'psf_a', 'psf_b',
             'uuid', 'background', 'residual_mean', 'residual_std', 'psf_pa']
    return [{k: _py(getattr(s, k)) for k in names} for s in srcs]


def _py(v):
    return v.item() if hasattr(v, 'item') else v


class SubjectError(Exception):
    pass


def deltas(row, truth, case):
    """differences observed - injected, in the units of the tolerances / of the reported errors"""
    beam = case.get('local_psf') or case['beam']
    d = {}
    d['pos_deg'] = float(sphere.sep(row['ra'], row['dec'], truth['ra'], truth['dec']))
    d['ra'] = float(sphere.angdiff(row['ra'], truth['ra'])) * np.cos(np.radians(truth['dec']))     # great-circle degrees
    d['dec'] = float(row['dec'] - truth['dec'])
    d['peak'] = float(row['peak_flux'] - truth['peak'])
    d['a'] = float(row['a'] - truth['a'])
    d['b'] = float(row['b'] - truth['b'])
    d['pa'] = float(sphere.angdiff(row['pa'], truth['pa'], 180.0))
    d['int_true'] = truth['peak'] * truth['a'] * truth['b'] / (beam[0] * beam[1] * 3600.0 ** 2)
    d['int'] = float(row['int_flux'] - d['int_true'])
    return d


def d25_predicate(img, truth, rms, innerclip=5.0):
    """the finder's amplitude bound 1.05*|peak pixel| + innerclip*rms excludes the true amplitude"""
    peakpix = float(np.max(np.abs(img.astype(np.float32))))
    return abs(truth['peak']) > 1.05 * peakpix + innerclip * rms, peakpix


def _arm(o):
    """keep the derivative/sigma contracts (C04) and the angle contracts (C17) armed during the real fits"""
    from aegmon.props import c04, c17
    c04.install()
    c17.install()
    c04.set_obs(o)
    c17.set_obs(o)
    c04.EVERY = 5


def _disarm():
    from aegmon.props import c04, c17
    c04.set_obs(None)
    c17.set_obs(None)


def run(case):
    sys_path_repo()
    wz.selfcheck()
    o = Obs()
    sc = scratch_dir()
    try:
        if case['kind'] == 'nf':
            _run_nf(o, case, sc)
            _own_count(o, 1)
            res = o.result()
        else:
            pulls = _run_noisy(o, case, sc)
            _own_count(o, len(case['trials']))
            res = o.result()
            res['pulls'] = pulls
        # in-situ contract evaluations are reported separately from this property's own evaluations
        return res
    finally:
        _disarm()
        shutil.rmtree(sc, ignore_errors=True)


def source_island(image, z, truth, floor):
    """the source's own island in the (noisy) image: the 8-connected group of pixels above `floor` (sign-adjusted
    for negative sources) that contains the injected peak -> (mask, number of pixels in it that are >= all 8
    neighbours)"""
    from scipy.ndimage import label
    img = np.asarray(image, dtype=np.float32).astype(float) * (1.0 if truth['peak'] > 0 else -1.0)
    rows, cols = img.shape
    lab, n = label(img >= floor, structure=np.ones((3, 3)))
    ic, jc = z.sky2index(truth['ra'], truth['dec'])
    ic, jc = int(round(float(ic))), int(round(float(jc)))
    if not (0 <= ic < rows and 0 <= jc < cols) or lab[ic, jc] == 0:
        return np.zeros(img.shape, dtype=bool), 0
    island = lab == lab[ic, jc]
    pad = np.pad(img, 1, mode='constant', constant_values=-np.inf)
    ismax = np.ones(img.shape, dtype=bool)
    for di in (-1, 0, 1):
        for dj in (-1, 0, 1):
            if di or dj:
                ismax &= img >= pad[1 + di:1 + di + rows, 1 + dj:1 + dj + cols]
    return island, int(np.sum(ismax & island))


def _in_island(rows, island, z):
    """components whose fitted position lies on the source's island (grown by one pixel)"""
    from scipy.ndimage import binary_dilation
    grown = binary_dilation(island, structure=np.ones((3, 3)))
    out = []
    for r in rows:
        if not (np.isfinite(r['ra']) and np.isfinite(r['dec'])):
            continue
        i, j = z.sky2index(r['ra'], r['dec'])
        i, j = int(round(float(i))), int(round(float(j)))
        if 0 <= i < grown.shape[0] and 0 <= j < grown.shape[1] and grown[i, j]:
            out.append(r)
    return out


def _own_count(o, own):
    """evaluations = finder runs of this property; the evaluations of the armed C04/C17 contracts are reported apart"""
    o.count('insitu_contract_evaluations', max(0, o.n_eval - own))
    o.n_eval = own


def _invariants(o, rows, what):
    """the row-level catalogue invariants of C03 stay armed on every catalogue this workload produces"""
    from aegmon.refs import catalog_inv
    full = [r for r in rows if 'uuid' in r and 'flags' in r and 'psf_a' in r]
    if full:
        catalog_inv.check_components(full, lambda c, w: o.violate('catalogue_invariant_' + c, dict(w, where=what)),
                                     lambda n, k=1: o.count('catalogue_invariant_' + n, k))


def _near(rows, truth, case):
    """components within two beam major axes of the injected position"""
    lim = 2 * max(case['beam'][0], truth['a'] / 3600.0)
    return [r for r in rows if np.isfinite(r['ra']) and np.isfinite(r['dec']) and
            sphere.sep(r['ra'], r['dec'], truth['ra'], truth['dec']) <= lim]


def _run_nf(o, case, sc):
    h, z, truth, img, off = build(case)
    snr = case.get('snr_forced', 50.0)
    rms = abs(truth['peak']) / snr
    o.n_eval += 1
    o.worst('offset_from_crval_deg', off)
    if off > 3.0:
        o.count('out_of_domain_far_from_crval')
        return
    excluded, peakpix = d25_predicate(img, truth, rms)
    wit = {'case': {k: case[k] for k in ('proj', 'crval', 'crpix', 'scale', 'shape', 'beam', 'index', 'docov', 'via', 'flip_dec', 'use_cd') if k in case},
           'truth': truth, 'forced_rms': rms, 'peak_pixel': peakpix, 'amp_bound_excludes_truth': bool(excluded)}
    armed = case.get('via') != 'cli'
    if case.get('save_first') and case.get('via') != 'cli':
        o.count('nf_maps_saved_by_the_same_finder_first')
    if case.get('user_beam'):
        wit['header_beam'] = case['header_beam']
        o.count('nf_user_beam_cases')
    if case.get('stratum') == 'rectpix':
        o.count('nf_rectangular_pixel_cases')
        wit['cdelt_ratio'] = case['cdelt_ratio']
    if case.get('stratum') == 'mas':
        o.count('nf_mas_pixel_cases')
        o.see('table_format_read', case.get('table_ext'))
    if case.get('cube'):
        wit['cube'] = case['cube']
        o.count('nf_cube_cases')
        if case['cube']['index'] > 0:
            o.count('nf_cube_cases_plane_above_0')
    psf_known = True
    if case.get('psfmap'):
        case = dict(case)
        case['psf_file'], local, margin = write_psf_map(case, z, truth, sc)
        wit['psf_map'] = dict(case['psfmap'], local_psf=local, map_pixels_from_quadrant_border=margin)
        o.count('nf_psfmap_cases')
        if margin < 2.0:
            psf_known = False               # which map pixel serves a position next to a border is not part of the statement
            o.count('nf_psfmap_source_near_quadrant_border_not_judged')
        else:
            case['local_psf'] = local
    if armed:
        _arm(o)
    ped = case.get('pedestal_in_rms')
    if ped is not None:
        img = img + ped * rms
        o.count('nf_pedestal_cases')
    try:
        rows = run_finder(case, img, h, rms, sc, bkg_internal=ped is not None, cores=case.get('cores', 1))
    except SubjectError as e:
        o.violate('raises', dict(wit, error=str(e)))
        return
    except Exception as e:
        import traceback
        tb = traceback.format_exc()
        if '/AegeanTools/' in tb and '/aegmon/' not in tb.split('/AegeanTools/')[-1]:
            o.violate('raises', dict(wit, error=tb[-1500:]))
            return
        raise
    finally:
        _disarm()
    o.n_nontrivial += 1
    if case.get('via') != 'cli':
        _invariants(o, rows, 'noise-free closed loop')
    o.see('projection', case['proj'])
    o.see('via', case.get('via'))
    o.see('docov', case['docov'])
    mech = KEY_D25 if excluded else None
    if excluded:
        o.count('d25_predicate_true')
    if len(rows) != 1:
        if mech is None and len(rows) > 1:
            # the finder seeds one component per 3x3 local maximum inside an island; the SAMPLING of a thin ridge that crosses the
            # pixel grid at a shallow angle can itself have two such maxima (no noise needed) - decided from the image alone
            try:
                _, nmax = source_island(np.asarray(img, dtype=np.float32).astype(float), z, truth, 4.0 * rms)
            except Exception:
                nmax = 0
            if nmax >= 2:
                mech = KEY_SAMPLING
                wit = dict(wit, local_maxima_of_the_sampled_source=int(nmax))
                o.count('sampling_split_predicate_true')
        o.violate('not_exactly_one_component', dict(wit, n=len(rows), rows=rows[:3]), mech)
        return
    r = rows[0]
    d = deltas(r, truth, case)
    e = {'pos_px': d['pos_deg'] / case['scale'], 'peak': abs(d['peak'] / truth['peak']), 'a': abs(d['a'] / truth['a']),
         'b': abs(d['b'] / truth['b']), 'int': abs(d['int'] / d['int_true'])}
    round_src = (truth['a'] - truth['b']) / truth['a'] < 0.05
    if not round_src:
        e['pa_deg'] = abs(d['pa'])
    else:
        o.count('pa_not_judged_round_source')
    o.count('nf_judged')
    bad = {}
    if case.get('psfmap'):
        if not psf_known:
            e.pop('int')
        else:
            lp = case['local_psf']
            o.count('nf_psfmap_judged')
            e_psf = max(abs(r['psf_a'] / (lp[0] * 3600) - 1), abs(r['psf_b'] / (lp[1] * 3600) - 1))
            o.worst('nf_psf_columns_vs_map_rel', e_psf)
            if not e_psf <= 1e-3:
                o.violate('psf_columns_are_not_the_map_at_the_source', dict(wit, psf_a=r['psf_a'], psf_b=r['psf_b'],
                                                                            expected_arcsec=[lp[0] * 3600, lp[1] * 3600]))
    for k, v in e.items():
        if not excluded:
            o.worst('nf_%s_over_tol' % k, v / TOL[k])
        if not v <= TOL[k]:
            bad[k] = v
    if bad:
        o.violate('noise_free_recovery', dict(wit, errors=e, out_of_tolerance=bad, row=r), mech)
    o.sample = {'truth': truth, 'found': {k: r[k] for k in ('ra', 'dec', 'peak_flux', 'a', 'b', 'pa', 'int_flux', 'flags')},
                'errors_over_tol': {k: v / TOL[k] for k, v in e.items()}}


def _run_noisy(o, case, sc):
    pulls = []
    for ti, t in enumerate(case['trials']):
        t = dict(t, via='api')
        h, z, truth, img, off = build(t)
        o.n_eval += 1
        if off > 3.0:
            o.count('out_of_domain_far_from_crval')
            continue
        s = abs(truth['peak']) / t['snr']
        rng = np.random.default_rng(t['noise_seed'])
        if t['docov']:
            sa, sb, ang = pixbeam_kernel(z, truth, t['beam'])
            noise = render.correlated_noise(rng, tuple(t['shape']), s, (sa / 2.0, sb / 2.0), ang)
        else:
            noise = render.correlated_noise(rng, tuple(t['shape']), s)
        _arm(o)
        try:
            rows = run_finder(t, img + noise, h, s, sc, bane=t.get('bane', False), cores=t.get('cores', 1))
        except Exception:
            import traceback
            tb = traceback.format_exc()
            if '/AegeanTools/' in tb and '/aegmon/' not in tb.split('/AegeanTools/')[-1]:
                o.violate('raises', {'trial': t, 'error': tb[-1500:]})
                continue
            raise
        finally:
            _disarm()
        o.count('noisy_trials')
        o.n_nontrivial += 1
        _invariants(o, rows, 'noisy closed loop')
        o.see('noisy_mode', 'docov' if t['docov'] else 'nocov')
        if t.get('bane'):
            o.count('noisy_trials_internal_bane')
        island, nmax = source_island(img + noise, z, truth, 4.0 * s)
        # components "for the source": every component of the catalogue island whose member lies on the source's
        # island of the image (fitted positions of junk components can wander off it, the island label does not)
        on = _in_island(rows, island, z)
        ids = set(r['island'] for r in on)
        near = [r for r in rows if r['island'] in ids]
        o.see('components_on_source_island', len(near))
        if len(rows) > len(near):
            o.count('components_on_other_islands_noise_peaks', len(rows) - len(near))
        rec = {'docov': t['docov'], 'snr': t['snr'], 'n_near': len(near), 'n_all': len(rows), 'bane': t.get('bane', False),
               'local_maxima_in_footprint': nmax, 'ratio': truth['a'] / truth['b'], 'pa': truth['pa']}
        if len(near) != 1 and nmax >= 2:
            # the finder seeds one component per 3x3 local maximum inside an island: noise that creates a second local
            # maximum inside the source's own island adds a component (mechanism decided from the image, not the output)
            o.violate('noisy_not_exactly_one_component',
                      {'trial': {k: t[k] for k in ('proj', 'crval', 'crpix', 'scale', 'shape', 'beam', 'index', 'docov', 'snr', 'noise_seed', 'src')},
                       'components_near_source': len(near), 'local_maxima_inside_the_sources_island': nmax}, KEY_SPLIT)
            rec['explained_split'] = True
        if len(near) == 1:
            r = near[0]
            d = deltas(r, truth, t)
            errs = {'ra': r['err_ra'], 'dec': r['err_dec'], 'peak': r['err_peak_flux'], 'a': r['err_a'], 'b': r['err_b'],
                    'pa': r['err_pa'], 'int': r['err_int_flux']}
            rec['flags'] = r['flags']
            rec['pull'] = {}
            for k in PARS:
                if k == 'pa' and (truth['a'] - truth['b']) / truth['a'] < 0.05:
                    continue
                if errs[k] is None or not np.isfinite(errs[k]) or errs[k] <= 0:
                    rec['pull'][k] = None           # no usable error reported (-1 marker): counted in fold
                else:
                    rec['pull'][k] = d[k] / errs[k]
            if ti == 0:
                o.sample = {'truth': truth, 'snr': t['snr'], 'docov': t['docov'], 'pulls': rec['pull']}
        pulls.append(rec)
    return pulls


# ------------------------------------------------------------------------------------------ aggregate decision
def _k0(n, p0=5e-3, alpha=1e-9):
    from scipy.stats import binom
    k = 0
    while binom.sf(k - 1, n, p0) >= alpha:
        k += 1
    return k


def _strata(rec):
    out = []
    r = rec.get('ratio', 1.0)
    pa = abs(rec.get('pa', 0.0))
    along = 'ns' if pa < 30 else ('ew' if pa > 60 else 'diag')
    if r >= 1.8:
        out.append('elongated_%s' % along)
    else:
        out.append('round')
    out.append('snr_hi' if rec.get('snr', 0) >= 120 else 'snr_lo')
    if rec.get('bane'):
        out.append('internal_bane')
    return out


def fold(cases_, results, tier):
    by = {}
    by_stratum = {}
    n_trials = {True: 0, False: 0}
    not_one = {True: 0, False: 0}
    for c, r in zip(cases_, results):
        if not r or c.get('kind') != 'noisy':
            continue
        for rec in r.get('pulls') or []:
            m = bool(rec['docov'])
            n_trials[m] += 1
            if rec['n_near'] != 1:
                if not rec.get('explained_split'):
                    not_one[m] += 1
                continue
            for k, v in (rec.get('pull') or {}).items():
                by.setdefault((m, k), []).append(v)
                # strata: a defect confined to a corner (elongated sources along one image axis, high SNR, ...) must not
                # be diluted by the rest of the sample
                for tag in _strata(rec):
                    by_stratum.setdefault((m, k, tag), []).append(v)
    extra = {'noise_clause': {}}
    viol = []
    inconc = []
    for (m, k), vals in sorted(by.items()):
        n = len(vals)
        missing = sum(1 for v in vals if v is None)
        x = np.array([v for v in vals if v is not None], dtype=float)
        mode = 'docov' if m else 'nocov'
        if len(x) < 100:
            inconc.append('noise clause %s/%s: only %d usable trials' % (mode, k, len(x)))
            continue
        k0 = _k0(len(x))
        exceed = int(np.sum(np.abs(x) > 5))
        mad = float(1.4826 * np.median(np.abs(x - np.median(x))))
        extra['noise_clause']['%s/%s' % (mode, k)] = {'trials': n, 'no_error_reported': missing, 'beyond_5_sigma': exceed,
                                                      'k0': k0, 'robust_pull_scale': round(mad, 3),
                                                      'pull_std': round(float(np.std(x)), 3), 'pull_mean': round(float(np.mean(x)), 3)}
        if exceed >= k0 or mad > 2.2:
            viol.append({'clause': 'noise_clause_' + k, 'mechanism': None,
                         'witness': {'mode': mode, 'parameter': k, 'trials': len(x), 'beyond_5_reported_sigma': exceed,
                                     'k0': k0, 'robust_pull_scale': mad, 'worst_pulls': [float(v) for v in sorted(x, key=abs)[-5:]]}})
        if missing > 0.2 * n:
            viol.append({'clause': 'noise_clause_error_missing_' + k, 'mechanism': None,
                         'witness': {'mode': mode, 'parameter': k, 'trials': n, 'without_reported_error': missing}})
    extra['noise_clause_strata'] = {}
    for (m, k, tag), vals in sorted(by_stratum.items()):
        x = np.array([v for v in vals if v is not None], dtype=float)
        if len(x) < 40:
            continue
        mode = 'docov' if m else 'nocov'
        k0 = _k0(len(x))
        exceed = int(np.sum(np.abs(x) > 5))
        mad = float(1.4826 * np.median(np.abs(x - np.median(x))))
        extra['noise_clause_strata']['%s/%s/%s' % (mode, k, tag)] = {'trials': len(x), 'beyond_5_sigma': exceed, 'k0': k0,
                                                                     'robust_pull_scale': round(mad, 3)}
        if exceed >= k0 or mad > 2.2:
            viol.append({'clause': 'noise_clause_%s_in_stratum' % k, 'mechanism': None,
                         'witness': {'mode': mode, 'parameter': k, 'stratum': tag, 'trials': len(x),
                                     'beyond_5_reported_sigma': exceed, 'k0': k0, 'robust_pull_scale': mad}})
    for m in (True, False):
        mode = 'docov' if m else 'nocov'
        extra['noise_clause'][mode + '/components'] = {'trials': n_trials[m], 'not_exactly_one_near_source': not_one[m]}
        if n_trials[m] >= 100 and not_one[m] >= max(_k0(n_trials[m]), 1):
            viol.append({'clause': 'noisy_not_exactly_one_component', 'mechanism': None,
                         'witness': {'mode': mode, 'trials': n_trials[m], 'not_exactly_one': not_one[m]}})
    return {'extra_coverage': extra, 'violations': viol, 'inconclusive': inconc}
