"""C05 - priorized fitting measures the catalogued sources where and as catalogued.

The catalogue is the truth and the image is its independent rendering (aegmon.refs.render); the real
SourceFinder.priorized_fit_islands must hand every accepted source back with its uuid and the PRIORIZED flag, leave the
parameters the stage does not free untouched (with their input errors), recover the catalogued values, and be
indifferent to off-image / on-NaN sources, missing psf columns and row order.
"""
import copy
import os
import shutil
import subprocess
import sys
import uuid as uuidlib

import numpy as np

from aegmon.common import Obs, rng_for, scratch_dir
from aegmon.refs import render, sphere
from aegmon.refs import wcs_zenithal as wz

ID = 'C05'
LEVEL = 'exploration'
RULE = ('a case is one catalogue (1-60 sources in quick, to 300 in thorough; sizes swept so that the cut-out width '
        'int(round(4 sx))+1 takes both parities; blends inside one group; more than 20 groups) with its noise-free '
        'rendering, fitted at stage 1-3 with regroup on/off, ratio None/1, docov on/off, given as objects or as csv/vot/fits '
        'file, with or without psf columns, in shuffled row order; interference cases add off-image and on-NaN sources '
        'near to and far from the good ones. An evaluation is one priorized_fit_islands call (or CLI run); non-trivial = '
        'at least one accepted source; distinct = distinct case dicts')
ASSUMPTIONS = ['sources within 0.5 deg of CRVAL so that the pixel-space model and the sky-plane rendering agree to < 1e-4 of the peak',
               'forced rms = 1e-3 min|peak|, bkg = 0', 'catalogue psf columns equal the image beam (otherwise the finder '
               'legitimately rescales the sizes)', 'for file input the truth is the catalogue as read back from the file']
MIN_REACH = {'source_finder:SourceFinder.priorized_fit_islands': 1, 'source_finder:SourceFinder._refit_islands': 1}
MIN_COUNTERS = {'runs_with_sources_narrower_than_the_psf': 2, 'runs_ratio1_with_catalogue_psf_differing_from_beam': 2, 'runs_with_repeated_labels_inside_an_island': 1,
                'outputs_judged': 100, 'cutout_width_odd': 10, 'cutout_width_even': 10, 'interference_pairs': 3,
                'runs_over_20_groups': 2, 'file_inputs': 3, 'runs_polar_field_regroup_on': 4, 'sources_with_pa_outside_minus90_90': 10, 'runs_with_a_blend_between_4_median_a_and_4_mean_a': 3, 'runs_from_a_table_with_nan_psf_columns': 3, 'sources_with_a_blank_pixel_next_to_the_centre': 10, 'polar_blend_members': 20}
BATCHES_PER_JOB = 4
PRIORIZED = 64
FWHM2CC = 1.0 / (2.0 * np.sqrt(2.0 * np.log(2.0)))


def sys_path_repo():
    repo = os.environ.get('AEGMON_REPO', '/repo')
    if sys.path[0] != repo:
        sys.path.insert(0, repo)
    return repo


# ------------------------------------------------------------------------------------------ generator
def gen_case(rng, n, tier, kind='model', blend_p=0.2, polar=False):
    proj = str(rng.choice(wz.PROJECTIONS))
    scale = float(rng.uniform(2.0, 8.0) / 3600.0)
    side = int(min(330, max(70, np.sqrt(n) * 42 + 40)))
    rows, cols = side, int(side * rng.uniform(0.8, 1.2))
    dec0 = float(rng.uniform(-70, 70))
    if polar:
        dec0 = float(rng.choice([-1, 1]) * rng.uniform(72, 86))
    ra0 = float(rng.choice([0.0, 359.995])) if rng.random() < 0.2 else float(rng.uniform(0, 360))
    crpix = (cols / 2.0 + float(rng.uniform(-10, 10)), rows / 2.0 + float(rng.uniform(-10, 10)))
    beam_px = float(rng.uniform(3.2, 4.5))
    bmaj = beam_px * scale
    bmin = bmaj * float(rng.uniform(0.75, 1.0))
    bpa = float(rng.uniform(-90, 90))
    srcs = []
    placed = []
    tries = 0
    while len(srcs) < n and tries < 4000:
        tries += 1
        apx = float(rng.uniform(3.5, 12.0))
        a = max(apx * scale * 3600, bmaj * 3600)
        b = max(a / float(rng.uniform(1.0, 2.5)), bmin * 3600)
        margin = 2.2 * a / 3600 / scale * FWHM2CC * 2 + 3
        i, j = float(rng.uniform(margin, rows - 1 - margin)), float(rng.uniform(margin, cols - 1 - margin))
        reach = 2.6 * a / 3600 / scale
        blend = bool(rng.random() < blend_p and len(placed) > 0)
        if blend:
            k = int(rng.integers(0, len(placed)))
            if sum(1 for q in srcs if q['island'] == srcs[k]['island']) >= 5:
                continue            # blends of 2-5 components; longer chains make one fit with hundreds of parameters
            d = float(rng.uniform(0.9, 1.8)) * beam_px
            t = float(rng.uniform(0, 2 * np.pi))
            i, j = placed[k][0] + d * np.cos(t), placed[k][1] + d * np.sin(t)
            if not (margin < i < rows - 1 - margin and margin < j < cols - 1 - margin):
                continue
            if any(np.hypot(i - p[0], j - p[1]) < 0.8 * beam_px for p in placed):
                continue
            # ... and as isolated from the members of every OTHER island as any new source has to be
            if any(np.hypot(i - p[0], j - p[1]) < reach + p[2] for p, q in zip(placed, srcs) if q['island'] != srcs[k]['island']):
                continue
        elif any(np.hypot(i - p[0], j - p[1]) < reach + p[2] for p in placed):
            continue
        if rng.random() < 0.3:
            i, j = round(i), round(j)
        elif rng.random() < 0.3:
            i, j = np.floor(i) + 0.5, np.floor(j) + 0.5
        if blend:
            isl = srcs[k]['island']
        else:
            isl = len(srcs)
        placed.append((i, j, reach))
        peak = float(rng.choice([-1, 1], p=[0.2, 0.8]) * 10 ** rng.uniform(-2, 2))
        if blend:
            # members of one blend stay within a factor 2.5 in brightness: the sky-plane rendering and the finder's
            # pixel-plane model agree to ~1e-5 of a component's peak, which must stay << 1e-3 of its neighbours'
            peak = float(srcs[k]['peak'] * rng.uniform(0.4, 1.0) * rng.choice([-1, 1], p=[0.15, 0.85]))
        srcs.append({'island': isl, 'index': [float(i), float(j)], 'peak': peak,
                     'a': a, 'b': b, 'pa': float(rng.uniform(-89.9, 90)),
                     'errs': [float(x) for x in 10 ** rng.uniform(-6, -2, 7)]})
    # sources whose cut-out overhangs an image edge or corner (centre 0.3-2 FWHM inside the image)
    for e in range(int(rng.integers(0, 4)) if n >= 3 else 0):
        apx = float(rng.uniform(3.5, 9.0))
        a = max(apx * scale * 3600, bmaj * 3600)
        b = max(a / float(rng.uniform(1.0, 2.0)), bmin * 3600)
        reach = 2.6 * a / 3600 / scale
        d1, d2 = float(rng.uniform(0.3, 2.0)) * apx, float(rng.uniform(0.3, 2.0)) * apx
        side = int(rng.integers(0, 8))
        i = [d1, rows - 1 - d1, float(rng.uniform(reach, rows - reach)), float(rng.uniform(reach, rows - reach)),
             d1, d1, rows - 1 - d1, rows - 1 - d1][side]
        j = [float(rng.uniform(reach, cols - reach)), float(rng.uniform(reach, cols - reach)), d2, cols - 1 - d2,
             d2, cols - 1 - d2, d2, cols - 1 - d2][side]
        if any(np.hypot(i - p[0], j - p[1]) < reach + p[2] for p in placed):
            continue
        placed.append((i, j, reach))
        srcs.append({'island': max([q['island'] for q in srcs] + [-1]) + 1, 'index': [float(i), float(j)],
                     'peak': float(rng.choice([-1, 1], p=[0.2, 0.8]) * 10 ** rng.uniform(-2, 2)), 'a': a, 'b': b,
                     'pa': float(rng.uniform(-89.9, 90)), 'errs': [float(x) for x in 10 ** rng.uniform(-6, -2, 7)],
                     'edge': side})
    case = {'kind': kind, 'proj': proj, 'crval': [ra0, dec0], 'crpix': list(crpix), 'scale': scale, 'shape': [rows, cols],
            'beam': [bmaj, bmin, bpa], 'sources': srcs, 'stage': int(rng.integers(1, 4)), 'regroup': bool(rng.random() < 0.5),
            'ratio': None if rng.random() < 0.7 else 1, 'docov': bool(rng.random() < 0.4),
            'form': str(rng.choice(['objects', 'objects', 'csv', 'vot', 'fits'])), 'psf_columns': bool(rng.random() < 0.7),
            'shuffle_seed': int(rng.integers(0, 2 ** 31)), 'via': 'api'}
    return case


def gen_mixed_case(rng, tier):
    """many compact isolated sources plus one wide blend of two large sources whose separation lies between 4 x median(a) and
    4 x mean(a) of the catalogue (the default linking length is 4 x the MEAN major axis): the blend must be fitted jointly"""
    c = gen_case(rng, 1, tier)
    scale = c['scale']
    beam_px = c['beam'][0] / scale
    a_c = c['beam'][0] * 3600 * 1.05
    n = int(rng.integers(10, 15))
    step = 6.0 * beam_px
    side = int(step * 5 + 14 * beam_px)
    c['shape'] = [side, side]
    c['crpix'] = [side / 2.0 + 3.0, side / 2.0 - 2.0]
    srcs = []
    cells = [(i, j) for i in range(5) for j in range(5) if not (1 <= i <= 3 and 1 <= j <= 3)]
    for k, idx in enumerate(rng.permutation(len(cells))[:n]):
        i, j = cells[idx]
        srcs.append({'island': k, 'index': [7 * beam_px + i * step + float(rng.uniform(-1, 1)), 7 * beam_px + j * step + float(rng.uniform(-1, 1))],
                     'peak': float(10 ** rng.uniform(0, 1)), 'a': a_c, 'b': max(a_c * float(rng.uniform(0.8, 1.0)), c['beam'][1] * 3600),
                     'pa': float(rng.uniform(-89, 90)), 'errs': [float(x) for x in 10 ** rng.uniform(-6, -2, 7)]})
    # the wide blend in the (empty) middle of the field
    a_big = 4.0 * a_c
    sep_px = float(rng.uniform(4.3, 5.0)) * a_c / 3600 / scale
    t = float(rng.uniform(0, 2 * np.pi))
    mid = 7 * beam_px + 2 * step
    pk = float(10 ** rng.uniform(0, 1))
    for sgn in (-1, 1):
        srcs.append({'island': n, 'index': [mid + sgn * 0.5 * sep_px * np.cos(t), mid + sgn * 0.5 * sep_px * np.sin(t)],
                     'peak': pk * float(rng.uniform(0.6, 1.0)), 'a': a_big, 'b': a_big * float(rng.uniform(0.8, 1.0)),
                     'pa': float(rng.uniform(-89, 90)), 'errs': [float(x) for x in 10 ** rng.uniform(-6, -2, 7)]})
    c['sources'] = srcs
    c.update(regroup=True, ratio=None, psf_columns=True, form='objects', mixed_sizes=True)
    return c


def cases(seed, tier):
    rng = rng_for(seed, 'c05')
    out = []
    for i in range(6 if tier == 'quick' else 60):
        c = gen_mixed_case(rng, tier)
        c['stage'] = 1 + i % 3
        out.append(c)
    sizes = [1, 2, 3, 5, 8, 12, 20, 25, 30, 40, 60] if tier == 'quick' else [1, 2, 3, 5, 8, 12, 20, 25, 30, 40, 60, 100, 150, 300]
    reps = 4 if tier == 'quick' else 30
    for r in range(reps):
        for n in sizes:
            if tier == 'quick' and n > 30 and r > 0:
                continue
            c = gen_case(rng, n, tier)
            c['stage'] = 1 + (r + n) % 3
            out.append(c)
    # ratio=1 means "take the catalogued shapes as they are": also when the catalogue's psf columns differ from the image beam
    n_r1 = 6 if tier == 'quick' else 60
    for i in range(n_r1):
        c = gen_case(rng, int(rng.integers(2, 14)), tier)
        c['ratio'] = 1
        c['psf_columns'] = True
        c['psf_scale'] = float(rng.choice([0.7, 0.85, 1.1, 1.4]))
        c['form'] = str(rng.choice(['objects', 'csv']))
        c['stage'] = 1 + i % 3
        out.append(c)
    # sources narrower than the image psf (a catalogue from a sharper image, used as it is): round-ish, 0.5-0.8 of the psf
    n_sm = 6 if tier == 'quick' else 60
    for i in range(n_sm):
        c = gen_case(rng, int(rng.integers(2, 10)), tier)
        c['ratio'] = 1 if i % 2 else None
        c['psf_columns'] = True
        c['form'] = 'objects'
        c['stage'] = 1 + i % 3
        bmin_as = c['beam'][1] * 3600
        for q in c['sources']:
            if rng.random() < 0.6:
                q['b'] = bmin_as * float(rng.uniform(0.68, 0.8))     # (below ~2 pixels FWHM the cut-out holds fewer pixels than parameters)
                q['a'] = q['b'] * float(rng.uniform(1.0, 1.2))
        c['small_sources'] = True
        out.append(c)
    # hand-made catalogues: the island number is a blend id and `source` is left at 0 (labels repeat inside an island),
    # fitted with the catalogue's own grouping (regroup off)
    n_dl = 6 if tier == 'quick' else 60
    for i in range(n_dl):
        c = gen_case(rng, int(rng.integers(4, 16)), tier)
        c['dup_labels'] = True
        c['regroup'] = False
        c['form'] = 'objects'
        c['stage'] = 1 + i % 3
        out.append(c)
    # position angles quoted in the 0..180 / 0..360 / -180..180 conventions (catalogues that do not come from Aegean): the same
    # ellipses as pa - 180 k
    n_pa = 6 if tier == 'quick' else 60
    for i in range(n_pa):
        c = gen_case(rng, int(rng.integers(3, 14)), tier)
        for q in c['sources']:
            q['pa'] = q['pa'] + float(rng.choice([0.0, 180.0, 180.0, -180.0, 360.0]))
        c['form'] = 'objects' if i % 2 else 'csv'
        c['psf_columns'] = True
        c['stage'] = 1 + i % 3
        c['pa_conventions'] = True
        out.append(c)
    # flagged pixels next to source centres
    n_pin = 8 if tier == 'quick' else 80
    for i in range(n_pin):
        c = gen_case(rng, int(rng.integers(3, 16)), tier)
        c['pinholes'] = True
        c['form'] = 'objects' if i % 2 else 'csv'
        c['psf_columns'] = True
        c['stage'] = 1 + i % 3
        out.append(c)
    # fields at |dec| 72-86 with many blends and regrouping ON: there an east-west separation in degrees of RA is several times
    # the angle on the sky, so any flat-sky shortcut in the grouping splits (or merges) blends
    n_pol = 8 if tier == 'quick' else 80
    for i in range(n_pol):
        c = gen_case(rng, int(rng.integers(6, 20)), tier, blend_p=0.5, polar=True)
        c['regroup'] = True
        c['ratio'] = None
        c['form'] = 'objects' if i % 2 else 'csv'
        c['psf_columns'] = True
        c['stage'] = 1 + i % 3
        c['polar'] = True
        out.append(c)
    n_int = 10 if tier == 'quick' else 100
    for i in range(n_int):
        c = gen_case(rng, int(rng.integers(4, 16)), tier, kind='interference')
        c['form'] = 'objects'
        c['psf_columns'] = True
        c['bad'] = []
        rows, cols = c['shape']
        for _ in range(int(rng.integers(2, 7))):
            what = str(rng.choice(['off_image', 'on_nan', 'far_off_image']))
            near = bool(rng.random() < 0.5)
            c['bad'].append({'what': what, 'near': near, 'seed': int(rng.integers(0, 2 ** 31))})
        c['bad_first'] = bool(i % 2)            # the bad sources lead the catalogue (row order must not matter)
        c['psf_unknown'] = bool((i // 2) % 2)   # catalogue without psf information (psf_* = NaN, as loaded from such a table)
        c['ratio'] = None if c['psf_unknown'] else c['ratio']
        out.append(c)
    n_cli = 3 if tier == 'quick' else 30
    for i in range(n_cli):
        c = gen_case(rng, int(rng.integers(3, 26)), tier)
        c['form'] = 'csv'
        c['via'] = 'cli'
        c['psf_columns'] = True
        out.append(c)
    n_nopsf = 4 if tier == 'quick' else 30
    for i in range(n_nopsf):
        c = gen_case(rng, int(rng.integers(2, 15)), tier, kind='nopsf')
        c['form'] = str(rng.choice(['csv', 'vot']))
        out.append(c)
    # psf columns present but empty (NaN), in every table format
    for i in range(6 if tier == 'quick' else 45):
        c = gen_case(rng, int(rng.integers(2, 15)), tier, kind='nopsf')
        c['form'] = ['vot', 'fits', 'csv'][i % 3]
        c['nan_psf'] = True
        c['ratio'] = None
        out.append(c)
    return out


# ------------------------------------------------------------------------------------------ catalogue handling
def make_objects(case, z):
    from AegeanTools.models import ComponentSource
    beam = case['beam']
    out = []
    for k, s in enumerate(case['sources']):
        ra, dec = z.index2sky(s['index'][0], s['index'][1])
        o = ComponentSource()
        o.island = s.get('island', k)
        o.source = sum(1 for q in case['sources'][:k] if q.get('island', -1) == o.island)
        o.ra, o.dec = float(ra), float(dec)
        o.peak_flux = s['peak']
        o.a, o.b, o.pa = s['a'], s['b'], s['pa']
        o.int_flux = s['peak'] * s['a'] * s['b'] / (beam[0] * beam[1] * 3600 ** 2)
        (o.err_ra, o.err_dec, o.err_peak_flux, o.err_a, o.err_b, o.err_pa, o.err_int_flux) = s['errs']
        ps = case.get('psf_scale', 1.0)
        o.psf_a, o.psf_b, o.psf_pa = beam[0] * 3600 * ps, beam[1] * 3600 * ps, beam[2]
        if case.get('dup_labels'):
            o.source = 0
        o.local_rms, o.background = 1e-3, 0.0
        o.residual_mean = o.residual_std = 0.0
        o.flags = 0
        o.uuid = str(uuidlib.UUID(int=(k + 1) * 104729 + 17))
        o.ra_str, o.dec_str = 'x', 'x'
        o._edge = s.get('edge')
        out.append(o)
    return out


def truth_of(objs):
    return {o.uuid: {'ra': float(o.ra), 'dec': float(o.dec), 'peak': float(o.peak_flux), 'a': float(o.a), 'b': float(o.b),
                     'pa': float(o.pa), 'err_ra': o.err_ra, 'err_dec': o.err_dec, 'err_a': o.err_a, 'err_b': o.err_b,
                     'err_pa': o.err_pa, 'int': float(o.int_flux), 'edge': getattr(o, '_edge', None)} for o in objs}


def write_catalogue(objs, form, psf_columns, sc):
    """-> filename written by Aegean's own writer (optionally with the psf columns removed)"""
    from AegeanTools import catalogs
    from astropy.table import Table
    ext = {'csv': 'csv', 'vot': 'vot', 'fits': 'fits'}[form]
    base = os.path.join(sc, 'incat.' + ext)
    catalogs.save_catalog(base, objs)
    fn = os.path.join(sc, 'incat_comp.' + ext)
    if not psf_columns:
        fmt = {'csv': 'ascii.csv', 'vot': 'votable', 'fits': 'fits'}[form]
        t = Table.read(fn, format=fmt)
        t.remove_columns([c for c in ('psf_a', 'psf_b', 'psf_pa') if c in t.colnames])
        t.write(fn, format=fmt, overwrite=True)
    elif psf_columns == 'nan':
        # the columns are there but hold no value (NaN): a catalogue whose maker did not know the psf
        fmt = {'csv': 'ascii.csv', 'vot': 'votable', 'fits': 'fits'}[form]
        t = Table.read(fn, format=fmt)
        for c in ('psf_a', 'psf_b', 'psf_pa'):
            t[c] = np.full(len(t), np.nan)
        t.write(fn, format=fmt, overwrite=True)
    return fn


def read_back(fn):
    from AegeanTools import catalogs
    return catalogs.table_to_source_list(catalogs.load_table(fn))


def run_priorized(case, fn_img, catalogue, rms, sc):
    if case.get('via') == 'cli':
        repo = sys_path_repo()
        tab = os.path.join(sc, 'out.csv')
        cmd = [sys.executable, '-c',
               'import sys; sys.path.insert(0, %r); from AegeanTools.CLI import aegean; sys.exit(aegean.main(sys.argv[1:]))' % repo,
               fn_img, '--priorized', str(case['stage']), '--input', catalogue, '--table', tab, '--cores', '1',
               '--forcerms', repr(float(rms)), '--forcebkg', '0']
        if not case['regroup']:
            cmd.append('--noregroup')
        if not case['docov']:
            cmd.append('--nocov')
        if case.get('ratio') is not None:
            cmd += ['--ratio', str(case['ratio'])]
        p = subprocess.run(cmd, stdout=subprocess.PIPE, stderr=subprocess.STDOUT, timeout=1200, cwd=sc)
        comp = os.path.join(sc, 'out_comp.csv')
        if not os.path.exists(comp):
            raise SubjectError('aegean CLI exit %d, no table: %s' % (p.returncode, p.stdout.decode(errors='replace')[-1000:]))
        return read_back(comp)
    from AegeanTools.source_finder import SourceFinder
    import logging
    sf = SourceFinder(log=logging.getLogger('aegmon-null'))
    return sf.priorized_fit_islands(fn_img, catalogue=catalogue, rms=float(rms), bkg=0.0, cores=1, docov=case['docov'],
                                    stage=case['stage'], doregroup=case['regroup'], ratio=case.get('ratio'))


class SubjectError(Exception):
    pass


def _guard(o, ctx, fn):
    try:
        return fn()
    except SubjectError as e:
        o.violate('raises', dict(ctx, error=str(e)))
        return None
    except Exception:
        import traceback
        tb = traceback.format_exc()
        frames = [l for l in tb.splitlines() if l.strip().startswith('File ')]
        if any('/AegeanTools/' in f for f in frames[-3:]):
            o.violate('raises', dict(ctx, traceback=tb[-1800:]))
            return None
        raise


# ------------------------------------------------------------------------------------------ judging
def judge_outputs(o, ctx, case, outs, truth, z, accepted_uuids, judge_values=True):
    seen = {}
    for s in outs:
        u = s.uuid
        if u not in truth:
            o.violate('output_uuid_not_an_input', dict(ctx, uuid=u))
            continue
        if u in seen:
            o.violate('more_than_one_output_per_input', dict(ctx, uuid=u))
            continue
        seen[u] = s
        if not int(s.flags) & PRIORIZED:
            o.violate('priorized_flag_missing', dict(ctx, uuid=u, flags=int(s.flags)))
    for u in accepted_uuids:
        if u not in seen:
            o.violate('accepted_input_without_output', dict(ctx, uuid=u, truth=truth[u]))
    if not judge_values:
        return seen
    stage = case['stage']
    scale = case['scale']
    for u, s in seen.items():
        t = truth[u]
        if not np.isfinite(s.peak_flux):
            o.count('outputs_not_fit')
            continue
        o.count('outputs_judged')
        if t.get('edge') is not None:
            o.count('outputs_judged_with_cutout_over_an_edge')
        w = dict(ctx, uuid=u, truth=t, out={'ra': s.ra, 'dec': s.dec, 'peak': s.peak_flux, 'a': s.a, 'b': s.b, 'pa': s.pa,
                                            'flags': int(s.flags), 'err_ra': s.err_ra, 'err_a': s.err_a})
        sxp = t['a'] / 3600 / scale * FWHM2CC
        width = int(round(4 * sxp)) + 1
        o.count('cutout_width_odd' if width % 2 else 'cutout_width_even')
        w['cutout_width'] = width
        dpos = float(sphere.sep(s.ra, s.dec, t['ra'], t['dec']))
        # ---- parameters the stage does not free come back as given, with the input errors
        if stage < 2:
            o.worst('fixed_position_error_deg', dpos)
            if dpos > 1e-9:
                o.violate('fixed_position_changed', dict(w, moved_deg=dpos))
            if s.err_ra != t['err_ra'] or s.err_dec != t['err_dec']:
                o.violate('fixed_position_errors_not_copied', w)
        if stage < 3:
            ea, eb = abs(s.a / t['a'] - 1), abs(s.b / t['b'] - 1)
            epa = abs(float(sphere.angdiff(s.pa, t['pa'], 180.0)))
            o.worst('fixed_shape_rel_error', max(ea, eb))
            if (t['a'] - t['b']) / t['a'] >= 0.1:
                o.worst('fixed_pa_error_deg', epa)
            # the shape necessarily passes through sky->pixel->sky; the accuracy of that round trip is what C16 states
            # (1e-3 relative, 0.01 deg) - demanding more here could flag code for which both properties hold
            elong = (t['a'] - t['b']) / t['a'] >= 0.1          # the angle of a nearly round source is ill-conditioned
            if ea > 1e-3 or eb > 1e-3 or (elong and epa > 0.01):
                o.violate('fixed_shape_changed', dict(w, rel_a=ea, rel_b=eb, dpa=epa))
            if s.err_a != t['err_a'] or s.err_b != t['err_b'] or s.err_pa != t['err_pa']:
                o.violate('fixed_shape_errors_not_copied', w)
        # ---- recovery on the noise-free model image
        ef = abs(s.peak_flux / t['peak'] - 1)
        o.worst('flux_rel_error_over_1e-3', ef / 1e-3)
        if ef > 1e-3:
            o.violate('flux_not_recovered', dict(w, rel_error=ef), None)
        if stage >= 2:
            px = dpos / scale
            o.worst('position_error_px_over_0.01', px / 0.01)
            if px > 0.01:
                o.violate('position_not_recovered', dict(w, error_px=px))
        if stage >= 3:
            ea, eb = abs(s.a / t['a'] - 1), abs(s.b / t['b'] - 1)
            o.worst('shape_rel_error_over_1e-3', max(ea, eb) / 1e-3)
            if ea > 1e-3 or eb > 1e-3:
                o.violate('shape_not_recovered', dict(w, rel_a=ea, rel_b=eb))
            if (t['a'] - t['b']) / t['a'] >= 0.1:
                epa = abs(float(sphere.angdiff(s.pa, t['pa'], 180.0)))
                o.worst('pa_error_deg_over_0.1', epa / 0.1)
                if epa > 0.1:
                    o.violate('shape_not_recovered', dict(w, dpa=epa))
    return seen


def _accepted(objs, z, shape, img):
    """inputs whose nearest pixel is on the image and finite (the finder's own acceptance rule is part of the statement:
    'sources outside the image or on blank pixels' are the ones that may be dropped)"""
    acc = []
    for o_ in objs:
        i, j = z.sky2index(o_.ra, o_.dec)
        i, j = int(round(float(i))), int(round(float(j)))
        if 0 <= i < shape[0] and 0 <= j < shape[1] and np.isfinite(img[i, j]):
            acc.append(o_.uuid)
    return acc


def _arm(o):
    from aegmon.props import c04, c17
    c04.install()
    c17.install()
    c04.set_obs(o)
    c17.set_obs(o)
    c04.EVERY = 10


def _disarm():
    from aegmon.props import c04, c17
    c04.set_obs(None)
    c17.set_obs(None)


def run(case):
    sys_path_repo()
    wz.selfcheck()
    o = Obs()
    sc = scratch_dir()
    own = 0
    try:
        from astropy.io import fits
        s = case['scale']
        h = wz.make_header(case['proj'], case['crval'], case['crpix'], (-s, s), case['shape'], beam=case['beam'])
        z = wz.ZenithalWCS(h)
        objs = make_objects(case, z)
        ctx = {'case': {k: case[k] for k in ('kind', 'proj', 'scale', 'shape', 'stage', 'regroup', 'ratio', 'docov', 'form',
                                             'psf_columns', 'via')}, 'n_sources': len(objs)}
        # the catalogue as the finder will see it
        catalogue = objs
        if case['form'] != 'objects':
            fn_cat = write_catalogue(objs, case['form'], ('nan' if case.get('nan_psf') else False) if case['kind'] == 'nopsf' else case['psf_columns'], sc)
            if case.get('nan_psf'):
                o.count('runs_from_a_table_with_nan_psf_columns')
                o.see('nan_psf_table_format', case['form'])
            seen_by_finder = read_back(fn_cat)
            o.count('file_inputs')
            catalogue = fn_cat
        else:
            seen_by_finder = copy.deepcopy(objs)
        truth = truth_of(seen_by_finder)
        tlist = [{'ra': t['ra'], 'dec': t['dec'], 'peak': t['peak'], 'a': t['a'], 'b': t['b'], 'pa': t['pa']} for t in truth.values()]
        far = max([float(sphere.sep(case['crval'][0], case['crval'][1], t['ra'], t['dec'])) for t in tlist] or [0])
        o.worst('offset_from_crval_deg', far)
        img = render.render(z, tuple(case['shape']), tlist, nsigma=6.0).astype(np.float32)
        rms = 1e-3 * min(abs(t['peak']) for t in tlist)
        rng = np.random.default_rng(case['shuffle_seed'])
        if case['form'] == 'objects':
            catalogue = [catalogue[i] for i in rng.permutation(len(catalogue))]
        fn_img = os.path.join(sc, 'model.fits')
        if case['kind'] == 'interference':
            own += _interference(o, ctx, case, z, h, img, objs, truth, rms, sc, rng)
            return _finish(o, own)
        if case.get('pinholes'):
            # flagged pixels: a single blank pixel (sometimes two) right next to a source's central pixel, which itself stays valid -
            # the source is still an accepted input and the noise-free model still determines it exactly
            nh = 0
            for t in tlist:
                if rng.random() < 0.5:
                    fi, fj = [float(v) for v in z.sky2index(t['ra'], t['dec'])]
                    i_, j_ = int(round(fi)), int(round(fj))
                    # (a centre on a pixel edge/corner has no unique central pixel: which of the two the finder takes is its own
                    # business, so such sources get no pinhole)
                    unique = abs(fi - np.floor(fi) - 0.5) > 0.1 and abs(fj - np.floor(fj) - 0.5) > 0.1
                    if unique and 2 <= i_ < img.shape[0] - 2 and 2 <= j_ < img.shape[1] - 2:
                        for _ in range(1 if rng.random() < 0.7 else 2):
                            di, dj = [(-1, -1), (-1, 0), (-1, 1), (0, -1), (0, 1), (1, -1), (1, 0), (1, 1)][int(rng.integers(0, 8))]
                            img[i_ + di, j_ + dj] = np.nan
                        nh += 1
            o.count('sources_with_a_blank_pixel_next_to_the_centre', nh)
            o.count('runs_with_pinholes')
        fits.PrimaryHDU(img, header=h).writeto(fn_img, overwrite=True)
        _arm(o)
        try:
            outs = _guard(o, ctx, lambda: run_priorized(case, fn_img, catalogue, rms, sc))
        finally:
            _disarm()
        own += 1
        if outs is None:
            return _finish(o, own)
        acc = _accepted(seen_by_finder, z, case['shape'], img)
        if acc:
            o.n_nontrivial += 1
        ngroups = len(set(o_.island for o_ in objs))
        if ngroups > 20:
            o.count('runs_over_20_groups')
        o.see('stage', case['stage'])
        o.see('form', case['form'])
        if case.get('psf_scale', 1.0) != 1.0:
            o.count('runs_ratio1_with_catalogue_psf_differing_from_beam')
        if case.get('small_sources'):
            o.count('runs_with_sources_narrower_than_the_psf')
        if case.get('mixed_sizes'):
            aa = sorted(q['a'] for q in case['sources'])
            sep = float(np.hypot(*(np.array(case['sources'][-1]['index']) - np.array(case['sources'][-2]['index'])))) * case['scale'] * 3600
            if 4 * np.median(aa) < sep < 4 * np.mean(aa):
                o.count('runs_with_a_blend_between_4_median_a_and_4_mean_a')
        if case.get('pa_conventions'):
            o.count('sources_with_pa_outside_minus90_90', sum(1 for q in case['sources'] if not -90 < q['pa'] <= 90))
        if case.get('polar'):
            o.count('runs_polar_field_regroup_on')
            isl = [q['island'] for q in case['sources']]
            o.count('polar_blend_members', sum(1 for v in isl if isl.count(v) > 1))
        if case.get('dup_labels') and len(set((q.island, q.source) for q in objs)) < len(objs):
            o.count('runs_with_repeated_labels_inside_an_island')
        judge_outputs(o, ctx, case, outs, truth, z, acc)
        if case['kind'] == 'nopsf':
            # the same catalogue with psf columns must give the same answers
            fn2 = write_catalogue(objs, case['form'], True, os.path.join(sc))
            outs2 = _guard(o, ctx, lambda: run_priorized(case, fn_img, fn2, rms, sc))
            own += 1
            if outs2 is not None:
                # the two inputs differ at rounding level (psf from the table vs from the image header) and a
                # non-linear fit reproduces only to about its convergence tolerance (observed up to 2e-6): a change is
                # a difference above a tenth of the statement's own measurement tolerance (0.1 %)
                _compare_sets(o, ctx, outs, outs2, 'catalogue without psf columns vs with', 1e-4, 'nopsf_rel_change')
                o.count('nopsf_pairs')
        o.sample = {'case': ctx['case'], 'n_sources': len(objs), 'outputs': len(outs)}
        return _finish(o, own)
    finally:
        _disarm()
        shutil.rmtree(sc, ignore_errors=True)


def _finish(o, own):
    o.count('insitu_contract_evaluations', max(0, o.n_eval))
    o.n_eval = own
    return o.result()


def _compare_sets(o, ctx, outs_a, outs_b, what, tol, margin='interference_rel_change'):
    a = {s.uuid: s for s in outs_a}
    b = {s.uuid: s for s in outs_b}
    for u, s in a.items():
        if u not in b:
            o.violate('result_set_changed', dict(ctx, what=what, uuid=u, missing_in='second'))
            continue
        t = b[u]
        for k in ('ra', 'dec', 'peak_flux', 'a', 'b', 'pa', 'int_flux', 'err_peak_flux', 'err_ra', 'err_a'):
            x, y = getattr(s, k), getattr(t, k)
            if (x is None) != (y is None):
                o.violate('result_changed', dict(ctx, what=what, uuid=u, column=k, first=repr(x), second=repr(y)))
                continue
            if isinstance(x, float) and isinstance(y, float) and np.isnan(x) and np.isnan(y):
                continue
            d = abs(x - y)
            rel = d / max(abs(x), 1e-300) if k not in ('ra', 'dec', 'pa') else d
            o.worst(margin, rel)
            o.worst(margin + '_' + k, rel)
            # error columns are derivatives at the solution and move ten times more than the values under the same
            # rounding-level perturbation (observed 9e-5 vs 1.3e-5): judged at ten times the tolerance of the values
            if rel > (tol * 10 if k.startswith('err_') else tol):
                o.violate('result_changed', dict(ctx, what=what, uuid=u, column=k, first=x, second=y))
    for u in b:
        if u not in a and u in [s.uuid for s in outs_a]:
            o.violate('result_set_changed', dict(ctx, what=what, uuid=u, missing_in='first'))


def _interference(o, ctx, case, z, h, img, objs, truth, rms, sc, rng):
    """results for the good sources with and without off-image / on-NaN sources in the catalogue"""
    from astropy.io import fits
    from AegeanTools.models import ComponentSource
    rows, cols = case['shape']
    img = img.copy()
    bad = []
    beam_px = case['beam'][0] / case['scale']
    for k, b in enumerate(case['bad']):
        r = np.random.default_rng(b['seed'])
        g = objs[int(r.integers(0, len(objs)))]
        gi, gj = [float(v) for v in z.sky2index(g.ra, g.dec)]
        if b['what'] in ('off_image', 'far_off_image'):
            side = int(r.integers(0, 4))
            d = float(r.uniform(1.0, 40.0))
            if b['what'] == 'far_off_image':
                d = float(r.uniform(2.0, 10.0)) / case['scale']          # degrees away, in pixels
            i = -d if side == 0 else (rows - 1 + d if side == 1 else float(r.uniform(0, rows)))
            j = -d if side == 2 else (cols - 1 + d if side == 3 else float(r.uniform(0, cols)))
        else:
            # a NaN block away from every good source's fitting footprint, near or far from one of them
            for _ in range(200):
                dist = float(r.uniform(3.2, 4.5)) * g.a / 3600 / case['scale'] if b['near'] else float(r.uniform(30, 60))
                t = float(r.uniform(0, 2 * np.pi))
                i, j = gi + dist * np.cos(t), gj + dist * np.sin(t)
                if not (3 <= i < rows - 3 and 3 <= j < cols - 3):
                    continue
                if all(np.hypot(i - float(z.sky2index(q.ra, q.dec)[0]), j - float(z.sky2index(q.ra, q.dec)[1]))
                       > 2.3 * q.a / 3600 / case['scale'] + 3 for q in objs):
                    break
            else:
                continue
            img[int(round(i)) - 1:int(round(i)) + 2, int(round(j)) - 1:int(round(j)) + 2] = np.nan
        ra, dec = z.index2sky(i, j)
        s = ComponentSource()
        s.island, s.source = 1000 + k, 0
        s.ra, s.dec = float(ra), float(dec)
        s.peak_flux = float(r.uniform(0.5, 2.0)) * abs(objs[0].peak_flux)
        s.a, s.b, s.pa = g.a, g.b, g.pa
        s.int_flux = s.peak_flux
        s.err_ra = s.err_dec = s.err_peak_flux = s.err_a = s.err_b = s.err_pa = s.err_int_flux = 1e-4
        s.psf_a, s.psf_b, s.psf_pa = g.psf_a, g.psf_b, g.psf_pa
        s.local_rms, s.background, s.residual_mean, s.residual_std, s.flags = 1e-3, 0.0, 0.0, 0.0, 0
        s.uuid = str(uuidlib.UUID(int=900000 + k))
        s.ra_str = s.dec_str = 'x'
        bad.append((s, b))
        o.see('bad_source_kinds', '%s/%s' % (b['what'], 'near' if b['near'] else 'far'))
    fn_img = os.path.join(sc, 'model_nan.fits')
    fits.PrimaryHDU(img, header=h).writeto(fn_img, overwrite=True)
    good = copy.deepcopy(objs)
    good = [good[i] for i in rng.permutation(len(good))]
    if case.get('bad_first'):
        mixed = [copy.deepcopy(s) for s, _ in bad] + copy.deepcopy(good)
    else:
        mixed = copy.deepcopy(objs) + [copy.deepcopy(s) for s, _ in bad]
        mixed = [mixed[i] for i in rng.permutation(len(mixed))]
    if case.get('psf_unknown'):
        for q in good + mixed:
            q.psf_a = q.psf_b = q.psf_pa = float('nan')
        o.count('interference_pairs_without_psf_information')
    outs_good = _guard(o, ctx, lambda: run_priorized(case, fn_img, good, rms, sc))
    outs_mixed = _guard(o, dict(ctx, with_bad_sources=[b for _, b in bad]), lambda: run_priorized(case, fn_img, mixed, rms, sc))
    if outs_good is None or outs_mixed is None:
        return 2
    o.n_nontrivial += 1
    o.count('interference_pairs')
    o.count('bad_sources_injected', len(bad))
    good_u = set(s.uuid for s in objs)
    only_good = [s for s in outs_mixed if s.uuid in good_u]
    # adding sources legitimately changes the default linking length (4 x mean major axis) and hence which good
    # sources are fitted jointly; joint and separate fits of the exact model agree to the optimiser's convergence
    # (observed 1e-6): a "change" is a difference above a tenth of the statement's measurement tolerance (0.1 %)
    _compare_sets(o, ctx, outs_good, only_good, 'with off-image / on-NaN sources added', 1e-4)
    allt = dict(truth)
    for s, _ in bad:
        allt[s.uuid] = {'ra': s.ra, 'dec': s.dec, 'peak': s.peak_flux, 'a': s.a, 'b': s.b, 'pa': s.pa}
    judge_outputs(o, ctx, case, outs_mixed, allt, z, _accepted(objs, z, case['shape'], img), judge_values=False)
    judge_outputs(o, ctx, case, outs_good, truth, z, _accepted(objs, z, case['shape'], img))
    o.sample = {'case': ctx['case'], 'good': len(objs), 'bad': [b for _, b in bad], 'outputs_mixed': len(outs_mixed)}
    return 2
