"""C17 - spherical geometry and sexagesimal primitives.

Contracts (icontract.ensure, recording conditions) are installed on the real functions of
AegeanTools.angle_tools; the workload then just calls the functions with hostile arguments.
"""
from fractions import Fraction

import os

import numpy as np

from aegmon.common import Obs, rng_for, n_distinct_rows
from aegmon.refs import sphere, sexa

ID = 'C17'
LEVEL = 'exploration'
RULE = ('cases are seeded strata of coordinate pairs (log grid of separations from 1e-9 deg up from zero and down '
        'from 180, poles, RA wrap, uniform sphere), (r,theta) translations, and constructed sexagesimal carries '
        '(x = boundary - eps for every minute/degree/hour boundary class, eps 1e-3..1e-10 arcsec); an evaluation is '
        'one contract evaluation on one argument tuple; non-trivial = finite arguments with distinct points; '
        'distinct = unique argument tuples (np.unique) within a case, cases with equal hash counted once')
ASSUMPTIONS = ['oracle: atan2(|a x b|, a.b) separation and tangent-basis position angle (aegmon/refs/sphere.py), '
               'cross-checked at start-up against the Vincenty form', 'IEEE double arithmetic of numpy']
MIN_REACH = {'angle_tools:gcd': 1, 'angle_tools:bear': 1, 'angle_tools:translate': 1,
             'angle_tools:dec2dms': 1, 'angle_tools:dec2hms': 1, 'angle_tools:dec2dec': 1}
MIN_COUNTERS = {'contract_gcd': 10, 'contract_bear': 10, 'contract_translate': 10, 'contract_dms': 10,
                'contract_hms': 10, 'parse_padded': 1000, 'contract_bear_from_exact_pole': 50, 'translate_destination_is_a_pole': 1000, 'int_variants_checked': 4, 'catalogue_string_rows': 10, 'translate_mixed_shape_calls': 20}

TOL = 1e-9          # degrees, from the statement
_OBS = None         # the Obs the installed contracts record into
_installed = False


# ----------------------------------------------------------------------------- contracts
def _flat(*xs):
    return [np.atleast_1d(np.asarray(x, dtype=float)) for x in np.broadcast_arrays(*xs)]


def post_gcd(ra1, dec1, ra2, dec2, result):
    o = _OBS
    if o is None:
        return True
    a1, d1, a2, d2, res = _flat(ra1, dec1, ra2, dec2, result)
    ok = np.isfinite(a1) & np.isfinite(d1) & np.isfinite(a2) & np.isfinite(d2)
    o.count('contract_gcd', ok.sum())
    ref = sphere.sep(a1, d1, a2, d2)
    err = np.abs(res - ref)
    o.worst('gcd_vs_vector_deg', np.nanmax(np.where(ok, err, 0)) if ok.any() else None)
    bad = ok & ~(err <= TOL)
    for i in np.flatnonzero(bad)[:3]:
        o.violate('gcd_vs_vector', {'args': [a1[i], d1[i], a2[i], d2[i]], 'gcd': res[i], 'reference': ref[i]},
                  _mech_gcd(ref[i]))
    bad = ok & ~((res >= 0) & (res <= 180))
    for i in np.flatnonzero(bad)[:3]:
        o.violate('gcd_range', {'args': [a1[i], d1[i], a2[i], d2[i]], 'gcd': res[i]})
    bad = ok & (res == 0) & (ref >= TOL)
    for i in np.flatnonzero(bad)[:3]:
        o.violate('gcd_zero_for_distinct', {'args': [a1[i], d1[i], a2[i], d2[i]], 'gcd': res[i], 'reference': ref[i]})
    return True


def _mech_gcd(refsep):
    return None


def post_bear(ra1, dec1, ra2, dec2, result):
    o = _OBS
    if o is None:
        return True
    a1, d1, a2, d2, res = _flat(ra1, dec1, ra2, dec2, result)
    ref = sphere.position_angle(a1, d1, a2, d2)
    s = sphere.sep(a1, d1, a2, d2)
    # a direction exists only away from coincidence/antipode and away from the poles, and the rounding
    # error of any double-precision formula grows as 1e-16/(sin(sep) cos(dec1)): judge where both >= 1e-3
    judged = np.isfinite(res) & (np.sin(np.radians(s)) >= 1e-3) & (np.cos(np.radians(d1)) >= 1e-3)
    # ... and EXACTLY at a pole, where the standard formula is well conditioned again (sin(dec1) = +-1, cos(dec1) = 6e-17): the
    # position angle is counted from the meridian of ra1, 180 - dRA at the north pole and dRA at the south pole
    at_pole = (np.abs(d1) == 90.0) & (np.sin(np.radians(s)) >= 1e-3) & (np.cos(np.radians(d2)) >= 1e-3) & np.isfinite(res)
    o.count('contract_bear_from_exact_pole', at_pole.sum())
    judged = judged | at_pole
    o.count('contract_bear', judged.sum())
    o.count('bear_undetermined', (~judged).sum())
    err = np.abs(sphere.angdiff(res, ref))
    if judged.any():
        o.worst('bear_vs_pa_deg', np.max(err[judged]))
    for i in np.flatnonzero(judged & ~(err <= TOL))[:3]:
        o.violate('bear_vs_pa', {'args': [a1[i], d1[i], a2[i], d2[i]], 'bear': res[i], 'reference': ref[i]})
    return True


def post_translate(ra, dec, r, theta, result):
    o = _OBS
    if o is None:
        return True
    a, d, rr, tt, ra_o, dec_o = _flat(ra, dec, r, theta, result[0], result[1])
    fin = np.isfinite(ra_o) & np.isfinite(dec_o)
    dist = sphere.sep(a, d, ra_o, dec_o)
    polar = (np.abs(d) > 89.99) | (np.abs(dec_o) > 89.99)
    tol_d = np.where(polar, 1e-5, TOL)
    o.count('contract_translate', fin.sum())
    o.count('translate_polar_cap', (fin & polar).sum())
    derr = np.abs(dist - rr)
    if (fin & ~polar).any():
        o.worst('translate_distance_deg', np.max(derr[fin & ~polar]))
    if (fin & polar).any():
        o.worst('translate_distance_polar_deg', np.max(derr[fin & polar]))
    for i in np.flatnonzero(~fin | ~(derr <= tol_d))[:3]:
        o.violate('translate_distance', {'args': [a[i], d[i], rr[i], tt[i]], 'out': [ra_o[i], dec_o[i]],
                                         'distance': dist[i]})
    # initial bearing: undetermined for tiny r, near the antipode, or start at a pole
    jb = fin & (rr >= 1e-6) & (rr <= 180 - 1e-6) & (np.abs(d) < 90 - 1e-6)
    pa = sphere.position_angle(a, d, ra_o, dec_o)
    berr = np.abs(sphere.angdiff(pa, tt)) * np.sin(np.radians(rr))
    tol_b = np.where(polar, 1e-5, TOL)
    o.count('translate_bearing_judged', jb.sum())
    if (jb & ~polar).any():
        o.worst('translate_bearing_x_sin_r_deg', np.max(berr[jb & ~polar]))
    for i in np.flatnonzero(jb & ~(berr <= tol_b))[:3]:
        o.violate('translate_bearing', {'args': [a[i], d[i], rr[i], tt[i]], 'out': [ra_o[i], dec_o[i]],
                                        'bearing_of_result': pa[i]})
    return True


def post_dec2dms(x, result):
    o = _OBS
    if o is None:
        return True
    if not np.isfinite(x):
        if result != 'XX:XX:XX.XX':
            o.violate('dms_nonfinite', {'x': repr(x), 'string': result})
        return True
    o.count('contract_dms')
    ok, probs, val = sexa.parse_dms(result)
    if not ok:
        o.violate('dms_fields', {'x': repr(float(x)), 'string': result, 'problems': probs},
                  'sexagesimal-seconds-carry' if any('60' in p for p in probs) else None)
        return True
    err = abs(val - Fraction(float(x)) * 3600)          # exact rational arithmetic, arcsec
    o.worst('dms_roundtrip_arcsec', float(err))
    if err > Fraction(5, 1000) + Fraction(1, 10**9):
        o.violate('dms_roundtrip', {'x': repr(float(x)), 'string': result, 'error_arcsec': float(err)})
    return True


def post_dec2hms(x, result):
    o = _OBS
    if o is None:
        return True
    if not np.isfinite(x):
        if result != 'XX:XX:XX.XX':
            o.violate('hms_nonfinite', {'x': repr(x), 'string': result})
        return True
    o.count('contract_hms')
    ok, probs, val = sexa.parse_hms(result)
    if not ok:
        o.violate('hms_fields', {'x': repr(float(x)), 'string': result, 'problems': probs},
                  'sexagesimal-seconds-carry' if any('60' in p for p in probs) else None)
        return True
    # seconds of time, modulo 24 h
    diff = (val - Fraction(float(x)) * 240) % 86400
    err = min(diff, 86400 - diff)
    o.worst('hms_roundtrip_sec', float(err))
    if err > Fraction(5, 1000) + Fraction(1, 10**9):
        o.violate('hms_roundtrip', {'x': repr(float(x)), 'string': result, 'error_sec': float(err)})
    return True


class ContractBroken(Exception):
    pass


def install():
    """icontract postconditions on the real functions (module attributes are replaced, so call-time lookups
    everywhere in AegeanTools see them; from-imports made earlier are patched in the importing modules)."""
    global _installed
    if _installed:
        return
    import icontract
    import sys
    from AegeanTools import angle_tools as at
    posts = {'gcd': post_gcd, 'bear': post_bear, 'translate': post_translate,
             'dec2dms': post_dec2dms, 'dec2hms': post_dec2hms}
    for name, cond in posts.items():
        orig = getattr(at, name)
        wrapped = icontract.ensure(cond, error=ContractBroken)(orig)
        setattr(at, name, wrapped)
        for m in list(sys.modules.values()):
            if m is None or not getattr(m, '__name__', '').startswith('AegeanTools'):
                continue
            if getattr(m, name, None) is orig:
                setattr(m, name, wrapped)
    _installed = True


def set_obs(o):
    global _OBS
    _OBS = o


# ----------------------------------------------------------------------------- workload
def cases(seed, tier):
    n = 20000 if tier == 'quick' else 500000
    out = []
    strata = ['near_zero', 'near_antipode', 'poles', 'ra_wrap', 'uniform', 'meridian', 'equator']
    reps = 2 if tier == 'quick' else 16
    for st in strata:
        for k in range(reps):
            out.append({'kind': 'pairs', 'stratum': st, 'n': n, 'seed': [seed, st, k]})
    for st in ['uniform', 'small_r', 'large_r', 'polar_start', 'cardinal', 'to_pole']:
        for k in range(reps):
            out.append({'kind': 'translate', 'stratum': st, 'n': n, 'seed': [seed, st, k]})
    out.append({'kind': 'sexa_carries', 'which': 'dms'})
    out.append({'kind': 'sexa_carries', 'which': 'hms'})
    for k in range(reps * 2):
        out.append({'kind': 'sexa_random', 'n': 4000 if tier == 'quick' else 40000, 'seed': [seed, 'sexa', k]})
    out.append({'kind': 'int_spellings', 'n': 2000 if tier == 'quick' else 20000, 'seed': [seed, 'ints']})
    # the formatters where their output is used: the coordinate strings of catalogue rows made by priorized fitting from an
    # input catalogue whose own strings are absent or stale (every row's strings must be the formatted ra/dec of THAT row)
    for k in range(3 if tier == 'quick' else 24):
        out.append({'kind': 'catalogue_strings', 'stage': 1 + k % 3, 'strings': ['empty', 'stale', 'as_found'][(k // 3) % 3] if k >= 3 else ['empty', 'stale', 'empty'][k],
                    'seed': [seed, 'catstr', k]})
    return out


def _pairs(stratum, n, rng):
    ra1 = rng.uniform(0, 360, n)
    dec1 = np.degrees(np.arcsin(rng.uniform(-1, 1, n)))
    if stratum in ('near_zero', 'near_antipode'):
        s = 10 ** rng.uniform(-9, 0.5, n)
        if stratum == 'near_antipode':
            s = 180 - s
            s[: n // 20] = 180.0
        t = rng.uniform(0, 360, n)
        ra2, dec2 = sphere.destination(ra1, dec1, s, t)
    elif stratum == 'poles':
        dec1 = rng.choice([90.0, -90.0, 90 - 1e-7, -90 + 1e-9, 89.999999], n)
        ra2 = rng.uniform(0, 360, n)
        dec2 = np.where(rng.random(n) < 0.3, rng.choice([90.0, -90.0], n), np.degrees(np.arcsin(rng.uniform(-1, 1, n))))
    elif stratum == 'ra_wrap':
        ra1 = rng.choice([0.0, 360.0, 359.9999999, 1e-9, 360 - 1e-12], n)
        ra2 = rng.choice([0.0, 359.999999, 1e-7, 180.0, 360.0], n) + rng.uniform(-1e-6, 1e-6, n) * (rng.random(n) < 0.5)
        dec2 = dec1 + rng.uniform(-1, 1, n) * 10 ** rng.uniform(-9, 1, n)
        dec2 = np.clip(dec2, -90, 90)
    elif stratum == 'meridian':
        ra2 = ra1 + rng.choice([0.0, 180.0], n)
        dec2 = np.degrees(np.arcsin(rng.uniform(-1, 1, n)))
    elif stratum == 'equator':
        dec1 = np.zeros(n)
        dec2 = rng.choice([0.0, 1e-9, -1e-9], n)
        ra2 = ra1 + 10 ** rng.uniform(-9, 2.25, n) * rng.choice([-1, 1], n)
    else:
        ra2 = rng.uniform(0, 360, n)
        dec2 = np.degrees(np.arcsin(rng.uniform(-1, 1, n)))
    return ra1, dec1, ra2, dec2


def run(case):
    from AegeanTools import angle_tools as at
    install()
    sphere.selfcheck()
    o = Obs()
    set_obs(o)
    try:
        kind = case['kind']
        if kind == 'pairs':
            rng = rng_for(*case['seed'])
            n = case['n']
            ra1, dec1, ra2, dec2 = _pairs(case['stratum'], n, rng)
            g12 = at.gcd(ra1, dec1, ra2, dec2)
            g21 = at.gcd(ra2, dec2, ra1, dec1)
            asym = np.abs(g12 - g21)
            o.worst('gcd_asymmetry_deg', np.max(asym))
            for i in np.flatnonzero(asym > TOL)[:3]:
                o.violate('gcd_symmetry', {'args': [ra1[i], dec1[i], ra2[i], dec2[i]], 'g12': g12[i], 'g21': g21[i]})
            # identical points -> 0
            g11 = at.gcd(ra1, dec1, ra1, dec1)
            for i in np.flatnonzero(g11 != 0)[:3]:
                o.violate('gcd_zero_identical', {'args': [ra1[i], dec1[i]], 'gcd': g11[i]})
            # triangle inequality with a third point: random, and on the arc between the two (tight case)
            f = rng.uniform(0, 1, n)
            s12 = sphere.sep(ra1, dec1, ra2, dec2)
            pa = sphere.position_angle(ra1, dec1, ra2, dec2)
            ra3, dec3 = sphere.destination(ra1, dec1, f * s12, pa)
            half = n // 2
            ra3[:half] = rng.uniform(0, 360, half)
            dec3[:half] = np.degrees(np.arcsin(rng.uniform(-1, 1, half)))
            g13 = at.gcd(ra1, dec1, ra3, dec3)
            g32 = at.gcd(ra3, dec3, ra2, dec2)
            exc = g12 - (g13 + g32)
            o.worst('triangle_excess_deg', np.max(exc))
            for i in np.flatnonzero(exc > TOL)[:3]:
                o.violate('gcd_triangle', {'p1': [ra1[i], dec1[i]], 'p2': [ra2[i], dec2[i]], 'p3': [ra3[i], dec3[i]],
                                           'g12': g12[i], 'g13': g13[i], 'g32': g32[i]},
                          None)
            b = at.bear(ra1, dec1, ra2, dec2)
            # scalar calls must agree with array calls
            for i in rng.integers(0, n, 200):
                gs = at.gcd(float(ra1[i]), float(dec1[i]), float(ra2[i]), float(dec2[i]))
                bs = at.bear(float(ra1[i]), float(dec1[i]), float(ra2[i]), float(dec2[i]))
                if not (abs(gs - g12[i]) <= 1e-12 and (abs(sphere.angdiff(bs, b[i])) <= 1e-9 or not np.isfinite(b[i]))):
                    o.violate('scalar_vs_array', {'args': [ra1[i], dec1[i], ra2[i], dec2[i]],
                                                  'scalar': [gs, bs], 'array': [g12[i], b[i]]})
            o.count('scalar_vs_array_checked', 200)
            o.n_eval += 5 * n + 400
            o.n_nontrivial += n_distinct_rows(ra1, dec1, ra2, dec2)
            o.sample = {'first_pair': [ra1[0], dec1[0], ra2[0], dec2[0]], 'gcd': g12[0], 'bear': b[0]}
        elif kind == 'translate':
            rng = rng_for(*case['seed'])
            n = case['n']
            ra = rng.uniform(0, 360, n)
            dec = np.degrees(np.arcsin(rng.uniform(-1, 1, n)))
            r = rng.uniform(0, 180, n)
            t = rng.uniform(0, 360, n)
            st = case['stratum']
            if st == 'small_r':
                r = 10 ** rng.uniform(-9, 0, n)
                r[:10] = 0.0
            elif st == 'large_r':
                r = 180 - 10 ** rng.uniform(-9, 1, n)
            elif st == 'polar_start':
                dec = rng.choice([-1, 1], n) * (90 - 10 ** rng.uniform(-9, 0, n))
            elif st == 'to_pole':
                # the destination is a pole itself: due north by the co-latitude, due south by 90 + dec, or across the pole
                north = rng.random(n) < 0.5
                r = np.where(north, 90.0 - dec, 90.0 + dec)
                t = np.where(north, 0.0, 180.0)
                m = rng.random(n) < 0.2
                t = np.where(m, np.where(north, 360.0, 180.0), t)
                r = np.where(r < 1e-6, 1.0, r)
                o.count('translate_destination_is_a_pole', n)
            elif st == 'cardinal':
                t = rng.choice([0.0, 90.0, 180.0, 270.0, 360 - 1e-9, 45.0], n)
                ra = rng.choice([0.0, 359.9999999, 180.0], n)
            ro, do = at.translate(ra, dec, r, t)
            # mixtures of scalars and arrays, and arrays of different broadcastable shapes (a circle outline around one point,
            # a ray of distances, one offset applied to a whole catalogue): same answers as the element-wise calls
            m = 24
            for name, args in (('point_scalar_outline_array', (float(ra[0]), float(dec[0]), float(r[0]), t[:m])),
                               ('ray_of_distances', (float(ra[1]), float(dec[1]), r[:m], float(t[1]))),
                               ('catalogue_one_offset', (ra[:m], dec[:m], float(r[2]), float(t[2]))),
                               ('column_times_row', (ra[:4, None], dec[:4, None], r[None, :5], t[None, :5]))):
                try:
                    rm, dm = at.translate(*args)
                except Exception as e:
                    o.violate('translate_mixed_shapes_raises', {'form': name, 'exc': repr(e)[:300]})
                    continue
                o.count('translate_mixed_shape_calls')
                bc = np.broadcast_arrays(*[np.asarray(a_, dtype=float) for a_ in args])
                exp = [at.translate(float(a_), float(b_), float(c_), float(d_)) for a_, b_, c_, d_ in zip(*[b_.ravel() for b_ in bc])]
                er = np.array([e_[0] for e_ in exp]).reshape(bc[0].shape)
                ed = np.array([e_[1] for e_ in exp]).reshape(bc[0].shape)
                rm, dm = np.asarray(rm, dtype=float), np.asarray(dm, dtype=float)
                if rm.shape != er.shape or not (np.all(np.abs(sphere.angdiff(rm, er)) <= 1e-12) and np.all(np.abs(dm - ed) <= 1e-12)):
                    o.violate('scalar_vs_array', {'form': name, 'shape': list(rm.shape), 'expected_shape': list(er.shape)})
            for i in rng.integers(0, n, 200):
                rs, ds = at.translate(float(ra[i]), float(dec[i]), float(r[i]), float(t[i]))
                if not (abs(sphere.angdiff(rs, ro[i])) <= 1e-12 and abs(ds - do[i]) <= 1e-12):
                    o.violate('scalar_vs_array', {'args': [ra[i], dec[i], r[i], t[i]], 'scalar': [rs, ds],
                                                  'array': [ro[i], do[i]]})
            o.n_eval += n + 200
            o.n_nontrivial += n_distinct_rows(ra, dec, r, t)
            o.sample = {'first': [ra[0], dec[0], r[0], t[0]], 'out': [ro[0], do[0]]}
        elif kind == 'int_spellings':
            # whole-degree arguments given as Python ints, numpy integers and integer arrays: same answers as for floats
            rng = rng_for(*case['seed'])
            n = case['n']
            ra1, ra2 = rng.integers(0, 360, n), rng.integers(0, 360, n)
            d1, d2 = rng.integers(-90, 91, n), rng.integers(-90, 91, n)
            r, t = rng.integers(0, 180, n), rng.integers(0, 360, n)
            gf = at.gcd(ra1.astype(float), d1.astype(float), ra2.astype(float), d2.astype(float))
            bf = at.bear(ra1.astype(float), d1.astype(float), ra2.astype(float), d2.astype(float))
            tf = at.translate(ra1.astype(float), d1.astype(float), r.astype(float), t.astype(float))
            for name, conv in (('int64 array', lambda v: v.astype(np.int64)), ('int32 array', lambda v: v.astype(np.int32))):
                gi = at.gcd(conv(ra1), conv(d1), conv(ra2), conv(d2))
                bi = at.bear(conv(ra1), conv(d1), conv(ra2), conv(d2))
                ti = at.translate(conv(ra1), conv(d1), conv(r), conv(t))
                bad = ~((np.abs(gi - gf) <= 1e-12) & ((np.abs(sphere.angdiff(bi, bf)) <= 1e-9) | ~np.isfinite(bf)) &
                        (np.abs(sphere.angdiff(ti[0], tf[0])) <= 1e-9) & (np.abs(ti[1] - tf[1]) <= 1e-12))
                o.count('int_spellings_checked', n)
                for i in np.flatnonzero(bad)[:3]:
                    o.violate('int_spelling_differs_from_float', {'spelling': name, 'args': [int(ra1[i]), int(d1[i]), int(ra2[i]), int(d2[i]), int(r[i]), int(t[i])],
                                                                  'int': [float(gi[i]), float(bi[i]), float(ti[0][i]), float(ti[1][i])],
                                                                  'float': [float(gf[i]), float(bf[i]), float(tf[0][i]), float(tf[1][i])]})
            # arrays whose FIRST element is special (same meridian, the same point twice), mixed int/float arguments, lists of
            # Python ints and the all-pairs matrix of a short list by broadcasting: the first element must not decide the
            # type of the answer
            m = 40
            for variant in ('first_on_meridian', 'first_identical', 'first_antipodal', 'all_pairs_matrix', 'int_dec_float_ra', 'lists_of_ints'):
                A1, B1, A2, B2 = ra1[:m].copy(), d1[:m].copy(), ra2[:m].copy(), d2[:m].copy()
                if variant == 'first_on_meridian':
                    A2[0] = A1[0]
                elif variant == 'first_identical':
                    A2[0], B2[0] = A1[0], B1[0]
                elif variant == 'first_antipodal':
                    A1[0], B1[0], A2[0], B2[0] = 10, 20, 190, -20
                args_f = [v.astype(float) for v in (A1, B1, A2, B2)]
                args_i = [v.astype(np.int64) for v in (A1, B1, A2, B2)]
                if variant == 'all_pairs_matrix':
                    args_f = [args_f[0][:, None], args_f[1][:, None], args_f[0][None, :], args_f[1][None, :]]
                    args_i = [args_i[0][:, None], args_i[1][:, None], args_i[0][None, :], args_i[1][None, :]]
                elif variant == 'int_dec_float_ra':
                    args_i = [args_f[0], args_i[1], args_f[2], args_i[3]]
                elif variant == 'lists_of_ints':
                    args_i = [[int(x) for x in v] for v in (A1, B1, A2, B2)]
                try:
                    gfv = np.asarray(at.gcd(*args_f), dtype=float)
                    giv = np.asarray(at.gcd(*args_i), dtype=float)
                except Exception as e:
                    if variant == 'lists_of_ints':
                        o.count('int_variant_not_accepted_by_subject')       # plain lists are not arrays: recorded, not judged
                        continue
                    o.violate('int_spelling_raises', {'variant': variant, 'exc': repr(e)})
                    continue
                o.count('int_variants_checked')
                if giv.shape != gfv.shape or not np.all(np.abs(giv - gfv) <= 1e-12):
                    k_ = int(np.argmax(np.abs(giv - gfv))) if giv.shape == gfv.shape else 0
                    o.violate('int_spelling_differs_from_float', {'spelling': 'int64, ' + variant, 'shape_int': list(giv.shape),
                                                                  'shape_float': list(gfv.shape),
                                                                  'worst_int': float(giv.ravel()[k_]) if giv.size else None,
                                                                  'worst_float': float(gfv.ravel()[k_]) if gfv.size else None})
            for i in rng.integers(0, n, 300):
                a = (int(ra1[i]), int(d1[i]), int(ra2[i]), int(d2[i]))
                gs, bs = at.gcd(*a), at.bear(*a)
                ts = at.translate(int(ra1[i]), int(d1[i]), int(r[i]), int(t[i]))
                ns = at.gcd(np.int64(a[0]), np.int32(a[1]), np.int64(a[2]), np.int32(a[3]))   # (int16/int8 would make numpy itself work in float32/float16)
                o.count('int_spellings_checked', 3)
                if not (abs(gs - gf[i]) <= 1e-12 and abs(ns - gf[i]) <= 1e-12 and (abs(sphere.angdiff(bs, bf[i])) <= 1e-9 or not np.isfinite(bf[i]))
                        and abs(sphere.angdiff(ts[0], tf[0][i])) <= 1e-9 and abs(ts[1] - tf[1][i]) <= 1e-12):
                    o.violate('int_spelling_differs_from_float', {'spelling': 'python/numpy int scalars', 'args': list(a) + [int(r[i]), int(t[i])],
                                                                  'int': [float(gs), float(bs), float(ts[0]), float(ts[1])],
                                                                  'float': [float(gf[i]), float(bf[i]), float(tf[0][i]), float(tf[1][i])]})
                # the formatters with whole degrees given as ints
                for f, v in ((at.dec2dms, int(d1[i])), (at.dec2hms, int(ra1[i]))):
                    if f(v) != f(float(v)):
                        o.violate('int_spelling_differs_from_float', {'function': f.__name__, 'arg': v, 'int': f(v), 'float': f(float(v))})
            o.n_eval += 3 * n + 900
            o.n_nontrivial += n_distinct_rows(ra1, d1, ra2, d2)
            o.sample = {'n': n, 'first': [int(ra1[0]), int(d1[0]), int(ra2[0]), int(d2[0])], 'gcd': float(gf[0])}
        elif kind == 'catalogue_strings':
            _catalogue_strings(o, case)
        elif kind == 'sexa_carries':
            xs = _carry_values(case['which'])
            _drive_sexa(at, o, xs, case['which'])
            o.n_eval += len(xs)
            o.n_nontrivial += len(set(xs))
            o.sample = {'n': len(xs), 'first': xs[:3], 'formatted': [(at.dec2dms if case['which'] == 'dms' else at.dec2hms)(x) for x in xs[:3]]}
        elif kind == 'sexa_random':
            rng = rng_for(*case['seed'])
            n = case['n']
            xd = list(rng.uniform(-90, 90, n)) + [np.nan, np.inf, -np.inf]
            xh = list(rng.uniform(0, 360, n)) + list(rng.uniform(-360, 0, n // 10)) + [np.nan]
            _drive_sexa(at, o, xd, 'dms')
            _drive_sexa(at, o, xh, 'hms')
            o.n_eval += len(xd) + len(xh)
            o.n_nontrivial += len(set(x for x in xd + xh if np.isfinite(x)))
            o.sample = {'x': xd[0], 'dms': at.dec2dms(xd[0]), 'hms': at.dec2hms(xh[0])}
        return o.result()
    finally:
        set_obs(None)


def _carry_values(which):
    """x just below every class of boundary: second, minute, degree/hour; eps from 1e-3 to 1e-10 arcsec"""
    xs = []
    eps_list = [10.0 ** -k for k in range(3, 11)] + [0.004999, 0.005, 0.0050001, 0.0049]
    if which == 'dms':
        for sign in (1, -1):
            for d in (0, 1, 9, 10, 45, 89):
                for m in (0, 1, 29, 58, 59):
                    for s in (1, 30, 59, 60):
                        for e in eps_list:
                            x = sign * (d + m / 60.0 + (s - e) / 3600.0)
                            if abs(x) <= 90:
                                xs.append(x)
        xs += [-0.0, 0.0, 89.9999999, -89.9999999, 90.0, -90.0, -1e-12, 1e-12, -1e-7, -0.00000138]
        # tiny angles of both signs on a log grid: where the sign and the first printed digit are decided
        for k in range(-90, -19):
            v = 10.0 ** (k / 10.0)
            xs += [v, -v]
        for hund in range(0, 12):                       # every printed hundredth of an arcsecond around zero
            for frac in (0.0, 0.49, 0.51):
                v = (hund + frac) * 0.01 / 3600.0
                xs += [v, -v]
    else:
        for h in (0, 1, 11, 12, 22, 23):
            for m in (0, 1, 29, 58, 59):
                for s in (1, 30, 59, 60):
                    for e in eps_list:
                        xs.append(15.0 * (h + m / 60.0 + (s - e) / 3600.0))
        xs += [0.0, 359.9999999, 359.99999999999, 360.0 - 1e-9, 1e-12, -1e-12, -1e-7, -0.5, -359.9999999, 180.0]
        for k in range(-90, -19):
            v = 10.0 ** (k / 10.0)
            xs += [v, -v, 360.0 - v]
        xs = [x for x in xs if -360 <= x < 360]
    return [float(x) for x in xs]


def _catalogue_strings(o, case):
    import shutil
    from fractions import Fraction
    from astropy.io import fits
    from aegmon.common import scratch_dir
    from aegmon.gen import fields
    from aegmon.props import c03
    from aegmon.refs import sexa
    rng = rng_for(*case['seed'])
    spec = fields.gen_field(rng, n_sources=int(rng.integers(6, 12)), shape=(120, 130), tiny=0, nan_blocks=0, edge=0,
                            snr_range=(30, 200), faint=0.0)
    h, z, truth, img = fields.build(spec)
    rms = float(spec['noise'] or 1.0)
    sc = scratch_dir()
    try:
        fn = os.path.join(sc, 'field.fits')
        fits.PrimaryHDU(img, header=h).writeto(fn, overwrite=True)
        cfg = {'docov': False, 'max_summits': None, 'island': False}
        from AegeanTools.models import ComponentSource
        cat = [s_ for s_ in c03._blind(fn, cfg, rms) if isinstance(s_, ComponentSource)]
        for s_ in cat:
            if case['strings'] == 'empty':
                s_.ra_str = s_.dec_str = ''
            elif case['strings'] == 'stale':
                # positions corrected by hand (2 arcsec) after the strings were made
                s_.dec = float(s_.dec) + 2.0 / 3600.0
                s_.ra = (float(s_.ra) + 2.0 / 3600.0) % 360.0
        outs = c03._prior(fn, {'docov': False, 'stage': case['stage'], 'regroup': True}, rms, cat)
        o.n_eval += 1
        for r in outs:
            if not isinstance(r, ComponentSource) or not (np.isfinite(r.ra) and np.isfinite(r.dec)):
                continue
            o.count('catalogue_string_rows')
            o.n_nontrivial += 1
            ok1, p1, v1 = sexa.parse_hms(r.ra_str) if isinstance(r.ra_str, str) else (False, ['not a string'], None)
            ok2, p2, v2 = sexa.parse_dms(r.dec_str) if isinstance(r.dec_str, str) else (False, ['not a string'], None)
            w = {'stage': case['stage'], 'input_strings': case['strings'], 'ra': float(r.ra), 'dec': float(r.dec),
                 'ra_str': r.ra_str, 'dec_str': r.dec_str}
            if not ok1 or not ok2:
                o.violate('catalogue_string_fields', dict(w, problems=(p1 or []) + (p2 or [])))
                continue
            d1 = (v1 - Fraction(float(r.ra)) * 240) % 86400
            d1 = min(d1, 86400 - d1)
            d2 = abs(v2 - Fraction(float(r.dec)) * 3600)
            if d1 > Fraction(5, 1000) + Fraction(1, 10 ** 7) or d2 > Fraction(5, 1000) + Fraction(1, 10 ** 7):
                o.violate('catalogue_string_is_not_the_rows_coordinate', dict(w, ra_err_s=float(d1), dec_err_arcsec=float(d2)))
        o.sample = {'stage': case['stage'], 'input_strings': case['strings'], 'rows': len(outs)}
    finally:
        shutil.rmtree(sc, ignore_errors=True)


def _padded(o, parse, s, bare, which):
    """the string as it sits in a fixed-width / right-aligned column or a whitespace separated file: surrounding blanks and
    blank separators must not change the parsed value (the parser splits on whitespace) - in particular not its sign"""
    for name, t in (('lead1', ' ' + s), ('lead4', '    ' + s), ('tab', '\t' + s), ('trail', s + '  '), ('both', '  ' + s + ' \n'),
                    ('blanks', s.replace(':', ' ')), ('lead_blanks', '  ' + s.replace(':', ' '))):
        try:
            v = parse(t)
        except Exception as e:
            o.violate('%s_padded_parse_raises' % which, {'string': t, 'spelling': name, 'exc': repr(e)})
            continue
        o.count('parse_padded')
        if v != bare:
            o.violate('%s_padded_parse_differs' % which, {'string': t, 'spelling': name, 'parsed': v, 'bare_string_parsed': bare})


def _drive_sexa(at, o, xs, which):
    for x in xs:
        if which == 'dms':
            s = at.dec2dms(x)
            if np.isfinite(x) and 'X' not in s:
                # Aegean's own parser must invert its own formatter to half a unit of the last digit
                try:
                    back = at.dec2dec(s)
                except Exception as e:
                    o.violate('dms_parse_raises', {'x': repr(x), 'string': s, 'exc': repr(e)})
                    continue
                o.count('parse_dms')
                _padded(o, at.dec2dec, s, back, 'dms')
                err = abs(back - x) * 3600
                o.worst('aegean_parse_dms_arcsec', err)
                if err > 0.005 + 1e-7:      # float slack of the parser's own sum of three terms
                    o.violate('dms_parse_roundtrip', {'x': repr(x), 'string': s, 'parsed': back},
                              'sexagesimal-seconds-carry' if ':60.00' in s else None)
        else:
            s = at.dec2hms(x)
            if np.isfinite(x) and 'X' not in s:
                try:
                    back = at.ra2dec(s)
                except Exception as e:
                    o.violate('hms_parse_raises', {'x': repr(x), 'string': s, 'exc': repr(e)})
                    continue
                o.count('parse_hms')
                _padded(o, at.ra2dec, s, back, 'hms')
                err = abs(sphere.angdiff(back, x)) * 240
                o.worst('aegean_parse_hms_sec', float(err))
                if err > 0.005 + 1e-7:
                    o.violate('hms_parse_roundtrip', {'x': repr(x), 'string': s, 'parsed': back})
