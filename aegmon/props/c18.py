"""C18 - catalogues survive a write/read round trip in every readable format.

The real `save_catalog` writes the catalogue; the files are read back (a) through Aegean's own `load_table` +
`table_to_source_list` (the statement's "reading it back") and (b) directly with astropy / sqlite3 for the
prefix/metadata variants and the sqlite output.  Every cell read back is compared with the attribute of the object
that was written, at the precision class of the statement.
"""
import copy
import os
import shutil
import sqlite3
import traceback
import warnings

import numpy as np

from aegmon.common import Obs, rng_for, scratch_dir

ID = 'C18'
LEVEL = 'exploration'
RULE = ('a case is one catalogue (origin: hand-built objects with Python scalars / objects re-loaded from a csv or '
        'FITS table, i.e. numpy scalar attributes / real finder output on a rendered image; recipe: targeted '
        'first-row-atypical, NaN-in-every-float-field, -1-in-every-err-field, extreme magnitudes, uuid lengths, '
        'single types, or a seeded random mix of 1..3000 rows; write sequences A-then-B to the same file name for all '
        '49 ordered pairs of type mixes); an evaluation is one (catalogue, format, variant, '
        'reader) round trip through save_catalog; non-trivial = the file(s) were written and at least one row was '
        'compared cell by cell; distinct = distinct case dicts (targeted cases do not depend on the seed)')
ASSUMPTIONS = ['astropy.io.ascii / astropy.io.votable / astropy.io.fits / sqlite3 are trusted as *direct* readers of the files',
               'domain: string attributes are non-empty, free of separators and not parseable as numbers; integer '
               'attributes hold integers |x| < 2^31; float attributes hold finite values 1e-30 <= |x| <= 1e30, 0, -1 or NaN',
               'precision classes: text/VOTable/sqlite the identical double (float32 attributes: 6e-8 relative), FITS 6e-8 '
               'relative (2^-24 is the float32 half-ulp); NaN must come back as a real NaN (sqlite: NULL), -1 exactly']
MIN_REACH = {'catalogs:save_catalog': 1, 'catalogs:write_catalog.<locals>.writer': 1, 'catalogs:writeFITSTable': 1,
             'catalogs:writeDB': 1, 'catalogs:load_table': 1, 'catalogs:table_to_source_list': 1,
             'models:classify_catalog': 1}
MIN_COUNTERS = {'roundtrips_aegean_reader': 100, 'roundtrips_direct_reader': 50, 'roundtrips_sqlite': 30,
                'cells_float': 10000, 'cells_nan': 500, 'cells_minus1': 100, 'cells_int': 2000, 'cells_str': 2000,
                'origin_hand': 5, 'origin_reload_csv': 3, 'origin_reload_fits': 2, 'origin_finder': 1,
                'files_checked': 100, 'first_row_atypical_catalogues': 3, 'overwrites': 50, 'sequence_writes': 200, 'sequence_writes_sqlite': 80,
                'text_files_over_1MiB': 5, 'text_files_over_1MiB_csv': 2, 'text_files_over_1MiB_tab': 2,
                'spelled_extension_writes': 40, 'writes_via_direct_writer': 40, 'direct_writeDB_calls': 8,
                'writes_meta_none': 20, 'writes_meta_empty': 20, 'writes_meta_filled': 20, 'cells_blank_string': 200, 'cells_blank_string_identity': 80, 'cells_float32_attribute': 500, 'shared_object_catalogues': 4,
                'object_attributes_rechecked': 2000, 'container_generator': 2, 'container_filter': 2, 'container_chain': 2,
                'container_iterator': 2, 'container_tuple': 2, 'container_ndarray': 2, 'cells_double_exact_compared': 10000}
BATCHES_PER_JOB = 4

TABLE_FORMATS = ['csv', 'tab', 'tex', 'vot', 'xml', 'fits']
DB_FORMATS = ['db', 'sqlite']
INT_FIELDS = {'island', 'source', 'flags', 'components', 'x_width', 'y_width', 'pixels'}
STR_FIELDS = {'ra_str', 'dec_str', 'uuid'}
TOL_DOUBLE = 0.0          # 'equal to full double precision': the same double (csv/tab/tex/vot/sqlite)
TOL_SINGLE = 6e-8
SUFFIX = {'ComponentSource': '_comp', 'IslandSource': '_isle', 'SimpleSource': '_simp'}
DBTABLE = {'ComponentSource': 'components', 'IslandSource': 'islands', 'SimpleSource': 'simples'}


# ----------------------------------------------------------------------------- catalogue construction
def _sexa(x, hours):
    """own formatter (rounds first, then splits) - only used to make plausible strings"""
    if not np.isfinite(x):
        return 'XX:XX:XX.XX'
    sign = '-' if x < 0 else '+'
    v = abs(x) / (15.0 if hours else 1.0)
    cs = int(round(v * 360000))
    d, r = divmod(cs, 360000)
    m, r = divmod(r, 6000)
    s = '%02d:%02d:%05.2f' % (d, m, r / 100.0)
    return s if hours else sign + s


def _uuid(rng, length=None):
    hexd = '0123456789abcdef'
    n = int(length if length is not None else rng.choice([3, 8, 12, 36, 36, 36, 36, 60]))
    n = max(3, n)
    k = int(rng.integers(1, n - 1))
    left = ''.join(rng.choice(list(hexd), k))
    right = ''.join(rng.choice(list(hexd), n - k - 1))
    return left + '-' + right        # a dash between two hex runs: never parseable as a number


def _float(rng, name, opt):
    u = rng.random()
    if u < opt['p_nan']:
        return float('nan')
    u = rng.random()
    if name.startswith('err_') and u < opt['p_m1']:
        return -1 if rng.random() < 0.5 else -1.0
    if name.startswith('psf_') and u < opt.get('p_int0', 0.0):
        return 0                                       # the integer 0 Aegean stores when no beam is known
    v = rng.random()
    if v < 0.04:
        return 0.0
    if v < 0.04 + opt['p_extreme']:
        return float(rng.choice([-1.0, 1.0]) * 10.0 ** rng.uniform(-30, 30))
    if v < 0.12 + opt['p_extreme']:
        return float(rng.integers(-5, 50))
    if name == 'ra':
        return float(rng.uniform(0, 360))
    if name == 'dec':
        return float(rng.uniform(-90, 90))
    if name in ('a', 'b', 'psf_a', 'psf_b'):
        return float(rng.uniform(1, 600))
    if name in ('pa', 'psf_pa'):
        return float(rng.uniform(-90, 90))
    if 'flux' in name or name == 'peak_pixel':
        return float(rng.choice([-1.0, 1.0], p=[0.3, 0.7]) * np.exp(rng.normal(-3, 3)))
    return float(rng.normal(0, 1) * 10.0 ** rng.integers(-6, 3))


def _make(cls, rng, opt, idx):
    s = cls()
    for n in cls.names:
        if n in STR_FIELDS:
            continue
        if n in INT_FIELDS:
            if n == 'island':
                v = int(idx if rng.random() < 0.8 else rng.integers(-1000, 10 ** 6))
            elif n == 'source':
                v = int(rng.integers(0, 30))
            elif n == 'flags':
                v = int(rng.choice([0, 1, 2, 4, 6, 7, 16, 20, 21, 64, 127]))
            elif n == 'pixels':
                v = int(rng.integers(1, 10 ** 7))
            else:
                v = int(rng.integers(1, 5000))
            setattr(s, n, v)
        else:
            setattr(s, n, _float(rng, n, opt))
    if hasattr(s, 'ra_str'):
        # strings of the usual shape (extreme ra/dec values are folded into range for the string only)
        ra, dec = float(s.ra), float(s.dec)
        s.ra_str = _sexa(ra % 360.0 if np.isfinite(ra) else ra, True)
        s.dec_str = _sexa((dec + 90.0) % 180.0 - 90.0 if np.isfinite(dec) else dec, False)
    s.uuid = _uuid(rng, opt.get('uuid_len'))
    return s


def _atypical_first(cls, rng, flavour):
    """a first row that is atypical *in value*"""
    s = _make(cls, rng, dict(p_nan=0, p_m1=0, p_extreme=0), 0)
    for n in cls.names:
        if n in STR_FIELDS or n in INT_FIELDS:
            continue
        if flavour == 'nan':
            setattr(s, n, float('nan'))
        elif flavour == 'minus1':
            setattr(s, n, -1 if n.startswith('err_') else getattr(s, n))
        elif flavour == 'zero':
            setattr(s, n, 0.0)
        elif flavour == 'int0psf':
            if n.startswith('psf_'):
                setattr(s, n, 0)
    if flavour == 'nan' and hasattr(s, 'ra_str'):
        s.ra_str = 'XX:XX:XX.XX'       # what dec2hms/dec2dms return for a non-finite coordinate
        s.dec_str = 'XX:XX:XX.XX'
    if flavour == 'shortuuid':
        s.uuid = 'a-1'
    return s


def _classes():
    from AegeanTools.models import ComponentSource, IslandSource, SimpleSource
    return {'comp': ComponentSource, 'isle': IslandSource, 'simp': SimpleSource}


def _hand_catalogue(case, rng):
    cl = _classes()
    recipe = case.get('recipe', 'random')
    typical = dict(p_nan=0.0, p_m1=0.0, p_extreme=0.0)
    cat = []
    if recipe == 'random':
        n = case['n']
        mix = case.get('mix', ['comp', 'isle', 'simp'])
        opt = dict(p_nan=case.get('p_nan', 0.05), p_m1=case.get('p_m1', 0.15), p_extreme=case.get('p_extreme', 0.2),
                   p_int0=case.get('p_int0', 0.03))
        for i in range(n):
            # with `every_type` each type of the mix is present (round robin), otherwise drawn at random
            key = mix[i % len(mix)] if case.get('every_type') else mix[int(rng.integers(0, len(mix)))]
            cat.append(_make(cl[key], rng, opt, i))
    elif recipe.startswith('first_'):
        flav = recipe[len('first_'):]
        for key in case.get('mix', ['comp', 'isle', 'simp']):
            cat.append(_atypical_first(cl[key], rng, flav))
            for i in range(1, 6):
                cat.append(_make(cl[key], rng, typical, i))
    elif recipe == 'nan_every_field':
        for key in ('comp', 'isle', 'simp'):
            fl = [n for n in cl[key].names if n not in STR_FIELDS and n not in INT_FIELDS]
            cat.append(_make(cl[key], rng, typical, 0))
            for i, n in enumerate(fl):
                s = _make(cl[key], rng, typical, i + 1)
                setattr(s, n, float('nan'))
                if n in ('ra', 'dec') and hasattr(s, 'ra_str'):
                    setattr(s, n + '_str', 'XX:XX:XX.XX')
                cat.append(s)
    elif recipe == 'minus1_every_err':
        for key in ('comp', 'isle', 'simp'):
            fl = [n for n in cl[key].names if n.startswith('err_')]
            cat.append(_make(cl[key], rng, typical, 0))
            for i, n in enumerate(fl):
                for val in (-1, -1.0):
                    s = _make(cl[key], rng, typical, i + 1)
                    setattr(s, n, val)
                    cat.append(s)
            s = _make(cl[key], rng, typical, 99)
            for n in fl:
                setattr(s, n, -1)
            cat.append(s)
    elif recipe == 'extreme':
        opt = dict(p_nan=0.02, p_m1=0.05, p_extreme=0.9)
        for i in range(40):
            cat.append(_make(cl[('comp', 'isle', 'simp')[i % 3]], rng, opt, i))
    elif recipe == 'uuid_lengths':
        for key in ('comp', 'isle', 'simp'):
            for i, ln in enumerate(case['lengths']):
                o2 = dict(typical)
                o2['uuid_len'] = ln
                cat.append(_make(cl[key], rng, o2, i))
    elif recipe == 'typed':
        # attribute TYPES as a stratum: np.float32 / np.float64 / Python float, numpy / Python ints
        opt = dict(p_nan=0.05, p_m1=0.1, p_extreme=0.0, p_int0=0.0)
        mode = case.get('typed', 'rows')
        f32cols = ('background', 'local_rms', 'peak_flux', 'eta', 'peak_pixel', 'residual_std')
        for i in range(case.get('n', 24)):
            s = _make(cl[case.get('mix', ['comp', 'isle', 'simp'])[i % len(case.get('mix', ['comp', 'isle', 'simp']))]], rng, opt, i)
            for nme in type(s).names:
                v = getattr(s, nme)
                if nme in STR_FIELDS:
                    continue
                if nme in INT_FIELDS:
                    if i % 3 == 1:
                        setattr(s, nme, np.int64(v))
                    elif i % 3 == 2:
                        setattr(s, nme, np.int32(v))
                    continue
                if mode == 'columns':
                    # whole columns of float32, as the finder makes them from a 32-bit image
                    if nme in f32cols:
                        setattr(s, nme, np.float32(rng.normal(0, 1) * 10.0 ** rng.integers(-4, 3)) if v == v and v != -1 else np.float32(v))
                    elif i % 2:
                        setattr(s, nme, np.float64(v))
                else:
                    if i % 4 == 0 or (i % 4 == 1 and nme in f32cols):
                        setattr(s, nme, np.float32(rng.normal(0, 1) * 10.0 ** rng.integers(-4, 3)) if v == v and v != -1 else np.float32(v))
                    elif i % 4 == 2:
                        setattr(s, nme, np.float64(v))
            cat.append(s)
    elif recipe == 'blank_strings':
        # '' is the constructors' default for ra_str/dec_str (hand-made sources, user tables); uuid may be blank too
        mode = case['blank']
        for key in case.get('mix', ['comp', 'isle', 'simp']):
            for i in range(6):
                s = _make(cl[key], rng, typical, i)
                hit = {'some': i in (1, 4), 'first': i == 0, 'all': True, 'last': i == 5}[mode]
                if hit:
                    if hasattr(s, 'ra_str'):
                        s.ra_str, s.dec_str = '', ''
                    if case.get('blank_uuid') and (mode != 'all'):
                        s.uuid = ''
                if mode == 'some' and i == 2 and hasattr(s, 'ra_str'):
                    s.ra, s.ra_str = float('nan'), ''            # blank string with a NaN position
                cat.append(s)
    elif recipe == 'clean':
        # no NaN, strings of constant width: used as the basis of the FITS re-load origin
        for i in range(case.get('n', 30)):
            cat.append(_make(cl[('comp', 'isle', 'simp')[i % 3]], rng, dict(p_nan=0, p_m1=0.1, p_extreme=0.1), i))
    else:
        raise ValueError(recipe)
    return cat


def _reload(cat, ext, workdir):
    """write with Aegean, read with Aegean: objects whose attributes are numpy scalars"""
    from AegeanTools import catalogs
    from AegeanTools.models import classify_catalog
    cl = _classes()
    base = os.path.join(workdir, 'origin.' + ext)
    catalogs.save_catalog(base, copy.deepcopy(cat))
    out = []
    for key, suffix, group in zip(('comp', 'isle', 'simp'), ('_comp', '_isle', '_simp'), classify_catalog(cat)):
        if not group:
            continue
        t = catalogs.load_table(os.path.join(workdir, 'origin%s.%s' % (suffix, ext)))
        out.extend(catalogs.table_to_source_list(t, src_type=cl[key]))
    return out


def _finder_catalogue(case, rng, workdir):
    import logging
    from astropy.io import fits
    from aegmon.refs import render, wcs_zenithal as wz
    from AegeanTools.source_finder import SourceFinder
    shape = (96, 96)
    h = wz.make_header(crval=(float(rng.uniform(0, 360)), float(rng.uniform(-60, 60))), crpix=(48, 48),
                       cdelt=(-0.005, 0.005), shape=shape, beam=(0.02, 0.015, 20.0))
    z = wz.ZenithalWCS(h)
    srcs = []
    for k in range(case.get('nsrc', 8)):
        i, j = rng.uniform(12, 84, 2)
        ra, dec = z.index2sky(i, j)
        srcs.append(dict(ra=float(ra), dec=float(dec), peak=float(rng.uniform(0.3, 3)) * (1 if k % 4 else -1),
                         a=72.0, b=54.0, pa=20.0))
    img = render.render(z, shape, srcs) + render.correlated_noise(rng, shape, 0.01)
    f = os.path.join(workdir, 'finder_image.fits')
    fits.writeto(f, img.astype(np.float32), h, overwrite=True)
    sf = SourceFinder(log=logging.getLogger('aegmon.c18'))
    found = sf.find_sources_in_image(f, rms=0.01, bkg=0.0, cores=1, doislandflux=True)
    os.remove(f)
    return list(found)


def build_catalogue(case, workdir):
    rng = rng_for(*case['seed'])
    origin = case['origin']
    if origin == 'finder':
        return _finder_catalogue(case, rng, workdir)
    cat = _hand_catalogue(case, rng)
    if origin == 'hand':
        return cat
    if origin == 'reload_csv':
        return _reload(cat, 'csv', workdir)
    if origin == 'reload_fits':
        return _reload(cat, 'fits', workdir)
    raise ValueError(origin)


# ----------------------------------------------------------------------------- readers
def _is_real(x):
    if x is np.ma.masked or isinstance(x, (bool, np.bool_)):
        return False
    return isinstance(x, (int, float, np.integer, np.floating))


def _unmask(v, name):
    """for *direct* readers only: a masked float cell is the reader's representation of NaN/null in the file"""
    if v is np.ma.masked:
        return float('nan') if (name not in STR_FIELDS and name not in INT_FIELDS) else v
    return v


def _read_direct(fmt, path):
    """-> (colnames, list of row tuples) with trusted readers"""
    if fmt in ('csv', 'tab', 'tex'):
        from astropy.io import ascii
        t = ascii.read(path)
        return list(t.colnames), [tuple(r[c] for c in t.colnames) for r in t]
    if fmt in ('vot', 'xml'):
        from astropy.io.votable import parse_single_table
        t = parse_single_table(path).to_table(use_names_over_ids=True)
        return list(t.colnames), [tuple(r[c] for c in t.colnames) for r in t]
    if fmt == 'fits':
        from astropy.io import fits
        with fits.open(path) as hl:
            d = hl[1].data
            names = list(d.names)
            rows = [tuple(d[c][i] for c in names) for i in range(len(d))]
        return names, rows
    raise ValueError(fmt)


# ----------------------------------------------------------------------------- the catalogue argument
CONTAINERS = ['list', 'tuple', 'ndarray', 'generator', 'filter', 'chain', 'iterator']


def _meta_for(ctx, default):
    """metadata handed to the writer: the variant's default, or None / {} / a filled dict when ctx['meta_mode'] says so"""
    mm = ctx.get('meta_mode')
    if mm == 'none':
        return None
    if mm == 'empty':
        return {}
    if mm == 'filled':
        return {'PROGRAM': 'aegmon', 'OBSERVER': 'nobody', 'NOTE': 'y' * 40}
    return default


def _save(catalogs, path, arg, fmt, meta, prefix, ctx):
    """through save_catalog, or (ctx['writer'] == 'direct') through the writer functions the module exposes:
    writeDB(filename, catalog, meta) and write_catalog(filename, catalog, fmt, meta, prefix)"""
    if ctx.get('writer') != 'direct':
        return catalogs.save_catalog(path, arg, meta=meta, prefix=prefix)
    if fmt in DB_FORMATS:
        return catalogs.writeDB(path, arg, meta)
    return catalogs.write_catalog(path, arg, fmt={'csv': 'csv', 'tab': 'tab', 'tex': 'latex'}.get(fmt, fmt),
                                  meta=meta, prefix=prefix)


def _catalog_arg(cat, ctx, final=False):
    """what is handed to save_catalog: by default a deep copy in a list (a write may sanitise the objects in place);
    with ctx['shared_objects'] the final write gets the caller's own objects; ctx['container'] picks the kind of iterable"""
    import itertools
    objs = list(cat) if (final and ctx.get('shared_objects')) else copy.deepcopy(list(cat))
    kind = ctx.get('container', 'list')
    if kind == 'list':
        return objs
    if kind == 'tuple':
        return tuple(objs)
    if kind == 'ndarray':
        a = np.empty(len(objs), dtype=object)
        a[:] = objs
        return a
    if kind == 'generator':
        return (s_ for s_ in objs)
    if kind == 'filter':
        return filter(lambda s_: True, objs)
    if kind == 'chain':
        h = len(objs) // 2
        return itertools.chain(objs[:h], objs[h:])
    if kind == 'iterator':
        return iter(objs)
    raise ValueError(kind)


def _check_objects_unchanged(o, cat, exp, fmt, ctx):
    """after a write the caller's objects must hold the same values (the type may be widened, e.g. float32 -> float64,
    but only exactly)"""
    idx = {'ComponentSource': 0, 'IslandSource': 0, 'SimpleSource': 0}
    for s_ in cat:
        cn = type(s_).__name__
        before = exp[cn][idx[cn]]
        idx[cn] += 1
        for n, b in before.items():
            a = getattr(s_, n)
            o.count('object_attributes_rechecked')
            if isinstance(b, str) or isinstance(a, str):
                same = isinstance(a, str) and isinstance(b, str) and str(a) == str(b)
            else:
                fa, fb = float(a), float(b)
                same = (fa == fb) or (fa != fa and fb != fb)
            if not same:
                _viol(o, 'object_changed_by_write', dict(ctx, format=fmt, attribute=n, type=cn, before=repr(b),
                                                         before_type=type(b).__name__, after=repr(a),
                                                         after_type=type(a).__name__))
                return


# ----------------------------------------------------------------------------- oracle
def _viol(o, clause, wit):
    """record at most one witness per (clause, format, reader, variant, attribute) and case; count all"""
    seen = o.__dict__.setdefault('_seen', {})
    key = (clause, wit.get('format'), wit.get('reader'), wit.get('variant'),
           wit.get('attribute') if clause in ('string_cell', 'float_cell', 'minus1_not_preserved') else None)
    seen[key] = seen.get(key, 0) + 1
    if seen[key] <= 1 and len(o.violations) < 24:
        o.violate(clause, wit, _mechanism(clause, wit))
    else:
        o.count('violations_' + clause)
        if not o.violations:
            o.violate(clause, wit, _mechanism(clause, wit))


def _mechanism(clause, wit):
    """mechanism key, a predicate over the witness alone"""
    if clause == 'nan_not_preserved' and wit.get('read_type') == 'MaskedConstant':
        return 'masked-cell-not-nan'                                   # D23
    if clause == 'string_cell' and wit.get('format') == 'fits' and wit.get('read_type') in ('str', 'str_'):
        w, r = wit.get('written', ''), wit.get('read', '')
        w = w[w.find("'") + 1:w.rfind("'")]
        r = r[r.find("'") + 1:r.rfind("'")]
        f = wit.get('first_row_value', '')
        f = f[f.find("'") + 1:f.rfind("'")]
        if r and len(r) < len(w) and w.startswith(r) and len(r) == len(f):
            return 'fits-string-width-first-row'                       # D26
    if clause in ('int_cell', 'minus1_not_preserved') and wit.get('reader') == 'sqlite' and wit.get('read_type') == 'bytes' \
            and wit.get('written_type', '').startswith('int') and wit.get('written_type') != 'int':
        return 'sqlite-numpy-int-blob'                                 # D27
    return None


def _cmp_cell(o, fmt, how, name, exp, got, ctx):
    """compare one cell; `ctx` is merged into the witness"""
    def wit(**kw):
        w = {'format': fmt, 'reader': how, 'attribute': name, 'written': repr(exp), 'written_type': type(exp).__name__,
             'read': repr(got)[:80], 'read_type': type(got).__name__}
        w.update(ctx)
        w.update(kw)
        return w

    if isinstance(exp, str) and exp == '':
        # a blank (but present) string: VOTable and sqlite keep it as '', the text formats and FITS have no way to tell
        # blank from missing (it is read back as a missing cell) - but nothing may be invented in its place
        o.count('cells_blank_string')
        blank = (isinstance(got, str) and str(got) == '')
        missing = got is None or got is np.ma.masked or (isinstance(got, (float, np.floating)) and np.isnan(got))
        if fmt in ('vot', 'xml') or how == 'sqlite':
            o.count('cells_blank_string_identity')
            ok = blank or (how == 'direct' and missing)
        else:
            ok = blank or missing
        if not ok:
            _viol(o, 'blank_string_cell', wit())
        return
    if isinstance(exp, str):
        o.count('cells_str')
        if not (isinstance(got, str) and str(got) == str(exp)):
            _viol(o, 'string_cell', wit())
        return
    if name in INT_FIELDS and isinstance(exp, (int, np.integer)):
        o.count('cells_int')
        if not (_is_real(got) and got == exp):
            _viol(o, 'int_cell', wit())
        return
    # numeric (float class); the written value may be a Python int (-1, 0)
    x = float(exp)
    if np.isnan(x):
        o.count('cells_nan')
        ok = (got is None) if how == 'sqlite' else (_is_real(got) and np.isnan(got))
        if not ok:
            _viol(o, 'nan_not_preserved', wit())
        return
    o.count('cells_float')
    if not _is_real(got):
        _viol(o, 'minus1_not_preserved' if x == -1 else 'float_cell', wit())
        return
    g = float(got)
    if x == -1:
        o.count('cells_minus1')
        if g != -1:
            _viol(o, 'minus1_not_preserved', wit())
        return
    if isinstance(exp, np.float32):
        # a float32 attribute: a double store (sqlite) must hold its exact widening; everywhere else it survives as
        # a float32, i.e. narrowing what was read gives the identical float32
        o.count('cells_float32_attribute')
        ok = (g == x) if how == 'sqlite' else (np.float32(g) == exp)
        o.worst('float32_attribute_rel_err', abs(g - x) / abs(x) if x != 0 else abs(g - x))
        if not ok:
            _viol(o, 'float_cell', wit(rel_err=abs(g - x) / abs(x) if x != 0 else abs(g - x),
                                       rule='exact widening' if how == 'sqlite' else 'identical after narrowing to float32'))
        return
    single = (fmt == 'fits')
    tol = TOL_SINGLE if single else TOL_DOUBLE
    err = abs(g - x)
    if x != 0:
        if single:
            o.worst('rel_err_single_over_6e-8', err / abs(x) / tol)
        else:
            o.worst('double_error_in_ulp', err / np.spacing(abs(x)))
            o.count('cells_double_exact_compared')
    if not (err <= tol * abs(x)):
        _viol(o, 'float_cell', wit(rel_err=(err / abs(x)) if x != 0 else err, tolerance=tol))


def _expected(cat):
    """snapshot (class name, {attribute: value}) of the pristine catalogue, per class in catalogue order"""
    per = {'ComponentSource': [], 'IslandSource': [], 'SimpleSource': []}
    for s in cat:
        per[type(s).__name__].append({n: getattr(s, n) for n in type(s).names})
    return per


def _compare_rows(o, fmt, how, clsname, names, exp_rows, got_rows, ctx):
    if len(exp_rows) != len(got_rows):
        _viol(o, 'row_count', dict(ctx, format=fmt, reader=how, type=clsname, written=len(exp_rows), read=len(got_rows)))
        return
    first = exp_rows[0]
    nviol = len(o.violations)
    for i, (e, g) in enumerate(zip(exp_rows, got_rows)):
        for n in names:
            c = {'row': i, 'type': clsname, 'rows': len(exp_rows),
                 'first_row_value': repr(first[n])}
            c.update(ctx)
            _cmp_cell(o, fmt, how, n, e[n], g[n], c)
        if len(o.violations) > nviol + 12:
            # enough witnesses of this file; keep counting cheaply is not needed
            break


def _roundtrip_table(o, cat, exp, fmt, variant, workdir, ctx, prior=None):
    from AegeanTools import catalogs
    cl = {'ComponentSource': 'comp', 'IslandSource': 'isle', 'SimpleSource': 'simp'}
    classes = _classes()
    d = os.path.join(workdir, '%s_%s' % (fmt, variant))
    os.makedirs(d)
    # `fmt` is the extension as spelled by the caller (OUT.CSV, Field.Vot ...): the documented per-type names keep it
    ext, fmt, stem = fmt, fmt.lower(), ctx.get('stem', 'cat')
    if ext != fmt:
        o.count('spelled_extension_writes')
        ctx = dict(ctx, file_name=stem + '.' + ext)
    base = os.path.join(d, stem + '.' + ext)
    prefix = 'pfx' if variant == 'prefix_meta' else None
    meta = {'PROGRAM': 'aegmon', 'RUN-AS': '--input a.fits --table out.%s' % fmt, 'NOTE': 'x' * 90} \
        if variant == 'prefix_meta' else None
    meta = _meta_for(ctx, meta)
    ctx = dict(ctx, variant=variant)
    try:
        with warnings.catch_warnings():
            warnings.simplefilter('ignore')
            if prior is not None:
                # write sequence: another catalogue (other type mix) was saved under the same name before
                _save(catalogs, base, _catalog_arg(prior, ctx), fmt, copy.copy(meta), prefix, ctx)
                o.count('overwrites')
                o.count('sequence_writes')
            elif variant == 'plain':
                # the files already exist (other content, other order) when the catalogue is written: the
                # second write must replace them
                _save(catalogs, base, _catalog_arg(cat[::-1][:max(1, len(cat) - 1)] + cat[:1], ctx), fmt, copy.copy(meta),
                      prefix, ctx)
                o.count('overwrites')
            _save(catalogs, base, _catalog_arg(cat, ctx, final=True), fmt, copy.copy(meta), prefix, ctx)
            o.count('writes_via_' + ('direct_writer' if ctx.get('writer') == 'direct' else 'save_catalog'))
            o.count('writes_meta_' + ctx.get('meta_mode', 'variant_default'))
            if ctx.get('shared_objects'):
                _check_objects_unchanged(o, cat, exp, fmt, ctx)
    except Exception:
        _viol(o, 'raises', dict(ctx, format=fmt, where='save_catalog', traceback=traceback.format_exc()[-700:]))
        return
    want = sorted('%s%s.%s' % (stem, SUFFIX[k], ext) for k in exp if exp[k])
    have = sorted(os.listdir(d))
    o.count('files_checked', len(want))
    # a sibling file left by an earlier catalogue of another type mix is not judged (the statement is about the
    # files a write produces); every file this write produces must exist and hold exactly this catalogue
    stale_ok = set('%s%s.%s' % (stem, SUFFIX[type(s_).__name__], ext) for s_ in (prior or []))
    if not (set(want) <= set(have) and set(have) <= set(want) | stale_ok):
        _viol(o, 'files', dict(ctx, format=fmt, expected=want, found=have))
    for clsname, rows in exp.items():
        if not rows:
            continue
        path = os.path.join(d, '%s%s.%s' % (stem, SUFFIX[clsname], ext))
        if not os.path.exists(path):
            continue
        names = classes[cl[clsname]].names
        o.n_eval += 1
        if fmt in ('csv', 'tab', 'tex'):
            size = os.path.getsize(path)
            o.worst('largest_text_file_bytes', size)
            if size > 2 ** 20:
                o.count('text_files_over_1MiB')
                o.count('text_files_over_1MiB_' + fmt)
        # (a) Aegean's own reader (cannot map prefixed columns back, so only for the plain variant)
        if prefix is None:
            try:
                with warnings.catch_warnings():
                    warnings.simplefilter('ignore')
                    t = catalogs.load_table(path)
                    back = catalogs.table_to_source_list(t, src_type=classes[cl[clsname]])
            except Exception:
                _viol(o, 'raises', dict(ctx, format=fmt, where='load_table/table_to_source_list',
                                         traceback=traceback.format_exc()[-700:]))
                continue
            o.count('roundtrips_aegean_reader')
            o.count('roundtrips_%s' % fmt)
            wrong = [type(b).__name__ for b in back if type(b).__name__ != clsname]
            if wrong:
                _viol(o, 'source_type', dict(ctx, format=fmt, expected=clsname, found=wrong[:3]))
            got = [{n: getattr(b, n) for n in names} for b in back]
            _compare_rows(o, fmt, 'aegean', clsname, names, rows, got, ctx)
            o.n_nontrivial += 1
        # (b) direct reader
        if prefix is not None or fmt in ('vot', 'fits'):
            with warnings.catch_warnings():
                warnings.simplefilter('ignore')
                cols, raw = _read_direct(fmt, path)
            o.count('roundtrips_direct_reader')
            wantcols = [(prefix + '_' if prefix else '') + n for n in names]
            if cols != wantcols:
                _viol(o, 'column_names', dict(ctx, format=fmt, expected=wantcols, found=cols))
                continue
            got = [{n: _unmask(v, n) for n, v in zip(names, r)} for r in raw]
            _compare_rows(o, fmt, 'direct', clsname, names, rows, got, ctx)
            if prefix is not None:
                o.n_nontrivial += 1
    shutil.rmtree(d, ignore_errors=True)


def _roundtrip_db(o, cat, exp, fmt, workdir, ctx, prior=None):
    from AegeanTools import catalogs
    classes = _classes()
    cl = {'ComponentSource': 'comp', 'IslandSource': 'isle', 'SimpleSource': 'simp'}
    d = os.path.join(workdir, fmt)
    os.makedirs(d)
    ext, fmt, stem = fmt, fmt.lower(), ctx.get('stem', 'cat')
    if ext != fmt:
        o.count('spelled_extension_writes')
        ctx = dict(ctx, file_name=stem + '.' + ext)
    path = os.path.join(d, stem + '.' + ext)
    ctx = dict(ctx, variant='plain')
    try:
        with warnings.catch_warnings():
            warnings.simplefilter('ignore')
            # to be replaced: the same catalogue reversed, or (write sequence) a catalogue of another type mix
            _save(catalogs, path, _catalog_arg(prior if prior is not None else cat[::-1], ctx), fmt, {'PROGRAM': 'other'}, None, ctx)
            o.count('overwrites')
            if prior is not None:
                o.count('sequence_writes')
                o.count('sequence_writes_sqlite')
            dbmeta = _meta_for(ctx, {'PROGRAM': 'aegmon'})
            _save(catalogs, path, _catalog_arg(cat, ctx, final=True), fmt, dbmeta, None, ctx)
            o.count('writes_via_' + ('direct_writer' if ctx.get('writer') == 'direct' else 'save_catalog'))
            o.count('writes_meta_' + ctx.get('meta_mode', 'variant_default'))
            if ctx.get('writer') == 'direct':
                o.count('direct_writeDB_calls')
            if ctx.get('shared_objects'):
                _check_objects_unchanged(o, cat, exp, fmt, ctx)
    except Exception:
        _viol(o, 'raises', dict(ctx, format=fmt, where='save_catalog', traceback=traceback.format_exc()[-700:]))
        return
    have = sorted(os.listdir(d))
    o.count('files_checked')
    if have != [stem + '.' + ext]:
        _viol(o, 'files', dict(ctx, format=fmt, expected=[stem + '.' + ext], found=have))
        return
    con = sqlite3.connect(path)
    try:
        tables = sorted(r[0] for r in con.execute("SELECT name FROM sqlite_master WHERE type='table'"))
        want = sorted([DBTABLE[k] for k in exp if exp[k]] + ['meta'])
        if ctx.get('writer') == 'direct' and ctx.get('meta_mode') == 'empty' and 'meta' not in tables:
            want.remove('meta')         # an empty meta table is not demanded when no metadata was given to writeDB
        if tables != want:
            stale = {}
            for tn in tables:
                if tn not in want:
                    cols = [c[1] for c in con.execute('PRAGMA table_info(%s)' % tn)]
                    stale[tn] = {'rows': con.execute('SELECT COUNT(*) FROM %s' % tn).fetchone()[0],
                                 'uuids': [r[0] for r in con.execute('SELECT uuid FROM %s LIMIT 3' % tn)]
                                 if 'uuid' in cols else None}
            _viol(o, 'sqlite_tables', dict(ctx, format=fmt, expected=want, found=tables, rows_not_in_catalogue=stale))
        if prior is not None and ctx.get('meta_mode') in (None, 'filled'):
            got_meta = dict(con.execute('SELECT key, val FROM meta').fetchall()) if 'meta' in tables else {}
            if got_meta.get('PROGRAM') != 'aegmon':
                _viol(o, 'sqlite_meta_stale', dict(ctx, format=fmt, meta=got_meta))
        for clsname, rows in exp.items():
            if not rows or DBTABLE[clsname] not in tables:
                continue
            names = classes[cl[clsname]].names
            cur = con.execute('SELECT * FROM %s ORDER BY rowid' % DBTABLE[clsname])
            cols = [c[0] for c in cur.description]
            raw = cur.fetchall()
            o.n_eval += 1
            o.count('roundtrips_sqlite')
            if cols != list(names):
                _viol(o, 'column_names', dict(ctx, format=fmt, expected=list(names), found=cols))
                continue
            got = [dict(zip(names, r)) for r in raw]
            _compare_rows(o, fmt, 'sqlite', clsname, names, rows, got, ctx)
            o.n_nontrivial += 1
    finally:
        con.close()
    shutil.rmtree(d, ignore_errors=True)


# ----------------------------------------------------------------------------- workload
def cases(seed, tier):
    out = []
    quick = tier == 'quick'

    def add(origin, formats=None, variants=('plain', 'prefix_meta'), **kw):
        c = {'origin': origin, 'formats': formats or (TABLE_FORMATS + DB_FORMATS), 'variants': list(variants)}
        c.update(kw)
        c.setdefault('seed', [0, kw.get('recipe', 'random'), origin])
        out.append(c)

    # --- targeted, seed independent, both tiers
    for flav in ('nan', 'minus1', 'zero', 'int0psf', 'shortuuid'):
        add('hand', recipe='first_' + flav)
        for key in ('comp', 'isle', 'simp'):
            add('hand', recipe='first_' + flav, mix=[key], variants=('plain',), seed=[0, 'first', flav, key])
    add('reload_csv', recipe='first_nan')
    add('reload_csv', recipe='first_int0psf')
    add('hand', recipe='nan_every_field')
    add('reload_csv', recipe='nan_every_field')
    add('hand', recipe='minus1_every_err')
    add('reload_csv', recipe='minus1_every_err')
    add('hand', recipe='extreme')
    add('reload_csv', recipe='extreme')
    add('hand', recipe='uuid_lengths', lengths=[3, 36, 60, 8])
    add('hand', recipe='uuid_lengths', lengths=[60, 36, 3], seed=[0, 'uuid', 2])
    add('reload_csv', recipe='uuid_lengths', lengths=[3, 36, 60, 8])
    add('reload_fits', recipe='clean', n=30)
    add('reload_fits', recipe='clean', n=3, seed=[0, 'clean', 3])
    for n in (1, 2):
        for mix in (['comp'], ['isle'], ['simp']):
            add('hand', recipe='random', n=n, mix=mix, seed=[0, 'tiny', n, mix[0]], variants=('plain',))
    add('finder', recipe='finder', nsrc=8, seed=[0, 'finder'])
    # attribute types; the same objects written to every format in turn (sqlite first: its writer sanitises in place)
    seq = ['db', 'csv', 'vot', 'fits', 'sqlite', 'tab', 'tex', 'xml']
    for mode in ('rows', 'columns'):
        add('hand', recipe='typed', typed=mode, n=24, variants=('plain',), seed=[0, 'typed', mode])
        add('hand', recipe='typed', typed=mode, n=24, formats=seq, shared_objects=True, variants=('plain',),
            seed=[0, 'typed-shared', mode])
        add('hand', recipe='typed', typed=mode, n=9, mix=['comp'], formats=seq[::-1], shared_objects=True, variants=('plain',),
            seed=[0, 'typed-shared-rev', mode])
    add('finder', recipe='finder', nsrc=8, formats=seq, shared_objects=True, variants=('plain',), seed=[0, 'finder', 'shared'])
    # the container handed to save_catalog
    for cont in CONTAINERS:
        add('hand', recipe='random', n=7, mix=['comp', 'isle', 'simp'], every_type=True, container=cont,
            seed=[0, 'container', cont])
        add('reload_csv', recipe='random', n=2, mix=['comp'], container=cont, variants=('plain',), seed=[0, 'container1', cont])
    # blank-but-present strings (an entirely blank string column cannot be written to FITS by the unchanged code:
    # observation outside the statement, FITS is left out for those)
    for mode in ('some', 'first', 'last', 'all'):
        fm = [f for f in TABLE_FORMATS + DB_FORMATS if not (mode == 'all' and f == 'fits')]
        add('hand', recipe='blank_strings', blank=mode, formats=fm, seed=[0, 'blank', mode])
        if mode != 'all':
            add('hand', recipe='blank_strings', blank=mode, blank_uuid=True, formats=fm, variants=('plain',),
                seed=[0, 'blank-uuid', mode])
    add('hand', recipe='blank_strings', blank='all', mix=['comp'], formats=['vot', 'xml', 'db', 'csv'], variants=('plain',),
        seed=[0, 'blank', 'all', 'comp'])
    # with and without metadata, through save_catalog and through the writer functions themselves
    # (writeDB(meta=None), its own default, raises TypeError in the unchanged code: not accepted, not driven)
    for writer in ('save_catalog', 'direct'):
        for mm in ('none', 'empty', 'filled'):
            fm = [f for f in TABLE_FORMATS + DB_FORMATS if not (writer == 'direct' and mm == 'none' and f in DB_FORMATS)]
            add('hand', recipe='random', n=9, mix=['comp', 'isle', 'simp'], every_type=True, writer=writer, meta_mode=mm,
                formats=fm, seed=[0, 'meta', writer, mm])
            add('reload_csv', recipe='random', n=2, mix=['comp'], writer=writer, meta_mode=mm, formats=fm,
                variants=('plain',), seed=[0, 'meta1', writer, mm])
    add('hand', recipe='random', n=8, mix=['isle', 'simp'], every_type=True, prior_mix=['comp', 'isle'], prior_n=4,
        writer='direct', meta_mode='empty', seed=[0, 'meta', 'direct', 'sequence'])
    # size strata: text files well over 1 MiB (readers may switch strategy with size), compared exactly
    add('hand', recipe='random', n=3000, mix=['comp'], formats=['csv', 'tab', 'tex'], variants=('plain',),
        p_nan=0.03, p_extreme=0.3, seed=[0, 'big', 'comp', 3000])
    add('hand', recipe='random', n=5000, mix=['isle'], formats=['csv', 'tab'], variants=('plain',),
        p_nan=0.03, p_extreme=0.3, seed=[0, 'big', 'isle', 5000])
    add('reload_csv', recipe='random', n=2600, mix=['comp'], formats=['tab', 'csv'], variants=('plain',),
        p_nan=0.0, p_extreme=0.5, seed=[0, 'big', 'comp', 2600])
    if not quick:
        add('hand', recipe='random', n=6000, mix=['comp', 'isle', 'simp'], every_type=True, variants=('plain',),
            seed=[0, 'big', 'mixed', 6000])
        add('hand', recipe='random', n=8000, mix=['simp'], formats=['csv', 'tab', 'tex'], variants=('plain',),
            seed=[0, 'big', 'simp', 8000])
    # spelling of the file name: the per-type files are documented as base_comp.ext etc. for filename = base.ext
    add('hand', recipe='random', n=9, mix=['comp', 'isle', 'simp'], every_type=True, stem='Field_A',
        formats=['CSV', 'Csv', 'TAB', 'Tab', 'TEX', 'teX', 'VOT', 'Vot', 'XML', 'Xml', 'FITS', 'Fits', 'DB', 'Db',
                 'SQLITE', 'SQLite'], seed=[0, 'spelling', 0])
    add('reload_csv', recipe='random', n=6, mix=['comp', 'simp'], every_type=True, stem='OUT',
        formats=['CSV', 'TAB', 'TEX', 'VOT', 'XML', 'FITS', 'DB', 'SQLITE'], seed=[0, 'spelling', 1])
    add('hand', recipe='random', n=4, mix=['isle'], stem='x.y', formats=['Csv', 'Fits', 'Vot', 'Db', 'csv'],
        variants=('plain',), seed=[0, 'spelling', 2])
    # write sequences to the same file name: catalogue A (one type mix) then catalogue B (another): all ordered
    # pairs of non-empty subsets of {components, islands, simples}
    subsets = [['comp'], ['isle'], ['simp'], ['comp', 'isle'], ['comp', 'simp'], ['isle', 'simp'], ['comp', 'isle', 'simp']]
    for ia, A in enumerate(subsets):
        for ib, B in enumerate(subsets):
            add('hand' if (ia + ib) % 3 else 'reload_csv', recipe='random', n=len(B) * 2, mix=B, every_type=True,
                prior_mix=A, prior_n=len(A) * 3, variants=('plain',) if (ia + ib) % 2 else ('plain', 'prefix_meta'),
                p_nan=0.05, seed=[0, 'sequence', ia, ib])
    # --- seeded random sample
    sizes = [1, 3, 10, 40, 150, 600, 1500] if quick else [1, 2, 3, 5, 10, 20, 40, 80, 150, 300, 600, 1200, 3000, 3000]
    reps = 4 if quick else 12
    for n in sizes:
        for k in range(reps):
            origin = ('hand', 'reload_csv', 'hand', 'reload_fits')[k % 4]
            add(origin, recipe='random', n=n, seed=[seed, 'random', n, k],
                p_nan=0.0 if origin == 'reload_fits' else [0.0, 0.05, 0.3][(k + n) % 3], p_extreme=[0.2, 0.6][k % 2],
                variants=('plain', 'prefix_meta') if n <= 300 else ('plain',))
    for k in range(2 if quick else 6):
        add('reload_fits', recipe='clean', n=[5, 50, 200, 11, 23, 400][k], seed=[seed, 'clean', k])
    for k in range(2 if quick else 12):
        add('finder', recipe='finder', nsrc=6 + 2 * k, seed=[seed, 'finder', k])
    return out


def run(case):
    o = Obs()
    workdir = scratch_dir()
    try:
        with warnings.catch_warnings():
            warnings.simplefilter('ignore')
            cat = build_catalogue(case, workdir)        # harness errors propagate (inconclusive)
        exp = _expected(cat)
        o.count('origin_' + case['origin'])
        if str(case.get('recipe', '')).startswith('first_'):
            o.count('first_row_atypical_catalogues')
        o.count('sources', len(cat))
        for k in exp:
            if exp[k]:
                o.see('types_in_catalogue', k)
        for s in cat:
            for n in type(s).names:
                o.see('attribute_types', type(getattr(s, n)).__name__)
        ctx = {'origin': case['origin'], 'recipe': case.get('recipe')}
        prior = None
        if case.get('prior_mix') is not None:
            # the catalogue saved under the same file name before: other sources, possibly other types
            with warnings.catch_warnings():
                warnings.simplefilter('ignore')
                prior = build_catalogue(dict(case, mix=case['prior_mix'], n=case.get('prior_n', 4),
                                             seed=list(case['seed']) + ['prior']), workdir)
            ctx['sequence'] = '%s then %s' % ('+'.join(case['prior_mix']), '+'.join(case['mix']))
            o.see('write_sequences', ctx['sequence'])
        if case.get('stem'):
            ctx['stem'] = case['stem']
        if case.get('writer'):
            ctx['writer'] = case['writer']
        if case.get('meta_mode'):
            ctx['meta_mode'] = case['meta_mode']
        if case.get('container'):
            ctx['container'] = case['container']
            o.count('container_' + case['container'])
        if case.get('shared_objects'):
            ctx['shared_objects'] = True        # the same objects go through every format in turn (db first)
            o.count('shared_object_catalogues')
        for fmt in case['formats']:
            if fmt.lower() in DB_FORMATS:
                _roundtrip_db(o, cat, exp, fmt, workdir, ctx, prior=prior)
            else:
                for variant in case['variants']:
                    _roundtrip_table(o, cat, exp, fmt, variant, workdir, ctx, prior=prior)
        o.sample = {'n_sources': len(cat), 'per_type': {k: len(v) for k, v in exp.items()},
                    'first': {k: {n: repr(v) for n, v in list(rows[0].items())[:8]} for k, rows in exp.items() if rows}}
        return o.result()
    finally:
        shutil.rmtree(workdir, ignore_errors=True)
