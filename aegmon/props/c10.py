"""C10 - masking keeps or removes exactly the pixels / rows whose position is in the region.

Images: the real mask_plane / mask_file (and the MIMAS command line) are run on generated images with both values
of `negate`; every pixel of the output is compared with a per-pixel oracle:
    numpy index (i, j) -> sky position by aegmon.refs.wcs_zenithal (cross-checked per header against astropy.wcs at
    origin 0) -> HEALPix cell by healpy.ang2pix(nest) at the region's depth -> membership in the region's stored pixel
    intervals (aegmon.refs.healmember; read from a deep copy of pixeldict, never through sky_within).
A pixel is judged only if the cell is the same at its centre and at four points 1e-7 deg around it.
Tables: the real mask_table / mask_catalog on generated tables (0..2000 rows, non-finite and masked coordinates, custom
column names, csv / vot / fits files); each row's membership by the same cell oracle.
"""
import math
import os
import shutil
import traceback
import warnings

import healpy as hp
import numpy as np

from aegmon.common import Obs, rng_for, scratch_dir
from aegmon.refs import sphere, healmember
from aegmon.refs.wcs_zenithal import ZenithalWCS, make_header, PROJECTIONS
from aegmon.refs import wcs_zenithal

ID = 'C10'
LEVEL = 'exploration'
RULE = ('image case = one generated header (5 zenithal projections, CRPIX inside or up to 1.5 image sizes outside, CDELT '
        'of both signs, shapes 1x1..200x150, float32/float64, a few pre-existing NaN/inf pixels; plus images whose '
        'pixel grid partly has no sky position (all-sky AIT/MOL, SIN/ZEA/ARC wider than the map, CRPIX off-image) and '
        'images with more than 2**22 (thorough: 2**24) pixels per plane through mask_file / the command line; '
        'mask_plane is also driven with Fortran-ordered arrays, transposed views, cut-outs of larger C / F arrays, '
        'stepped and negative strides, a plane of a cube with the plane axis in the middle, and non-native byte order '
        '(pixels of the parent array outside the view must not change)) and one region (circle, '
        'several circles, convex polygon, empty, whole sky) whose HEALPix cells are 0.2..5 image pixels wide, masked '
        'with negate False and True through mask_plane, mask_file (2-D, 3-D, 4-D with degenerate axes) or the MIMAS '
        'command line; files are float32/float64 or scaled integers (BITPIX 8/16/32 with BSCALE/BZERO, with and '
        'without a BLANK card and blank pixels; reference values = the input as astropy reads it back); an evaluation '
        'is one output pixel compared with the oracle; non-trivial = the pixel is judged '
        '(stable cell, finite input) in an image that has both inside and outside pixels; table case = one table and '
        'one region through mask_table / mask_catalog / --maskcat (default and explicit column names, also tables with '
        'extra columns named like the coordinate columns up to case - ra/RA/Ra, dec/DEC/Dec - before or after them, '
        'holding other positions), an evaluation is one row; distinct = (case hash, '
        'pixel or row)')
ASSUMPTIONS = ['oracle WCS: FITS paper II zenithal projections implemented geometrically (refs/wcs_zenithal.py), '
               'checked in every case against astropy.wcs all-corner and random pixels at origin 0 to 1e-9 deg',
               'healpy.ang2pix (nest) in the trusted base; nested interval arithmetic in refs/healmember.py',
               'regions are built with the real add_circles/add_poly (their shape is judged by C09), some also carry a '
               'big part inserted explicitly at HEALPix level 1 or 2 (add_circles / add_poly with depth=, add_pixels, '
               'union with such a region) before or after the fine detail; what is judged '
               'here is the mapping pixel/row -> position -> membership -> blanking',
               'pixels/rows within 1e-7 deg of a HEALPix cell edge are undetermined and not judged (complementarity '
               'of the two negate results and bit-identity of unblanked values are judged on every pixel)',
               'VOTable catalogue cases run in a helper interpreter (recycled every 25 cases, replaced and the case retried when it dies): with '
               'astropy 8.0.1 / numpy 2.5.3 Table.read(votable) -> boolean row mask -> write(votable), which is what '
               'mask_catalog does, intermittently corrupts memory (segfault in the garbage collector, reproduced '
               'without AegeanTools); deaths are counted (helper_interpreter_deaths_retried); SystemError / MemoryError '
               'around a subject call is a harness error, not a violation',
               'out of domain: integer images that astropy hands over as integers (no BSCALE/BZERO, or the unsigned '
               'BZERO=2**(n-1) convention) cannot hold NaN - the unchanged mask_file raises ValueError on them; a plain '
               'integer image with only a BLANK card comes back from the unchanged mask_file as BITPIX 16 without '
               'NaN; neither layout is in the workload',
               'pixels without a sky position (independent classification from the projection geometry, checked '
               'against astropy NaNs; 1e-6 band at the edge of the map undetermined): only what the statement says is '
               'demanded of them - blanked in exactly one of the two negate senses, value unchanged when not blanked; '
               'the unchanged code blanks them with negate=False and keeps them with negate=True',
               'AIT/MOL oracle: closed-form deprojection (FITS paper II) for CRVAL2 = 0, checked per header against astropy',
               'domain (all other cases): every pixel of the image has a sky position (field radius about CRVAL <= 40 deg), float data, '
               '|table dec| <= 90']
MIN_REACH = {'MIMAS:mask_plane': 1, 'MIMAS:mask_file': 1, 'MIMAS:mask_table': 1, 'MIMAS:mask_catalog': 1,
             'regions:Region.sky_within': 1}
MIN_COUNTERS = {'pixels_judged': 200000, 'pixels_expected_blank': 20000, 'pixels_expected_kept': 20000,
                'images_with_boundary': 40, 'cube_planes_compared': 10, 'rows_judged': 20000,
                'rows_expected_removed': 2000, 'rows_expected_kept': 2000, 'rows_nonfinite': 200,
                'empty_tables': 4, 'catalog_files': 10, 'integer_stored_files': 20, 'images_with_off_sky_pixels': 40, 'pixels_off_sky': 20000,
                'complementarity_off_sky_pixels': 20000, 'big_plane_images': 3, 'tables_with_case_variant_columns': 100, 'regions_with_explicit_coarse_levels': 60, 'noncontiguous_planes': 100, 'byteswapped_planes': 20,
                'parent_pixels_outside_view_compared': 10000, 'cli_runs': 2, 'complementarity_pixels': 200000}

EPS = 1e-7          # degrees, undetermined band around a cell edge (DESIGN section 1 rule 2, section 5 C10)


def resol_deg(depth):
    return math.degrees(hp.nside2resol(2 ** depth))


# ----------------------------------------------------------------------------- case generation
def _image_geometry(rng, shape=None, ratio=None):
    """a header spec whose whole pixel grid is within 40 deg of CRVAL and a region depth with cells `ratio` pixels wide"""
    while True:
        if shape is None:
            u = rng.random()
            if u < 0.1:
                shp = (int(rng.integers(1, 4)), int(rng.integers(1, 4)))
            elif u < 0.2:
                shp = (int(rng.choice([1, 2, 150])), int(rng.integers(1, 200))) if rng.random() < 0.5 else \
                      (int(rng.integers(1, 200)), int(rng.choice([1, 2, 150])))
            else:
                shp = (int(rng.integers(4, 201)), int(rng.integers(4, 151)))
        else:
            shp = shape
        rat = ratio if ratio is not None else float(10 ** rng.uniform(math.log10(0.2), math.log10(5)))
        depth = int(rng.integers(7, 15))
        cd = resol_deg(depth) / rat
        if rng.random() < 0.3:
            crpix = (float(rng.uniform(-1.5, 2.5) * shp[1]), float(rng.uniform(-1.5, 2.5) * shp[0]))
        else:
            crpix = (float(rng.uniform(0.5, shp[1] + 0.5)), float(rng.uniform(0.5, shp[0] + 0.5)))
        if rng.random() < 0.25:
            crpix = (float(round(crpix[0])), float(round(crpix[1])))
        far = max(math.hypot(cx - crpix[0], cy - crpix[1]) for cx in (0.5, shp[1] + 0.5) for cy in (0.5, shp[0] + 0.5))
        asp = float(rng.choice([1.0, 1.0, rng.uniform(0.7, 1.4)]))
        if far * cd * max(asp, 1) > 35.0:
            continue
        s1 = -1 if rng.random() < 0.7 else 1
        s2 = 1 if rng.random() < 0.7 else -1
        crval = (float(rng.choice([rng.uniform(0, 360), 0.0, 359.99999, 0.001])),
                 float(rng.choice([rng.uniform(-85, 85), 85.0, -85.0, 0.0, rng.uniform(80, 85)])))
        return {'proj': str(rng.choice(PROJECTIONS)), 'crval': crval, 'crpix': crpix,
                'cdelt': (s1 * cd, s2 * cd * asp), 'shape': shp, 'use_cd': bool(rng.random() < 0.3),
                'depth': depth, 'ratio': rat}


_LIMIT_DEG = {'SIN': math.degrees(1.0), 'ZEA': math.degrees(2.0), 'ARC': 180.0}


def _wide_case(rng, kind, seedtag):
    """an image whose pixel grid partly falls off the projection (all-sky AIT / MOL, SIN / ZEA / ARC wider than
    the map), with a region centred on a pixel that does have a sky position"""
    while True:
        proj = str(rng.choice(['AIT', 'MOL', 'SIN', 'ZEA', 'ARC']))
        shp = (int(rng.integers(12, 110)), int(rng.integers(12, 150)))
        if proj in WIDE:
            cd = 360.0 / shp[1] * rng.uniform(0.8, 1.4)
            crval = (float(rng.choice([rng.uniform(0, 360), 0.0, 180.0])), 0.0)
        else:
            cd = _LIMIT_DEG[proj] * rng.uniform(0.7, 1.7) / (min(shp) / 2.0)
            crval = (float(rng.uniform(0, 360)), float(rng.choice([rng.uniform(-85, 85), 0.0, 85.0, -60.0])))
        if rng.random() < 0.3:
            crpix = (float(rng.uniform(-0.8, 1.8) * shp[1]), float(rng.uniform(-0.8, 1.8) * shp[0]))
        else:
            crpix = (float(shp[1] * rng.uniform(0.3, 0.7)), float(shp[0] * rng.uniform(0.3, 0.7)))
        if rng.random() < 0.3:
            crpix = (float(round(crpix[0])), float(round(crpix[1])))
        ratio = float(10 ** rng.uniform(math.log10(0.3), math.log10(3)))
        depth = int(np.clip(round(math.log2(resol_deg(0) / (cd * ratio))), 3, 9))
        ratio = resol_deg(depth) / cd
        if not 0.2 <= ratio <= 5:
            continue
        s1 = -1 if rng.random() < 0.7 else 1
        s2 = 1 if rng.random() < 0.8 else -1
        geom = {'proj': proj, 'crval': crval, 'crpix': crpix, 'cdelt': (s1 * cd, s2 * cd), 'shape': shp,
                'use_cd': bool(rng.random() < 0.3), 'depth': depth, 'ratio': ratio}
        g = GridWCS(geom)
        I, J = np.meshgrid(np.arange(shp[0]), np.arange(shp[1]), indexing='ij')
        off, limb = g.classify(I, J)
        on = ~off & ~limb
        if on.mean() < 0.15 or off.sum() < 5:
            continue
        cand = np.argwhere(on)
        rmax = min(0.35 * min(shp), 120 * ratio, 50.0 / cd)
        rk = str(rng.choice(['circle', 'circle', 'circles', 'poly']))
        c = cand[rng.integers(0, len(cand))]
        spec = {'kind': rk, 'centre_index': (float(c[0]), float(c[1])),
                'radius_px': float(max(rng.uniform(0.08, 0.35) * min(shp), 1.2 * ratio, 1.0) if rmax > 1 else 1.0)}
        spec['radius_px'] = float(min(spec['radius_px'], max(rmax, 1.0)))
        if rk == 'circles':
            m = int(rng.integers(2, 5))
            cc = cand[rng.integers(0, len(cand), m)]
            spec['centres_index'] = [(float(a), float(b)) for a, b in cc]
            spec['radii_px'] = [float(min(max(rng.uniform(0.05, 0.25) * min(shp), ratio, 0.7), max(rmax, 1.0)))
                                for _ in range(m)]
        if rk == 'poly':
            nv = int(rng.integers(3, 9))
            while True:
                a = np.sort(rng.uniform(0, 360, nv))
                if np.diff(np.concatenate([a, [a[0] + 360]])).min() >= 8:
                    break
            spec['angles'] = [float(x) for x in a]
        case = {'kind': kind, 'geom': geom, 'region': spec, 'dtype': str(rng.choice(['f4', 'f8'])), 'seed': seedtag}
        if kind == 'file':
            case.update(dims=str(rng.choice(['2d', '3d', '4d_1n', '4d_11'])), cli=bool(rng.random() < 0.25))
        return case


def _region_spec(rng, geom, kind=None):
    """region described in *pixel* terms (centre index, radius in pixels); turned into sky terms in run()"""
    shp = geom['shape']
    kind = kind or str(rng.choice(['circle', 'circle', 'circles', 'poly', 'poly']))
    cell_px = geom['ratio']
    size = max(2.0, min(shp))
    rmax = min(0.7 * max(shp), 130 * cell_px)
    r = float(max(min(rng.uniform(0.15, 0.6) * size, rmax), 1.2 * cell_px, 1.0))
    cen = (float(rng.uniform(-0.1, 1.1) * shp[0]), float(rng.uniform(-0.1, 1.1) * shp[1]))
    spec = {'kind': kind, 'centre_index': cen, 'radius_px': r}
    if kind == 'circles':
        m = int(rng.integers(2, 5))
        spec['centres_index'] = [(float(rng.uniform(0, shp[0])), float(rng.uniform(0, shp[1]))) for _ in range(m)]
        spec['radii_px'] = [float(max(min(rng.uniform(0.05, 0.3) * size, rmax), cell_px, 0.7)) for _ in range(m)]
    if kind == 'poly':
        nv = int(rng.integers(3, 9))
        while True:
            a = np.sort(rng.uniform(0, 360, nv))
            if np.diff(np.concatenate([a, [a[0] + 360]])).min() >= 8:
                break
        spec['angles'] = [float(x) for x in a]
    return spec


def cases(seed, tier):
    out = []
    # ------------------------------------------------------------ targeted, seed independent
    k = 0
    for proj in PROJECTIONS:
        for (shape, crpix, cdsign) in (((32, 32), (16.5, 16.5), (-1, 1)), ((17, 41), (-20.0, 60.0), (1, 1)),
                                       ((40, 23), (12.0, 3.0), (-1, -1))):
            for ratio, depth in ((0.5, 10), (2.0, 9)):
                cd = resol_deg(depth) / ratio
                geom = {'proj': proj, 'crval': ((75.0 * k) % 360, (-60.0 + 29 * k) % 160 - 80), 'crpix': crpix,
                        'cdelt': (cdsign[0] * cd, cdsign[1] * cd), 'shape': shape, 'use_cd': bool(k % 2),
                        'depth': depth, 'ratio': ratio}
                spec = {'kind': 'circle', 'centre_index': (shape[0] * 0.45, shape[1] * 0.55),
                        'radius_px': 0.3 * min(shape)}
                out.append({'kind': 'plane', 'geom': geom, 'region': spec, 'dtype': 'f4' if k % 2 else 'f8',
                            'seed': ['t', 'plane', k]})
                k += 1
    base = {'proj': 'SIN', 'crval': (10.0, -30.0), 'crpix': (12.0, 9.0), 'cdelt': (-0.02, 0.02), 'shape': (20, 24),
            'use_cd': False, 'depth': 10, 'ratio': resol_deg(10) / 0.02}
    for rk in ('empty', 'whole'):
        g = dict(base, depth=6 if rk == 'whole' else 10)
        out.append({'kind': 'plane', 'geom': g, 'region': {'kind': rk}, 'dtype': 'f8', 'seed': ['t', rk]})
        out.append({'kind': 'file', 'geom': g, 'region': {'kind': rk}, 'dtype': 'f4', 'dims': '2d', 'cli': False,
                    'seed': ['t', rk, 'file']})
    for shape in ((1, 1), (1, 7), (9, 1), (2, 2), (200, 150)):
        g = dict(base, shape=shape, crpix=(shape[1] / 2 + 0.5, shape[0] / 2 + 0.5))
        out.append({'kind': 'plane', 'geom': g, 'region': {'kind': 'circle', 'centre_index': (shape[0] * 0.4, shape[1] * 0.3),
                                                           'radius_px': max(0.6, 0.3 * max(shape))},
                    'dtype': 'f8', 'seed': ['t', 'shape', list(shape)]})
    for i, dims in enumerate(('2d', '3d', '4d_11', '4d_1n', '4d_n1', '3d_1')):
        for cli in (False, True):
            out.append({'kind': 'file', 'geom': dict(base, proj=PROJECTIONS[i % 5]),
                        'region': {'kind': 'poly', 'centre_index': (10.0, 11.0), 'radius_px': 7.0,
                                   'angles': [10.0, 100.0, 200.0, 290.0]},
                        'dtype': 'f4' if i % 2 else 'f8', 'dims': dims, 'cli': cli, 'seed': ['t', 'file', dims, cli]})
    # images stored as scaled integers (BITPIX 8/16/32 with BSCALE/BZERO), with and without a BLANK card
    for i, store in enumerate(('int16', 'int32', 'uint8')):
        for blank in (False, True):
            for dims, cli in (('2d', False), ('3d', False), ('4d_1n', True)):
                out.append({'kind': 'file', 'geom': dict(base, proj=PROJECTIONS[(i + blank) % 5]),
                            'region': {'kind': 'circle', 'centre_index': (9.0, 12.0), 'radius_px': 6.0},
                            'dtype': 'f4', 'dims': dims, 'cli': cli, 'store': store, 'blank': blank,
                            'seed': ['t', 'intfile', store, blank, dims]})
    # images whose pixel grid partly has no sky position: all-sky AIT / MOL, zenithal maps wider than the projection
    k = 0
    for proj, shape, cd, crval, crpix, depth in (
            ('AIT', (36, 72), 5.0, (0.0, 0.0), (36.5, 18.5), 5), ('AIT', (72, 144), 2.5, (180.0, 0.0), (72.5, 36.5), 6),
            ('AIT', (40, 90), 4.5, (123.4, 0.0), (40.0, 22.0), 5), ('MOL', (36, 72), 5.0, (0.0, 0.0), (36.5, 18.5), 5),
            ('MOL', (80, 170), 2.2, (266.4, 0.0), (80.0, 41.0), 6), ('SIN', (100, 100), 1.5, (45.0, -30.0), (50.5, 50.5), 6),
            ('SIN', (60, 60), 1.0, (200.0, 50.0), (-20.0, 30.0), 7), ('ZEA', (120, 110), 2.2, (10.0, 70.0), (55.0, 60.0), 5),
            ('ARC', (100, 90), 4.5, (300.0, -10.0), (45.5, 50.5), 4)):
        geom = {'proj': proj, 'crval': crval, 'crpix': crpix, 'cdelt': (-cd, cd), 'shape': shape, 'use_cd': bool(k % 2),
                'depth': depth, 'ratio': resol_deg(depth) / cd}
        ci = (crpix[1] - 1 + (3 if proj != 'SIN' or crpix[0] > 0 else 0), max(crpix[0] - 1, 0.0) + 4)
        spec = {'kind': 'circles' if k % 3 == 0 else 'circle', 'centre_index': ci, 'radius_px': 0.22 * min(shape),
                'centres_index': [ci, (shape[0] * 0.5, shape[1] * 0.3)], 'radii_px': [0.2 * min(shape), 0.1 * min(shape)]}
        out.append({'kind': 'plane', 'geom': geom, 'region': spec, 'dtype': 'f8' if k % 2 else 'f4',
                    'seed': ['t', 'wide', k]})
        out.append({'kind': 'file', 'geom': geom, 'region': spec, 'dtype': 'f4', 'dims': ('2d', '3d', '4d_1n')[k % 3],
                    'cli': bool(k % 2), 'seed': ['t', 'widefile', k]})
        k += 1
    # big images through mask_file / the command line: more than 2**22 pixels per plane
    big = [((2100, 2048), '2d', False, 'f4', 'SIN'), ((1030, 4100), '2d', True, 'f4', 'TAN'),
           ((4100, 1030), '2d', False, 'f8', 'ZEA')]
    if tier == 'thorough':
        big += [((4200, 4000), '2d', False, 'f4', 'SIN'), ((2050, 2100), '4d_n1', True, 'f4', 'ARC'),
                ((2500, 1700), '2d', False, 'f4', 'STG')]
    for i, (shape, dims, cli, dt, proj) in enumerate(big):
        cd = resol_deg(12) / 2.0
        geom = {'proj': proj, 'crval': (33.0 + 70 * i, -40.0 + 25 * i), 'crpix': (shape[1] / 2.0, shape[0] / 2.0 + 0.5),
                'cdelt': (-cd, cd), 'shape': shape, 'use_cd': False, 'depth': 12, 'ratio': 2.0}
        # the region straddles the last rows and the last columns, where a lost block would show
        spec = {'kind': 'circles', 'centre_index': (shape[0] - 150.0, shape[1] * 0.4), 'radius_px': 400.0,
                'centres_index': [(shape[0] - 150.0, shape[1] * 0.4), (shape[0] * 0.3, shape[1] - 100.0), (60.0, 80.0)],
                'radii_px': [400.0, 300.0, 200.0]}
        out.append({'kind': 'file', 'geom': geom, 'region': spec, 'dtype': dt, 'dims': dims, 'cli': cli,
                    'seed': ['t', 'big', i]})
    # memory layouts of the array handed to mask_plane
    for i, layout in enumerate(LAYOUTS):
        for dt in ('f4', 'f8'):
            g = dict(base, proj=PROJECTIONS[i % 5], shape=(20 + i, 24 - i % 3))
            out.append({'kind': 'plane', 'geom': g, 'layout': layout, 'dtype': dt,
                        'region': {'kind': 'circle', 'centre_index': (9.0, 12.0), 'radius_px': 6.0},
                        'seed': ['t', 'layout', layout, dt]})
    # cubes whose planes are one pixel high / wide (a celestial axis of length 1 must survive)
    thin = dict(base, depth=12, ratio=resol_deg(12) / 0.02)
    for i, (shape, dims) in enumerate((((1, 7), '3d'), ((1, 7), '4d_11'), ((6, 1), '3d'), ((6, 1), '4d_1n'),
                                       ((1, 9), '3d_1'), ((1, 1), '3d'))):
        g = dict(thin, shape=shape, crpix=(shape[1] / 2 + 0.5, shape[0] / 2 + 0.5))
        out.append({'kind': 'file', 'geom': g,
                    'region': {'kind': 'circle', 'centre_index': (shape[0] * 0.5 - 0.5, shape[1] * 0.4), 'radius_px': 2.0},
                    'dtype': 'f4', 'dims': dims, 'cli': False, 'seed': ['t', 'thin', i]})
    # tables: empty, one row, all inside, all outside, only non-finite
    for i, (n, special) in enumerate(((0, 'empty'), (0, 'empty_custom'), (1, 'one'), (50, 'all_inside'),
                                      (50, 'all_outside'), (12, 'all_nonfinite'), (300, 'masked'))):
        out.append({'kind': 'table', 'n': n, 'special': special, 'depth': 8, 'cols': 'custom' if 'custom' in special else 'std',
                    'seed': ['t', 'table', i]})
    for i, fmt in enumerate(('csv', 'vot', 'fits')):
        for n in (0, 40):
            out.append({'kind': 'catalog', 'n': n, 'special': 'empty' if n == 0 else 'mixed', 'fmt': fmt, 'depth': 9,
                        'cols': 'custom' if (i + n) % 2 else 'std', 'cli': bool(n), 'seed': ['t', 'catalog', fmt, n]})
    # ------------------------------------------------------------ seeded random
    rng = rng_for(seed, 'c10-cases', tier)
    nplane, nfile, ntab, ncat = (1400, 400, 1400, 350) if tier == 'quick' else (20000, 5000, 20000, 4000)
    for i in range(nplane):
        g = _image_geometry(rng)
        out.append({'kind': 'plane', 'geom': g, 'region': _region_spec(rng, g), 'dtype': str(rng.choice(['f4', 'f8'])),
                    'seed': [seed, 'plane', i]})
    for i in range(nfile):
        dims = str(rng.choice(['2d', '3d', '4d_11', '4d_1n', '4d_n1', '3d_1']))
        shp = (int(rng.integers(1, 90)), int(rng.integers(1, 90)))
        g = _image_geometry(rng, shape=shp)
        out.append({'kind': 'file', 'geom': g, 'region': _region_spec(rng, g), 'dtype': str(rng.choice(['f4', 'f8'])),
                    'dims': dims, 'cli': bool(rng.random() < 0.15), 'seed': [seed, 'file', i]})
    # regions that carry pixels inserted explicitly at the coarsest levels (1 and 2) next to fine detail
    def _coarse(r_, i_):
        return {'how': COARSE_HOW[i_ % 4], 'level': 1 if (i_ // 4) % 3 else 2, 'radius_deg': float(r_.uniform(15, 40)),
                'offset_frac': float(r_.uniform(0, 1.3)), 'bearing': float(r_.uniform(0, 360)),
                'order': 'before' if (i_ // 2) % 2 else 'after'}
    rco = rng_for('t', 'c10-coarse')
    for i in range(16):
        g = dict(base, proj=PROJECTIONS[i % 5], depth=8, ratio=resol_deg(8) / 0.02 if i % 2 else 2.0,
                 cdelt=(-0.02, 0.02) if i % 2 else (-resol_deg(8) / 2.0, resol_deg(8) / 2.0), shape=(30, 36),
                 crpix=(18.0, 15.0))
        spec = {'kind': 'circle', 'centre_index': (12.0, 20.0), 'radius_px': 7.0, 'coarse': _coarse(rco, i)}
        if i % 4 == 0:
            spec['coarse'].update(offset_frac=0.0)           # the whole image lies in the coarse part
        out.append({'kind': 'plane' if i % 2 else 'file', 'geom': g, 'region': spec, 'dtype': 'f4', 'dims': '3d',
                    'cli': bool(i % 4 == 2), 'seed': ['t', 'coarse', i]})
        out.append({'kind': 'table' if i % 2 else 'catalog', 'n': 200, 'special': 'mixed', 'fmt': ('csv', 'fits')[i % 4 // 2],
                    'depth': 3 + i % 6, 'cols': 'std', 'cli': False, 'coarse': dict(_coarse(rco, i), offset_frac=0.3 * (i % 4)),
                    'seed': ['t', 'coarse-table', i]})
    rco = rng_for(seed, 'c10-coarse', tier)
    for i in range(80 if tier == 'quick' else 1200):
        if i % 2:
            g = _image_geometry(rco)
            while g['depth'] > 8:
                g = _image_geometry(rco)
            spec = dict(_region_spec(rco, g), coarse=_coarse(rco, int(rco.integers(0, 48))))
            c = {'kind': 'plane' if i % 4 == 1 else 'file', 'geom': g, 'region': spec, 'dtype': str(rco.choice(['f4', 'f8'])),
                 'dims': str(rco.choice(['2d', '3d'])), 'cli': bool(rco.random() < 0.2), 'seed': [seed, 'coarse', i]}
            if c['kind'] == 'file' and min(g['shape']) < 2:
                c['kind'] = 'plane'
            out.append(c)
        else:
            out.append({'kind': 'table' if i % 4 else 'catalog', 'n': int(rco.integers(20, 800)), 'special': 'mixed',
                        'fmt': str(rco.choice(['csv', 'fits'])), 'depth': int(rco.integers(3, 9)), 'cols': 'std',
                        'cli': bool(rco.random() < 0.2), 'coarse': _coarse(rco, int(rco.integers(0, 48))),
                        'seed': [seed, 'coarse-table', i]})
    # tables carrying extra columns whose names differ from the coordinate columns only in case
    for i, sch in enumerate(CASE_SCHEMES):
        out.append({'kind': 'table', 'n': 120, 'special': 'mixed', 'depth': 8, 'cols': sch, 'seed': ['t', 'casecols', i]})
        for j, fmt in enumerate(('csv', 'vot', 'fits')):
            out.append({'kind': 'catalog', 'n': 90, 'special': 'mixed', 'fmt': fmt, 'depth': 8, 'cols': sch,
                        'cli': bool((i + j) % 2), 'seed': ['t', 'casecols', i, fmt]})
    rcc = rng_for(seed, 'c10-case-columns', tier)
    for i in range(60 if tier == 'quick' else 900):
        sch = str(rcc.choice(CASE_SCHEMES))
        if i % 2:
            out.append({'kind': 'table', 'n': int(rcc.integers(12, 600)), 'special': 'mixed', 'depth': int(rcc.integers(4, 12)),
                        'cols': sch, 'seed': [seed, 'casecols-table', i]})
        else:
            out.append({'kind': 'catalog', 'n': int(rcc.integers(12, 300)), 'special': 'mixed',
                        'fmt': str(rcc.choice(['csv', 'vot', 'fits'])), 'depth': int(rcc.integers(4, 12)), 'cols': sch,
                        'cli': bool(rcc.random() < 0.4), 'seed': [seed, 'casecols-cat', i]})
    rlay = rng_for(seed, 'c10-layouts', tier)
    for i in range(200 if tier == 'quick' else 3000):
        g = _image_geometry(rlay)
        out.append({'kind': 'plane', 'geom': g, 'region': _region_spec(rlay, g), 'dtype': str(rlay.choice(['f4', 'f8'])),
                    'layout': str(rlay.choice(LAYOUTS[1:])), 'seed': [seed, 'layout', i]})
    rwide = rng_for(seed, 'c10-wide', tier)
    for i in range(70 if tier == 'quick' else 1000):
        out.append(_wide_case(rwide, 'plane' if i % 3 else 'file', [seed, 'wide', i]))
    rint = rng_for(seed, 'c10-integer-files', tier)
    for i in range(100 if tier == 'quick' else 1200):
        dims = str(rint.choice(['2d', '3d', '4d_11', '4d_1n', '4d_n1', '3d_1']))
        shp = (int(rint.integers(1, 90)), int(rint.integers(1, 90)))
        g = _image_geometry(rint, shape=shp)
        out.append({'kind': 'file', 'geom': g, 'region': _region_spec(rint, g), 'dtype': 'f4', 'dims': dims,
                    'cli': bool(rint.random() < 0.15), 'store': str(rint.choice(['int16', 'int32', 'uint8'])),
                    'blank': bool(rint.random() < 0.5), 'seed': [seed, 'intfile', i]})
    for i in range(ntab):
        n = int(rng.choice([0, 1, 2, int(rng.integers(3, 200)), int(rng.integers(200, 2001))], p=[0.04, 0.03, 0.03, 0.5, 0.4]))
        out.append({'kind': 'table', 'n': n, 'special': 'mixed' if rng.random() < 0.85 else 'masked',
                    'depth': int(rng.integers(3, 13)), 'cols': str(rng.choice(['std', 'custom'])),
                    'seed': [seed, 'table', i]})
    for i in range(ncat):
        n = int(rng.choice([0, 1, int(rng.integers(2, 400))], p=[0.08, 0.05, 0.87]))
        out.append({'kind': 'catalog', 'n': n, 'special': 'mixed', 'fmt': str(rng.choice(['csv', 'vot', 'fits'])),
                    'depth': int(rng.integers(4, 12)), 'cols': str(rng.choice(['std', 'custom'])),
                    'cli': bool(rng.random() < 0.2), 'seed': [seed, 'catalog', i]})
    return out


# ----------------------------------------------------------------------------- helpers
def _call(o, f, what, *args, **kw):
    try:
        with warnings.catch_warnings():
            warnings.simplefilter('ignore')
            return True, f(*args, **kw)
    except (SystemError, MemoryError, RecursionError):
        # the interpreter itself is in trouble (e.g. "unknown opcode" after a memory corruption in a compiled
        # dependency): nothing can be concluded about the subject -> harness error, never a violation
        raise
    except Exception:
        tb = traceback.format_exc()[-1500:]
        o.violate('raises', {'call': what, 'traceback': tb}, _mech_raises(what, tb))
        return False, None


def _mech_raises(what, tb):
    """mechanism key from the witness (the call description and the traceback), for known_findings bookkeeping"""
    if 'n=0' in what and 'IndexError' in tb and 'sky2ang' in tb:
        return 'sky-within-empty-input'
    if 'IORegistryError' in tb and 'write_table' in tb:
        return 'write-table-no-votable-format'
    if 'dims=' in what and 'IndexError' in tb and 'mask_plane' in tb:
        return 'mask-file-squeezes-celestial-axis'
    return None


def _header(geom, extra_axes=()):
    h = make_header(geom['proj'], geom['crval'], geom['crpix'], geom['cdelt'], geom['shape'], use_cd=geom['use_cd'])
    for ax, (n, ctype) in enumerate(extra_axes, start=3):
        h['NAXIS'] = ax
        h['NAXIS%d' % ax] = n
        h['CTYPE%d' % ax] = ctype
        h['CRVAL%d' % ax] = 1.0
        h['CRPIX%d' % ax] = 1.0
        h['CDELT%d' % ax] = 1.0
    return h


_ZEN_LIMIT = {'SIN': 1.0, 'ZEA': 2.0, 'ARC': math.pi, 'TAN': math.inf, 'STG': math.inf}   # radius of the map, radians
_LIMB = {'SIN': 1e-6, 'ZEA': 1e-6, 'ARC': 1e-3, 'AIT': 1e-6, 'MOL': 1e-6}                 # undetermined band at the edge
WIDE = ('AIT', 'MOL')


class GridWCS:
    """numpy index -> sky position, NaN where the pixel has no sky position (beyond the edge of the projection) or
    lies within a thin band at that edge (`limb`, undetermined).  Zenithal projections: refs/wcs_zenithal.py plus the
    radius of the map;  AIT and MOL (all-sky, CRVAL2 = 0 only, where native and celestial poles coincide):
    the closed-form deprojections of FITS paper II written out here.  Checked per header against astropy."""

    def __init__(self, geom):
        self.geom = geom
        self.proj = geom['proj']
        self.crpix = geom['crpix']
        self.cdelt = geom['cdelt']
        self.crval = geom['crval']
        if self.proj in WIDE:
            if self.crval[1] != 0.0:
                raise ValueError('AIT/MOL oracle supports CRVAL2 = 0 only')
            self.z = None
        else:
            self.z = ZenithalWCS(_header(geom))

    def _xy(self, i, j):
        x = self.cdelt[0] * (np.asarray(j, dtype=float) + 1 - self.crpix[0])
        y = self.cdelt[1] * (np.asarray(i, dtype=float) + 1 - self.crpix[1])
        return np.radians(x), np.radians(y)

    def classify(self, i, j):
        """(offsky, limb) boolean arrays"""
        X, Y = self._xy(i, j)
        if self.proj in _ZEN_LIMIT:
            lim = _ZEN_LIMIT[self.proj]
            if not np.isfinite(lim):
                z = np.zeros(np.shape(X), dtype=bool)
                return z, z.copy()
            t = np.hypot(X, Y) / lim
        elif self.proj == 'AIT':
            t = np.sqrt(((X / 4) ** 2 + (Y / 2) ** 2) / 0.5)
        else:  # MOL: ellipse with semi-axes 2 sqrt2 and sqrt2
            t = np.sqrt((X / (2 * math.sqrt(2))) ** 2 + (Y / math.sqrt(2)) ** 2)
        band = _LIMB[self.proj]
        limb = np.abs(t - 1) <= band
        return (t > 1) & ~limb, limb

    def index2sky(self, i, j):
        i = np.asarray(i, dtype=float)
        j = np.asarray(j, dtype=float)
        off, limb = self.classify(i, j)
        bad = off | limb
        with np.errstate(all='ignore'):
            if self.z is not None:
                ra, dec = self.z.index2sky(i, j)
            else:
                X, Y = self._xy(i, j)
                if self.proj == 'AIT':
                    Z = np.sqrt(np.clip(1 - (X / 4) ** 2 - (Y / 2) ** 2, 0.5, None))
                    phi = 2 * np.arctan2(Z * X / 2, 2 * Z * Z - 1)
                    theta = np.arcsin(np.clip(Y * Z, -1, 1))
                else:
                    u = np.sqrt(np.clip(2 - Y * Y, 1e-30, None))
                    phi = math.pi * X / (2 * u)
                    theta = np.arcsin(np.clip(np.arcsin(np.clip(Y / math.sqrt(2), -1, 1)) / (math.pi / 2)
                                              + Y * u / math.pi, -1, 1))
                ra = (self.crval[0] + np.degrees(phi)) % 360.0
                dec = np.degrees(theta)
        ra = np.where(bad, np.nan, ra)
        dec = np.where(bad, np.nan, dec)
        return ra, dec


def _crosscheck_wcs(z, w, shape, rng):
    """the independent positions against astropy at origin 0 (numpy indices), and the independent "has no sky
    position" classification against astropy's NaNs: oracle fault if they differ (pixels in the limb band excepted)"""
    ny, nx = shape
    n = 60 if ny * nx < 500000 else 2000
    ii = np.concatenate([[0, 0, ny - 1, ny - 1, ny // 2], rng.integers(0, ny, n)]).astype(float)
    jj = np.concatenate([[0, nx - 1, 0, nx - 1, nx // 2], rng.integers(0, nx, n)]).astype(float)
    with warnings.catch_warnings():
        warnings.simplefilter('ignore')
        sky = w.wcs_pix2world(np.column_stack([jj, ii]), 0)
    ra, dec = z.index2sky(ii, jj)
    off, limb = z.classify(ii, jj)
    afin = np.isfinite(sky).all(axis=1)
    if (afin & off).any() or (~afin & ~off & ~limb).any():
        raise RuntimeError('oracle fault: independent off-sky classification and astropy disagree')
    on = ~off & ~limb
    if not on.any():
        return 0.0
    d = float(np.max(sphere.sep(sky[on, 0], sky[on, 1], ra[on], dec[on])))
    if not d < 1e-9:
        raise RuntimeError('oracle fault: independent WCS and astropy (origin 0) differ by %g deg' % d)
    return d


COARSE_HOW = ('circle', 'poly', 'pixels', 'union')


def _add_coarse(o, Region, reg, coarse, ra_c, dec_c):
    """a big part of the region inserted explicitly at the coarsest levels (1 or 2): add_circles / add_poly with
    depth=level, add_pixels(p, depth=level), or union with a region built that way.  Returns True when it worked."""
    lev, R, how = coarse['level'], coarse['radius_deg'], coarse['how']
    o.see('coarse_part', '%s at level %d' % (how, lev))
    o.count('regions_with_explicit_coarse_levels')
    if how == 'circle':
        ok, _ = _call(o, reg.add_circles, 'add_circles(depth=%d)' % lev, math.radians(ra_c), math.radians(dec_c),
                      math.radians(R), depth=lev)
    elif how == 'poly':
        vra, vdec = sphere.destination(ra_c, dec_c, np.full(6, R), np.array([10.0, 70.0, 130.0, 190.0, 250.0, 310.0]))
        ok, _ = _call(o, reg.add_poly, 'add_poly(depth=%d)' % lev,
                      [[math.radians(a), math.radians(d)] for a, d in zip(vra, vdec)], depth=lev)
    elif how == 'pixels':
        a, d = sphere.destination(ra_c, dec_c, np.array([0.0, R, R]), np.array([0.0, 40.0, 220.0]))
        pix = sorted(set(int(x) for x in hp.ang2pix(2 ** lev, a % 360.0, np.clip(d, -90, 90), nest=True, lonlat=True)))
        ok, _ = _call(o, reg.add_pixels, 'add_pixels(%d pixels, depth=%d)' % (len(pix), lev), pix, lev)
    else:
        ok, r2 = _call(o, Region, 'Region(maxdepth=3)', maxdepth=3)
        if ok:
            ok, _ = _call(o, r2.add_circles, 'add_circles(depth=%d) on a depth-3 region' % lev, math.radians(ra_c),
                          math.radians(dec_c), math.radians(R), depth=lev)
        if ok:
            ok, _ = _call(o, reg.union, 'union(region holding level-%d pixels)' % lev, r2)
    return ok


def _build_region(o, Region, geom, spec, z):
    """the fine shape(s) of the spec plus, when asked for, a part inserted explicitly at level 1 or 2 (before or after)"""
    coarse = spec.get('coarse')
    if not coarse:
        return _build_region_fine(o, Region, geom, spec, z, None)
    ny, nx = geom['shape']
    ra_m, dec_m = z.index2sky((ny - 1) / 2.0, (nx - 1) / 2.0)
    if not (np.isfinite(ra_m) and np.isfinite(dec_m)):
        raise RuntimeError('harness: image centre has no sky position')
    a, d = sphere.destination(float(ra_m), float(dec_m), coarse['offset_frac'] * coarse['radius_deg'], coarse['bearing'])
    ra_c, dec_c = float(a) % 360.0, float(np.clip(d, -89.0, 89.0))
    reg = None
    if coarse['order'] == 'before':
        depth = geom['depth']
        ok, reg = _call(o, Region, 'Region(maxdepth=%d)' % depth, maxdepth=depth)
        if not ok or not _add_coarse(o, Region, reg, coarse, ra_c, dec_c):
            return None, None
    reg, desc = _build_region_fine(o, Region, geom, spec, z, reg)
    if reg is None:
        return None, None
    if coarse['order'] != 'before' and not _add_coarse(o, Region, reg, coarse, ra_c, dec_c):
        return None, None
    desc['coarse'] = dict(coarse, centre_deg=[ra_c, dec_c])
    return reg, desc


def _build_region_fine(o, Region, geom, spec, z, reg):
    """real Region from a pixel-space description; returns (region, description in sky terms)"""
    depth = geom['depth'] if 'depth' in geom else spec['depth']
    if reg is None:
        ok, reg = _call(o, Region, 'Region(maxdepth=%d)' % depth, maxdepth=depth)
        if not ok:
            return None, None
    kind = spec['kind']
    px = abs(geom['cdelt'][0]) if geom else None
    desc = {'kind': kind, 'depth': depth}
    if kind == 'empty':
        return reg, desc
    if kind == 'whole':
        ok, _ = _call(o, reg.add_circles, 'add_circles(whole sky)', 0.3, 0.2, math.pi, depth=3)
        return (reg if ok else None), desc
    if kind in ('circle', 'poly'):
        ra0, dec0 = z.index2sky(*spec['centre_index'])
        if not (np.isfinite(ra0) and np.isfinite(dec0)):
            raise RuntimeError('harness: region centre has no sky position')
        r = spec['radius_px'] * px
        desc.update(centre_deg=[float(ra0), float(dec0)], radius_deg=r)
        if kind == 'circle':
            ok, _ = _call(o, reg.add_circles, 'add_circles', math.radians(ra0), math.radians(dec0), math.radians(r))
        else:
            vra, vdec = sphere.destination(float(ra0), float(dec0), np.full(len(spec['angles']), r), np.array(spec['angles']))
            desc['vertices_deg'] = [[float(a), float(d)] for a, d in zip(vra, vdec)]
            ok, _ = _call(o, reg.add_poly, 'add_poly', [[math.radians(a), math.radians(d)] for a, d in zip(vra, vdec)])
        return (reg if ok else None), desc
    if kind == 'circles':
        cs = [z.index2sky(*c) for c in spec['centres_index']]
        cs = [c for c in cs if np.isfinite(c[0]) and np.isfinite(c[1])]
        if not cs:
            raise RuntimeError('harness: no region centre has a sky position')
        spec = dict(spec, radii_px=spec['radii_px'][:len(cs)])
        ras = [math.radians(float(c[0])) for c in cs]
        decs = [math.radians(float(c[1])) for c in cs]
        rs = [math.radians(r * px) for r in spec['radii_px']]
        desc.update(centres_deg=[[float(c[0]), float(c[1])] for c in cs], radii_deg=[r * px for r in spec['radii_px']])
        ok, _ = _call(o, reg.add_circles, 'add_circles(lists)', ras, decs, rs)
        return (reg if ok else None), desc
    raise ValueError(kind)


def _make_data(rng, shape, dtype):
    data = rng.normal(0, 1, shape).astype(dtype)
    n = data.size
    if n >= 6:
        flat = data.reshape(-1)
        idx = rng.choice(n, size=min(n // 6, 5), replace=False)
        flat[idx[: len(idx) // 2 + 1]] = np.nan
        flat[idx[len(idx) // 2 + 1:]] = np.inf
        flat[rng.integers(0, n)] = 0.0
        flat[rng.integers(0, n)] = -0.0
    return data


_STORES = {'int16': (np.int16, -32768, 3000), 'int32': (np.int32, -2147483648, 1000000), 'uint8': (np.uint8, 255, None)}


def _write_scaled_integer(rng, infile, hdr, full_shape, store, blank):
    """an image stored as scaled integers: raw integers of type `store`, physical = BZERO + BSCALE * raw, optionally
    a BLANK card with a few blank raw pixels.  Returns what was put in the file, for the evidence."""
    from astropy.io import fits
    itype, blankval, amp = _STORES[store]
    if store == 'uint8':
        raw = rng.integers(0, 250, full_shape)
    else:
        raw = rng.integers(-amp, amp + 1, full_shape)
    raw.reshape(-1)[rng.integers(0, raw.size)] = 0            # a raw zero: physical value BZERO, a legitimate pixel
    bscale = float(rng.choice([0.5, 0.25, 2.0, 0.125]))
    bzero = float(rng.choice([100.0, -7.25, 0.0, 1000.0])) if store != 'uint8' else float(rng.choice([100.0, -16.0]))
    if bscale == 1.0 and bzero == 0.0:
        bscale = 0.5
    hdu = fits.PrimaryHDU(data=raw.astype(np.float64) * bscale + bzero, header=hdr)
    hdu.scale(store, bscale=bscale, bzero=bzero)
    if not np.array_equal(hdu.data, raw.astype(itype)):
        raise RuntimeError('harness: astropy did not store the raw integers that were intended')
    nblank = 0
    if blank:
        nblank = min(raw.size // 6, 4)
        idx = rng.choice(raw.size, size=nblank, replace=False)
        hdu.data.reshape(-1)[idx] = blankval
        hdu.header['BLANK'] = blankval
    with warnings.catch_warnings():
        warnings.simplefilter('ignore')
        hdu.writeto(infile)
        h2 = fits.getheader(infile)
    if h2['BITPIX'] != np.dtype(itype).itemsize * 8 or h2.get('BSCALE', 1.0) != bscale or h2.get('BZERO', 0.0) != bzero \
            or (('BLANK' in h2) != bool(blank)):
        raise RuntimeError('harness: the integer-stored input file does not have the intended header')
    return {'store': store, 'BSCALE': bscale, 'BZERO': bzero, 'BLANK': blankval if blank else None, 'blank_pixels': nblank}


def _bits(a):
    a = np.ascontiguousarray(a)
    return a.view('u4' if a.dtype.itemsize == 4 else 'u8')


class ImageOracle:
    def __init__(self, geom, reg, rng):
        from astropy.wcs import WCS
        self.geom = geom
        self.header = _header(geom)
        self.z = GridWCS(geom)
        with warnings.catch_warnings():
            warnings.simplefilter('ignore')
            self.w = WCS(self.header, naxis=2)
        self.wcs_agreement = _crosscheck_wcs(self.z, self.w, geom['shape'], rng)
        ny, nx = geom['shape']
        I, J = np.meshgrid(np.arange(ny), np.arange(nx), indexing='ij')
        self.ra, self.dec = self.z.index2sky(I, J)
        self.offsky, self.limb = self.z.classify(I, J)
        self.depth = reg.maxdepth
        self.iv = healmember.intervals(reg.pixeldict, reg.maxdepth)
        c0, st = healmember.stable_cell(self.ra.ravel(), self.dec.ravel(), self.depth, EPS)
        self.cell = c0.reshape(ny, nx)
        self.stable = st.reshape(ny, nx)
        self.inside = healmember.member(self.iv, c0).reshape(ny, nx)

    def shifted_inside(self, di, dj):
        """membership the pixel (i, j) would get if the position of index (i+di, j+dj) were used (diagnosis only)"""
        ny, nx = self.geom['shape']
        I, J = np.meshgrid(np.arange(ny) + di, np.arange(nx) + dj, indexing='ij')
        ra, dec = self.z.index2sky(I, J)
        fin = np.isfinite(ra) & np.isfinite(dec)
        c = healmember.cell(np.where(fin, ra, 0.0).ravel(), np.where(fin, dec, 0.0).ravel(), self.depth)
        return healmember.member(self.iv, c).reshape(ny, nx) & fin


def _diagnose(orc, blanked, negate, judged):
    """which whole-pixel displacement of the position grid (if any) reproduces the observed mask on the judged pixels"""
    hits = []
    for di in (-1, 0, 1):
        for dj in (-1, 0, 1):
            ins = orc.shifted_inside(di, dj)
            exp = ins if negate else ~ins
            if np.array_equal(exp[judged], blanked[judged]):
                hits.append([di, dj])
    # transposed / swapped axes
    return hits


def _mech_pixels(hits):
    if hits and [0, 0] not in hits and [-1, -1] in hits:
        return 'mask-plane-origin-one'
    return None


def _judge_plane(o, orc, before, after, negate, tag, desc):
    """before/after: 2-D arrays.  Returns the blanked mask (new NaNs)"""
    was_nan = np.isnan(before)
    now_nan = np.isnan(after)
    blanked = now_nan & ~was_nan
    # values: a pixel that is not NaN afterwards must be bit-identical; a NaN before stays NaN
    changed = (~now_nan) & (_bits(after) != _bits(before))
    lost_nan = was_nan & ~now_nan
    o.count('pixels_value_compared', before.size)
    for (i, j) in np.argwhere(changed | lost_nan)[:3]:
        o.violate('unblanked_value_changed', {'via': tag, 'index': [int(i), int(j)], 'before': repr(before[i, j]),
                                              'after': repr(after[i, j]), 'negate': negate})
    expected_blank = orc.inside if negate else ~orc.inside
    judged = orc.stable & ~was_nan
    o.count('pixels_judged', int(judged.sum()))
    o.count('pixels_undetermined', int((~orc.stable & ~orc.offsky).sum()))
    o.count('pixels_preexisting_nan', int(was_nan.sum()))
    o.count('pixels_expected_blank', int((judged & expected_blank).sum()))
    o.count('pixels_expected_kept', int((judged & ~expected_blank).sum()))
    o.n_eval += int(before.size)
    wrong = judged & (blanked != expected_blank)
    nwrong = int(wrong.sum())
    if nwrong:
        hits = _diagnose(orc, blanked, negate, judged) if blanked.size <= 2 ** 21 else []
        for (i, j) in np.argwhere(wrong)[:3]:
            o.violate('pixel_blanked_but_should_be_kept' if blanked[i, j] else 'pixel_kept_but_should_be_blanked', {
                'via': tag, 'negate': negate, 'index': [int(i), int(j)],
                'position_deg': [float(orc.ra[i, j]), float(orc.dec[i, j])], 'cell': int(orc.cell[i, j]),
                'cell_in_region': bool(orc.inside[i, j]), 'n_wrong_pixels': nwrong, 'n_judged': int(judged.sum()),
                'mask_reproduced_by_index_displacements': hits, 'header': _hdr_summary(orc.geom), 'region': desc},
                _mech_pixels(hits))
    return blanked


def _hdr_summary(g):
    return {k: g[k] for k in ('proj', 'crval', 'crpix', 'cdelt', 'shape', 'use_cd', 'depth')}


def _complementary(o, b0, b1, valid, tag, offsky=None):
    """negate False / True must blank complementary pixel sets (judged on every pixel that was not NaN before,
    including pixels that have no sky position: whichever sense blanks them, exactly one of the two must)"""
    o.count('complementarity_pixels', int(valid.sum()))
    if offsky is not None:
        o.count('complementarity_off_sky_pixels', int((valid & offsky).sum()))
        o.count('off_sky_blanked_by_negate_false', int((valid & offsky & b0).sum()))
        o.count('off_sky_blanked_by_negate_true', int((valid & offsky & b1).sum()))
    bad = valid & ~(b0 ^ b1)
    for (i, j) in np.argwhere(bad)[:3]:
        o.violate('negate_not_complementary', {'via': tag, 'index': [int(i), int(j)], 'n_pixels': int(bad.sum()),
                                               'pixel_has_sky_position': None if offsky is None else bool(~offsky[i, j]),
                                               'blanked_negate_false': bool(b0[i, j]), 'blanked_negate_true': bool(b1[i, j])})


# ----------------------------------------------------------------------------- run
_CHILD = {'proc': None, 'served': 0}
CHILD_RECYCLE = 25


def _child_stop():
    proc = _CHILD['proc']
    _CHILD['proc'] = None
    _CHILD['served'] = 0
    if proc is not None:
        try:
            os.killpg(proc.pid, 9)
        except (ProcessLookupError, PermissionError):
            pass
        try:
            proc.wait(timeout=10)
        except Exception:
            pass


def _child_start():
    import subprocess
    import sys
    env = dict(os.environ, AEGMON_C10_CHILD='1')
    if env.get('AEGMON_SCRATCH'):
        env['AEGMON_SCRATCH'] = os.path.join(env['AEGMON_SCRATCH'], 'child')
    _CHILD['proc'] = subprocess.Popen([sys.executable, '-m', 'aegmon.props.c10', '--child'], stdin=subprocess.PIPE,
                                      stdout=subprocess.PIPE, stderr=subprocess.DEVNULL, env=env, start_new_session=True)
    _CHILD['served'] = 0


def _child_request(case, timeout=600):
    """one case to the helper interpreter; returns the result dict or a string describing how it died"""
    import json
    import select
    proc = _CHILD['proc']
    try:
        proc.stdin.write((json.dumps(case) + '\n').encode())
        proc.stdin.flush()
    except (BrokenPipeError, OSError):
        return 'helper interpreter gone before the request (rc=%s)' % proc.poll()
    buf = b''
    import time
    t_end = time.time() + timeout
    while True:
        left = t_end - time.time()
        if left <= 0:
            return 'helper interpreter timed out'
        r, _, _ = select.select([proc.stdout], [], [], min(left, 5.0))
        if not r:
            if proc.poll() is not None:
                return 'helper interpreter died (rc=%s)' % proc.returncode
            continue
        chunk = os.read(proc.stdout.fileno(), 1 << 16)
        if not chunk:
            return 'helper interpreter died (rc=%s)' % proc.poll()
        buf += chunk
        while b'\n' in buf:
            line, buf = buf.split(b'\n', 1)
            if line.startswith(b'AEGMON-RESULT '):
                try:
                    return json.loads(line[len(b'AEGMON-RESULT '):].decode())
                except ValueError:
                    return 'helper interpreter wrote an unreadable result'


def _run_in_child(case, attempts=3):
    """run one case in a helper interpreter (recycled every CHILD_RECYCLE cases).  Used for VOTable catalogues: with
    astropy 8.0.1 / numpy 2.5.3 the sequence Table.read(votable) -> table[boolean mask] -> write(votable) (exactly what
    mask_catalog does) intermittently corrupts the interpreter's memory (segmentation fault during garbage
    collection, 'unknown opcode'; reproduced with astropy alone), which would take the other cases of the batch with
    it.  A helper that dies or reports a harness error is replaced and the case retried; every death is counted."""
    deaths = []
    for k in range(attempts):
        if _CHILD['proc'] is None or _CHILD['proc'].poll() is not None or _CHILD['served'] >= CHILD_RECYCLE:
            _child_stop()
            _child_start()
        res = _child_request(case)
        _CHILD['served'] += 1
        if isinstance(res, dict) and res.get('verdict') != 'error':
            c = res.setdefault('counters', {})
            c['cases_run_in_a_helper_interpreter'] = c.get('cases_run_in_a_helper_interpreter', 0) + 1
            if deaths:
                c['helper_interpreter_deaths_retried'] = c.get('helper_interpreter_deaths_retried', 0) + len(deaths)
            return res
        deaths.append(res if isinstance(res, str) else 'harness error in the helper: ' + str(res.get('error'))[-300:])
        _child_stop()
    raise RuntimeError('harness: the case could not be run in a helper interpreter (%d attempts): %s' % (attempts, deaths))


def _child_main():
    import json
    import sys
    repo = os.environ.get('AEGMON_REPO', '/repo')
    sys.path.insert(0, repo)
    import AegeanTools
    if not os.path.realpath(AegeanTools.__file__).startswith(os.path.realpath(repo) + os.sep):
        raise RuntimeError('AegeanTools imported from %s, not from %s' % (AegeanTools.__file__, repo))
    from aegmon import common
    import faulthandler
    faulthandler.enable()
    out = os.fdopen(os.dup(1), 'w')           # results go to the original stdout; anything the subject prints does not
    os.dup2(2, 1)

    def _default(x):
        if isinstance(x, np.generic):
            return x.item()
        if isinstance(x, np.ndarray):
            return x.tolist()
        if isinstance(x, (set, frozenset, tuple)):
            return list(x)
        return str(x)
    for line in sys.stdin:
        line = line.strip()
        if not line:
            continue
        case = json.loads(line)
        if hasattr(common, 'reset_scratch'):
            common.reset_scratch()
        try:
            res = run(case)
        except Exception:
            res = {'verdict': 'error', 'error': traceback.format_exc()[-3000:]}
        out.write('AEGMON-RESULT ' + json.dumps(res, default=_default) + '\n')
        out.flush()


def run(case):
    if case.get('kind') == 'catalog' and case.get('fmt') == 'vot' and not os.environ.get('AEGMON_C10_CHILD'):
        return _run_in_child(case)
    sphere.selfcheck()
    healmember.selfcheck()
    if not hasattr(run, '_wcs_checked'):
        wcs_zenithal.selfcheck()
        run._wcs_checked = True
    o = Obs()
    rng = rng_for(*case['seed'])
    kind = case['kind']
    if kind == 'plane':
        _run_plane(o, case, rng)
    elif kind == 'file':
        _run_file(o, case, rng)
    elif kind == 'table':
        _run_table(o, case, rng)
    elif kind == 'catalog':
        _run_catalog(o, case, rng)
    else:
        raise ValueError(kind)
    return o.result()


def _prepare_image(o, case, rng):
    from AegeanTools.regions import Region
    geom = case['geom']
    z = GridWCS(geom)
    reg, desc = _build_region(o, Region, geom, case['region'], z)
    if reg is None:
        return None
    orc = ImageOracle(geom, reg, rng)
    o.see('projection', geom['proj'])
    o.see('region_kind', desc['kind'])
    o.see('cdelt_signs', '%+d%+d' % (np.sign(geom['cdelt'][0]), np.sign(geom['cdelt'][1])))
    ny, nx = geom['shape']
    o.see('crpix_on_image', bool(0.5 <= geom['crpix'][0] <= nx + 0.5 and 0.5 <= geom['crpix'][1] <= ny + 0.5))
    o.worst('wcs_oracle_vs_astropy_deg', orc.wcs_agreement)
    o.worst('cell_width_px_max', geom['ratio'])
    o.worst('cell_width_px_neg_min', -geom['ratio'])
    onsky = ~orc.offsky
    o.worst('undetermined_fraction', float((~orc.stable & onsky).sum() / max(1, onsky.sum())))
    if orc.offsky.any():
        o.count('images_with_off_sky_pixels')
        o.see('projection_with_off_sky_pixels', geom['proj'])
    o.count('pixels_off_sky', int(orc.offsky.sum()))
    o.count('pixels_limb_undetermined', int(orc.limb.sum()))
    if ny * nx > 2 ** 22:
        o.count('big_plane_images')
        o.worst('pixels_per_plane', ny * nx)
    j = orc.stable
    if (orc.inside & j).any() and (~orc.inside & j).any():
        o.count('images_with_boundary')
        # pixels whose membership differs from that of a neighbour: where a one-pixel slip is visible
        ins = orc.inside
        edge = np.zeros_like(ins)
        edge[:-1, :] |= ins[:-1, :] != ins[1:, :]
        edge[:, :-1] |= ins[:, :-1] != ins[:, 1:]
        o.count('boundary_pixels', int(edge.sum()))
    return reg, desc, orc


LAYOUTS = ('C', 'F', 'transposed_view', 'slice', 'slice_of_F', 'stepped', 'negative_strides', 'byteswapped',
           'byteswapped_slice', 'row_of_cube')


def _with_layout(data, layout, rng):
    """(work, parent, view_mask): `work` has the values of `data` in the requested memory layout; for views `parent`
    is the array owning the memory and `view_mask` marks the parent elements that belong to the view"""
    ny, nx = data.shape
    if layout == 'C':
        return data.copy(), None, None
    if layout == 'F':
        return np.asfortranarray(data), None, None
    if layout == 'transposed_view':
        return np.ascontiguousarray(data.T).T, None, None
    if layout == 'byteswapped':
        return data.astype(data.dtype.newbyteorder('S')), None, None
    if layout in ('slice', 'slice_of_F', 'byteswapped_slice'):
        a, b, c, d = (int(x) for x in rng.integers(0, 6, 4))
        parent = rng.normal(0, 1, (ny + a + b, nx + c + d)).astype(data.dtype)
        if layout == 'slice_of_F':
            parent = np.asfortranarray(parent)
        if layout == 'byteswapped_slice':
            parent = parent.astype(data.dtype.newbyteorder('S'))
        sl = (slice(a, a + ny), slice(c, c + nx))
    elif layout == 'stepped':
        si, sj = int(rng.integers(1, 4)), int(rng.integers(2, 4))
        parent = rng.normal(0, 1, (ny * si + 1, nx * sj + 2)).astype(data.dtype)
        sl = (slice(1, 1 + ny * si, si), slice(0, nx * sj, sj))
    elif layout == 'negative_strides':
        parent = rng.normal(0, 1, (ny + 1, nx)).astype(data.dtype)
        sl = (slice(-2, None, -1), slice(None, None, -1))      # rows ny-1 .. 0 of the ny+1, columns reversed
    elif layout == 'row_of_cube':
        parent = rng.normal(0, 1, (ny, 3, nx)).astype(data.dtype)
        sl = (slice(None), 1, slice(None))
    else:
        raise ValueError(layout)
    work = parent[sl]
    if work.shape != data.shape:
        raise RuntimeError('harness: layout %s gave shape %s for %s' % (layout, work.shape, data.shape))
    work[...] = data
    vm = np.zeros(parent.shape, dtype=bool)
    vm[sl] = True
    return work, parent, vm


def _native(a, dtype):
    return np.ascontiguousarray(np.asarray(a).astype(dtype))


def _run_plane(o, case, rng):
    from AegeanTools import MIMAS
    prep = _prepare_image(o, case, rng)
    if prep is None:
        return
    reg, desc, orc = prep
    geom = case['geom']
    data = _make_data(rng, geom['shape'], case['dtype'])
    o.see('dtype', case['dtype'])
    blank = {}
    layout = case.get('layout', 'C')
    o.see('memory_layout', layout)
    for negate in (False, True):
        work, parent, vmask = _with_layout(data, layout, rng_for(*case['seed'], 'layout', negate))
        if not np.array_equal(_bits(_native(work, data.dtype)), _bits(data)):
            raise RuntimeError('harness: layout %s does not hold the image' % layout)
        o.see('array_flags', '%s%s%s' % ('C' if work.flags.c_contiguous else '', 'F' if work.flags.f_contiguous else '',
                                         '' if work.dtype.isnative else ' swapped'))
        if not work.flags.c_contiguous:
            o.count('noncontiguous_planes')
        if not work.dtype.isnative:
            o.count('byteswapped_planes')
        outside_before = None if parent is None else _native(parent, data.dtype)[~vmask].copy()
        ok, ret = _call(o, MIMAS.mask_plane, 'mask_plane(negate=%s) shape=%s layout=%s' % (negate, list(geom['shape']),
                                                                                           layout),
                        work, orc.w, reg, negate)
        if not ok:
            continue
        if not (isinstance(ret, np.ndarray) and ret.shape == data.shape):
            o.violate('result_shape', {'returned': str(type(ret)), 'shape': list(getattr(ret, 'shape', []))})
            continue
        # the documented effect is on the array that was passed in ("the original array, but masked")
        after = _native(work, data.dtype)
        if ret is not work and not np.array_equal(_bits(_native(ret, data.dtype)), _bits(after)):
            o.violate('returned_array_differs_from_inplace', {'negate': negate, 'layout': layout})
        if parent is not None:
            o.count('parent_pixels_outside_view_compared', int((~vmask).sum()))
            if not np.array_equal(_bits(_native(parent, data.dtype)[~vmask].copy()), _bits(outside_before)):
                o.violate('pixels_outside_the_view_changed', {'negate': negate, 'layout': layout})
        blank[negate] = _judge_plane(o, orc, data, after, negate, 'mask_plane[%s]' % layout, desc)
    if len(blank) == 2:
        _complementary(o, blank[False], blank[True], ~np.isnan(data), 'mask_plane', orc.offsky)
    if orc.stable.any() and orc.inside[orc.stable].any() and (~orc.inside[orc.stable]).any():
        o.n_nontrivial += int((orc.stable & ~np.isnan(data)).sum())
    o.sample = {'header': _hdr_summary(geom), 'region': desc, 'region_deepest_pixels': healmember.n_deepest(orc.iv),
                'pixels': int(data.size), 'inside': int(orc.inside.sum()), 'undetermined': int((~orc.stable).sum()),
                'blanked_negate_false': int(blank[False].sum()) if False in blank else None}


_DIMS = {'2d': (), '3d': ((3, 'FREQ'),), '3d_1': ((1, 'FREQ'),), '4d_11': ((1, 'FREQ'), (1, 'STOKES')),
         '4d_1n': ((3, 'FREQ'), (1, 'STOKES')), '4d_n1': ((1, 'FREQ'), (2, 'STOKES'))}


def _run_file(o, case, rng):
    from astropy.io import fits
    from AegeanTools import MIMAS
    prep = _prepare_image(o, case, rng)
    if prep is None:
        return
    reg, desc, orc = prep
    geom = case['geom']
    extra = _DIMS[case['dims']]
    o.see('file_dims', case['dims'])
    full_shape = tuple(n for n, _ in reversed(extra)) + tuple(geom['shape'])
    store = case.get('store', 'float')
    o.see('file_storage', store + ('+BLANK' if case.get('blank') else ''))
    d = scratch_dir()
    try:
        mim = os.path.join(d, 'region.mim')
        reg.save(mim)          # plain pickle of the object (Region.save); the region is not otherwise touched
        infile = os.path.join(d, 'in.fits')
        hdr = _header(geom, extra)
        stored = None
        if store == 'float':
            data = _make_data(rng, full_shape, case['dtype'])
            fits.PrimaryHDU(data=data, header=hdr).writeto(infile)
        else:
            stored = _write_scaled_integer(rng, infile, hdr, full_shape, store, bool(case.get('blank')))
            o.count('integer_stored_files')
            # the reference "before" image is the file as astropy reads it (physical values, NaN at BLANK pixels)
            with warnings.catch_warnings():
                warnings.simplefilter('ignore')
                data = np.array(fits.getdata(infile))
            data = data.astype(data.dtype.newbyteorder('='))
            if data.dtype.kind != 'f' or int(np.isnan(data).sum()) != stored['blank_pixels']:
                raise RuntimeError('harness: scaled-integer input not read back as float with NaN at BLANK pixels')
        planes_in = data.reshape((-1,) + tuple(geom['shape']))
        blank = {}
        for negate in (False, True):
            outfile = os.path.join(d, 'out_%d.fits' % negate)
            if case.get('cli'):
                from AegeanTools.CLI import MIMAS as cli
                argv = ['--maskimage', mim, infile, outfile] + (['--negate'] if negate else [])
                ok, rc = _call(o, cli.main, 'MIMAS ' + ' '.join(argv[:1] + argv[4:]) + ' dims=' + case['dims'], argv)
                o.count('cli_runs')
            else:
                ok, rc = _call(o, MIMAS.mask_file, 'mask_file(negate=%s) dims=%s' % (negate, case['dims']),
                               mim, infile, outfile, negate)
            if not ok:
                continue
            if not os.path.exists(outfile):
                o.violate('no_output_file', {'negate': negate, 'dims': case['dims']})
                continue
            with warnings.catch_warnings():
                warnings.simplefilter('ignore')
                out = fits.getdata(outfile)
            if out.size != data.size:
                o.violate('output_size', {'input': list(data.shape), 'output': list(out.shape), 'dims': case['dims'],
                                          'negate': negate})
                continue
            # degenerate non-celestial axes may be dropped on output (not part of the statement); pixels are
            # compared in file order.  A lost celestial axis is recorded, and judged through its effect on the pixels.
            if tuple(out.shape[-2:]) != tuple(data.shape[-2:]):
                o.count('output_plane_shape_differs_from_input')
            if out.dtype.newbyteorder('=') != data.dtype.newbyteorder('='):
                o.violate('output_dtype', {'input': str(data.dtype), 'output': str(out.dtype)})
                continue
            planes_out = np.asarray(out, dtype=data.dtype).reshape(planes_in.shape)
            masks = []
            for p in range(planes_in.shape[0]):
                masks.append(_judge_plane(o, orc, planes_in[p], planes_out[p], negate,
                                          'mask_file' + ('(cli)' if case.get('cli') else '') + ' plane %d' % p, desc))
            # every plane masked identically (on pixels that were not NaN in either plane)
            for p in range(1, len(masks)):
                valid = ~np.isnan(planes_in[0]) & ~np.isnan(planes_in[p])
                o.count('cube_planes_compared')
                diff = valid & (masks[0] != masks[p])
                for (i, j) in np.argwhere(diff)[:3]:
                    o.violate('planes_masked_differently', {'plane': p, 'index': [int(i), int(j)], 'negate': negate})
            blank[negate] = (masks, planes_in)
            # the input file must be untouched
            with warnings.catch_warnings():
                warnings.simplefilter('ignore')
                again = fits.getdata(infile)
            if not np.array_equal(_bits(np.asarray(again, dtype=data.dtype)), _bits(data)):
                o.violate('input_file_modified', {'negate': negate})
        if len(blank) == 2:
            for p in range(planes_in.shape[0]):
                _complementary(o, blank[False][0][p], blank[True][0][p], ~np.isnan(planes_in[p]), 'mask_file', orc.offsky)
        if orc.stable.any() and orc.inside[orc.stable].any() and (~orc.inside[orc.stable]).any():
            o.n_nontrivial += int(orc.stable.sum()) * planes_in.shape[0]
        o.sample = {'header': _hdr_summary(geom), 'dims': case['dims'], 'file_shape': list(full_shape), 'region': desc,
                    'inside': int(orc.inside.sum()), 'cli': bool(case.get('cli')), 'storage': stored or store}
    finally:
        shutil.rmtree(d, ignore_errors=True)


# ----------------------------------------------------------------------------- tables
def _table_region(o, case, rng):
    from AegeanTools.regions import Region
    depth = case['depth']
    ok, reg = _call(o, Region, 'Region(maxdepth=%d)' % depth, maxdepth=depth)
    if not ok:
        return None
    pix = resol_deg(depth)
    ra0 = float(rng.choice([rng.uniform(0, 360), 0.0, 359.999]))
    dec0 = float(rng.choice([math.degrees(math.asin(rng.uniform(-1, 1))), 89.5, -90.0, 0.0]))
    r = float(min(pix * 10 ** rng.uniform(0.2, 1.6), 60.0))
    if rng.random() < 0.7:
        ok, _ = _call(o, reg.add_circles, 'add_circles', math.radians(ra0), math.radians(dec0), math.radians(r))
        kind = 'circle'
    else:
        ang = np.sort(rng.uniform(0, 360, 5))
        while np.diff(np.concatenate([ang, [ang[0] + 360]])).min() < 10:
            ang = np.sort(rng.uniform(0, 360, 5))
        vra, vdec = sphere.destination(ra0, max(min(dec0, 89.0), -89.0), np.full(5, r), ang)
        ok, _ = _call(o, reg.add_poly, 'add_poly', [[math.radians(a), math.radians(d)] for a, d in zip(vra, vdec)])
        kind = 'poly'
    if not ok:
        return None
    desc = {'kind': kind, 'centre_deg': [ra0, dec0], 'radius_deg': r, 'depth': depth, 'pixel_size_deg': pix}
    coarse = case.get('coarse')
    if coarse:
        a, d = sphere.destination(ra0, max(min(dec0, 89.0), -89.0), coarse['offset_frac'] * coarse['radius_deg'],
                                  coarse['bearing'])
        ra_c, dec_c = float(a) % 360.0, float(np.clip(d, -89.0, 89.0))
        if not _add_coarse(o, Region, reg, coarse, ra_c, dec_c):
            return None
        desc['coarse'] = dict(coarse, centre_deg=[ra_c, dec_c])
    return reg, desc


def _table_rows(rng, n, special, desc):
    ra0, dec0 = desc['centre_deg']
    r, pix = desc['radius_deg'], desc['pixel_size_deg']
    if n == 0:
        return np.zeros(0), np.zeros(0)
    if special == 'all_inside':
        s = 0.5 * r * np.sqrt(rng.uniform(0, 1, n))
    elif special == 'all_outside':
        s = r + 4 * pix + rng.uniform(0, 20, n)
    else:
        s = np.where(rng.random(n) < 0.6, (r + 2 * pix) * np.sqrt(rng.uniform(0, 1, n)),
                     r + pix * rng.uniform(-2, 4, n))
    s = np.clip(s, 0, 180)
    ra, dec = sphere.destination(ra0, dec0, s, rng.uniform(0, 360, n))
    ra = ra % 360.0
    if special not in ('all_inside', 'all_outside') and n >= 12:
        far = rng.random(n) < 0.2
        ra = np.where(far, rng.uniform(0, 360, n), ra)
        dec = np.where(far, np.degrees(np.arcsin(rng.uniform(-1, 1, n))), dec)
        # hostile values
        k = max(1, n // 15)
        idx = rng.choice(n, size=min(n, 6 * k), replace=False)
        parts = np.array_split(idx, 6)
        ra[parts[0]] = np.nan
        dec[parts[1]] = np.nan
        ra[parts[2]] = rng.choice([np.inf, -np.inf, np.nan], len(parts[2]))
        dec[parts[2]] = rng.choice([np.inf, np.nan], len(parts[2]))
        ra[parts[3]] = rng.choice([0.0, 360.0], len(parts[3]))
        dec[parts[4]] = rng.choice([90.0, -90.0], len(parts[4]))
        # rows on the region centre itself
        ra[parts[5]] = ra0
        dec[parts[5]] = dec0
    if special == 'all_nonfinite':
        ra = rng.choice([np.nan, np.inf, 10.0], n)
        dec = np.where(np.isfinite(ra), np.nan, rng.choice([np.nan, 5.0, -np.inf], n))
    return ra, np.clip(dec, -90, 90)


CASE_SCHEMES = ('case:ra,dec:RA,DEC:after', 'case:ra,dec:RA,DEC:before', 'case:ra,dec:RA,DEC:after:explicit',
                'case:RA,DEC:ra,dec:after', 'case:RA,DEC:ra,dec:before', 'case:Ra,Dec:ra,dec,RA,DEC:after',
                'case:Ra,Dec:RA,DEC,ra,dec:before', 'case:ra,dec:Ra,Dec,RA,DEC:before',
                'case:ra,DEC:RA,dec:after', 'case:RAJ2000,DEJ2000:raj2000,dej2000,Raj2000,DeJ2000:after')


def _col_scheme(cols):
    """names of the coordinate columns to ask for, extra columns whose names differ from them only in case (holding
    different positions), where those extra columns sit, and whether the names are passed explicitly"""
    if cols == 'std':
        return {'racol': 'ra', 'deccol': 'dec', 'decoys': [], 'first': False, 'explicit': False}
    if cols == 'custom':
        return {'racol': 'RAJ2000', 'deccol': 'DEJ2000', 'decoys': [], 'first': False, 'explicit': True}
    parts = cols.split(':')
    racol, deccol = parts[1].split(',')
    return {'racol': racol, 'deccol': deccol, 'decoys': parts[2].split(','), 'first': parts[3] == 'before',
            'explicit': (racol, deccol) != ('ra', 'dec') or 'explicit' in parts[4:]}


def _make_table(rng, case, desc):
    from astropy.table import Table, MaskedColumn
    n = case['n']
    ra, dec = _table_rows(rng, n, case['special'], desc)
    sch = _col_scheme(case['cols'])
    racol, deccol = sch['racol'], sch['deccol']
    flux = rng.normal(1, 1, n)
    if n:
        flux[rng.integers(0, n, max(1, n // 10))] = np.nan
    t = Table()
    t['id'] = np.arange(n, dtype=np.int64)

    def add_decoys():
        # columns named like the coordinate columns up to case, holding *other* positions (around the region too,
        # so that using them changes the answer for many rows)
        if not sch['decoys']:
            return
        r2 = rng_for(*case['seed'], 'decoys')
        for name in sch['decoys']:
            a, d = _table_rows(r2, n, 'decoy', desc) if n >= 12 else (r2.uniform(0, 360, n), r2.uniform(-80, 80, n))
            is_ra = name.lower().startswith('r')
            t[name] = np.where(np.isfinite(a), a, 0.0) if is_ra else np.where(np.isfinite(d), d, 0.0)
    if sch['first']:
        add_decoys()
    undefined = ~(np.isfinite(ra) & np.isfinite(dec))
    if case['special'] == 'masked' and n:
        m = rng.random(n) < 0.15
        md = rng.random(n) < 0.1
        t[racol] = MaskedColumn(np.where(np.isfinite(ra), ra, 0.0), mask=m | ~np.isfinite(ra))
        t[deccol] = MaskedColumn(np.where(np.isfinite(dec), dec, 0.0), mask=md | ~np.isfinite(dec))
        undefined = undefined | m | md
        # the masked slots deliberately hold a *valid* position (0, 0 or the hidden value)
    else:
        t[racol] = ra
        t[deccol] = dec
    t['name'] = np.array(['src%05d' % i for i in range(n)], dtype='U8')
    t['flux'] = flux
    t['other_ra'] = rng.uniform(0, 360, n)          # a decoy column: must not be used when the custom names are given
    if not sch['first']:
        add_decoys()
    return t, racol, deccol, ra, dec, undefined


def _row_oracle(o, reg, ra, dec, undefined):
    iv = healmember.intervals(reg.pixeldict, reg.maxdepth)
    c, st = healmember.stable_cell(np.where(undefined, 0.0, ra), np.where(undefined, 0.0, dec), reg.maxdepth, EPS)
    inside = healmember.member(iv, c) & ~undefined
    determined = st | undefined
    o.count('rows_exactly_at_pole_undetermined', int((~determined & (np.abs(np.where(undefined, 0.0, dec)) == 90)).sum()))
    # exactly at a pole the "four points around" are meaningless but the cell is well defined only by convention
    return inside, determined


def _judge_rows(o, tag, negate, ids_in, kept_ids, inside, determined, undefined, desc, rows_preview):
    n = len(ids_in)
    expected_keep = inside if negate else ~inside
    kept = np.zeros(n, dtype=bool)
    ok_ids = True
    kept_ids = np.asarray(kept_ids)
    if len(kept_ids) and (kept_ids.min() < 0 or kept_ids.max() >= n or len(np.unique(kept_ids)) != len(kept_ids)):
        o.violate('rows_not_a_subset', {'via': tag, 'negate': negate, 'ids_out': kept_ids[:20].tolist()})
        ok_ids = False
    if ok_ids:
        kept[kept_ids.astype(int)] = True
        if len(kept_ids) > 1 and not np.all(np.diff(kept_ids) > 0):
            o.violate('row_order_changed', {'via': tag, 'negate': negate, 'ids_out': kept_ids[:20].tolist()})
        o.count('rows_judged', int(determined.sum()))
        o.count('rows_undetermined', int((~determined).sum()))
        o.count('rows_expected_kept', int((determined & expected_keep).sum()))
        o.count('rows_expected_removed', int((determined & ~expected_keep).sum()))
        o.count('rows_nonfinite', int(undefined.sum()))
        o.n_eval += n
        wrong = determined & (kept != expected_keep)
        for i in np.flatnonzero(wrong)[:3]:
            clause = 'undefined_row_treated_as_inside' if undefined[i] else \
                ('row_kept_but_should_be_removed' if kept[i] else 'row_removed_but_should_be_kept')
            o.violate(clause, {'via': tag, 'negate': negate, 'row': int(i), 'coordinates': rows_preview(i),
                               'cell_in_region': bool(inside[i]), 'n_wrong_rows': int(wrong.sum()), 'n_rows': n,
                               'region': desc})
    return kept if ok_ids else None


def _same_value(a, b):
    """cell equality with NaN == NaN and masked == masked/NaN"""
    am = a is np.ma.masked or (isinstance(a, float) and math.isnan(a)) or (isinstance(a, np.floating) and np.isnan(a))
    bm = b is np.ma.masked or (isinstance(b, float) and math.isnan(b)) or (isinstance(b, np.floating) and np.isnan(b))
    if am or bm:
        return am and bm
    if isinstance(a, (bytes, np.bytes_)):
        a = a.decode()
    if isinstance(b, (bytes, np.bytes_)):
        b = b.decode()
    if isinstance(a, (str, np.str_)) or isinstance(b, (str, np.str_)):
        return str(a).strip() == str(b).strip()
    return a == b


def _compare_columns(o, tag, tin, tout, kept_ids, exact_names=True):
    """every kept row carries all its original cells"""
    if exact_names and list(tout.colnames) != list(tin.colnames):
        o.violate('columns_changed', {'via': tag, 'in': list(tin.colnames), 'out': list(tout.colnames)})
        return
    nbad = 0
    for name in tin.colnames:
        if name not in tout.colnames:
            o.violate('columns_changed', {'via': tag, 'missing': name})
            return
        cin = tin[name]
        cout = tout[name]
        for k, i in enumerate(kept_ids):
            if not _same_value(cin[int(i)], cout[k]):
                nbad += 1
                if nbad <= 3:
                    o.violate('row_content_changed', {'via': tag, 'column': name, 'row_id': int(i),
                                                      'before': repr(cin[int(i)]), 'after': repr(cout[k])})
    o.count('cells_compared', len(kept_ids) * len(tin.colnames))


def _run_table(o, case, rng):
    from AegeanTools import MIMAS
    tr = _table_region(o, case, rng)
    if tr is None:
        return
    reg, desc = tr
    t, racol, deccol, ra, dec, undefined = _make_table(rng, case, desc)
    n = len(t)
    o.see('table_columns', racol + '/' + deccol)
    o.see('table_special', case['special'])
    if n == 0:
        o.count('empty_tables')
    inside, determined = _row_oracle(o, reg, ra, dec, undefined)
    snapshot = t.copy()
    kept = {}
    for negate in (False, True):
        kw = {'racol': racol, 'deccol': deccol} if _col_scheme(case['cols'])['explicit'] else {}
        if _col_scheme(case['cols'])['decoys']:
            o.count('tables_with_case_variant_columns')
        ok, res = _call(o, MIMAS.mask_table, 'mask_table(n=%d, negate=%s, cols=%s)' % (n, negate, case['cols']),
                        reg, t, negate=negate, **kw)
        if not ok:
            if n == 0:
                o.n_eval += 1
            continue
        if n == 0:
            o.n_eval += 1
            if len(res) != 0 or list(res.colnames) != list(t.colnames):
                o.violate('empty_table_result', {'rows': len(res), 'columns': list(res.colnames)})
            continue
        kept[negate] = _judge_rows(o, 'mask_table', negate, np.arange(n), np.asarray(res['id']), inside, determined,
                                   undefined, desc, lambda i: [repr(t[racol][i]), repr(t[deccol][i])])
        if kept[negate] is not None:
            _compare_columns(o, 'mask_table', snapshot, res, np.asarray(res['id']))
    # the caller's table is not modified
    if len(t) != len(snapshot) or any(not _same_value(a, b) for name in t.colnames
                                      for a, b in zip(t[name][:50], snapshot[name][:50])):
        o.violate('input_table_modified', {'n': n})
    if n and kept.get(False) is not None and kept.get(True) is not None:
        # complementary on rows with defined coordinates; undefined rows are kept by negate=False only
        both = kept[False] & kept[True]
        neither = ~kept[False] & ~kept[True] & ~undefined
        for i in np.flatnonzero(both | neither)[:3]:
            o.violate('negate_not_complementary', {'via': 'mask_table', 'row': int(i),
                                                   'kept_false': bool(kept[False][i]), 'kept_true': bool(kept[True][i])})
        o.count('complementarity_rows', n)
    if n and inside.any() and (~inside & ~undefined).any():
        o.n_nontrivial += int(determined.sum())
    elif n == 0:
        o.n_nontrivial += 1
    o.sample = {'rows': n, 'region': desc, 'inside': int(inside.sum()), 'undefined': int(undefined.sum()),
                'columns': [racol, deccol], 'special': case['special'],
                'kept_negate_false': int(kept[False].sum()) if kept.get(False) is not None else None}


def _run_catalog(o, case, rng):
    from astropy.table import Table
    from astropy.io import ascii as asc
    from AegeanTools import MIMAS
    tr = _table_region(o, case, rng)
    if tr is None:
        return
    reg, desc = tr
    t, racol, deccol, ra, dec, undefined = _make_table(rng, case, desc)
    n = len(t)
    fmt = case['fmt']
    o.see('catalog_format', fmt)
    if n == 0:
        o.count('empty_tables')
    inside, determined = _row_oracle(o, reg, ra, dec, undefined)
    d = scratch_dir()
    try:
        mim = os.path.join(d, 'region.mim')
        reg.save(mim)
        infile = os.path.join(d, 'in.' + fmt)
        with warnings.catch_warnings():
            warnings.simplefilter('ignore')
            if fmt == 'csv':
                asc.write(t, infile, format='csv')
            elif fmt == 'vot':
                t.write(infile, format='votable')
            else:
                t.write(infile, format='fits')
        for negate in (False, True):
            outfile = os.path.join(d, 'out_%d.%s' % (negate, fmt))
            what = 'n=%d fmt=%s negate=%s cols=%s' % (n, fmt, negate, case['cols'])
            if case.get('cli'):
                from AegeanTools.CLI import MIMAS as cli
                argv = ['--maskcat', mim, infile, outfile] + (['--negate'] if negate else [])
                if _col_scheme(case['cols'])['explicit']:
                    argv += ['--colnames', racol, deccol]
                ok, _ = _call(o, cli.main, 'MIMAS --maskcat ' + what, argv)
                o.count('cli_runs')
            elif _col_scheme(case['cols'])['explicit']:
                ok, _ = _call(o, MIMAS.mask_catalog, 'mask_catalog ' + what, mim, infile, outfile, negate=negate,
                              racol=racol, deccol=deccol)
            else:
                ok, _ = _call(o, MIMAS.mask_catalog, 'mask_catalog(default column names) ' + what, mim, infile, outfile,
                              negate=negate)
            if _col_scheme(case['cols'])['decoys']:
                o.count('tables_with_case_variant_columns')
            o.count('catalog_files')
            if not ok:
                o.n_eval += 1
                continue
            if not os.path.exists(outfile):
                o.violate('no_output_file', {'what': what})
                continue
            with warnings.catch_warnings():
                warnings.simplefilter('ignore')
                tout = asc.read(outfile, format='csv') if fmt == 'csv' else Table.read(outfile)
            if n == 0:
                o.n_eval += 1
                if len(tout) != 0:
                    o.violate('empty_table_result', {'rows': len(tout), 'what': what})
                continue
            if len(tout) == 0:
                ids = np.zeros(0, dtype=int)
            elif 'id' not in tout.colnames:
                o.violate('columns_changed', {'via': 'mask_catalog', 'out': list(tout.colnames)})
                continue
            else:
                ids = np.asarray(tout['id']).astype(int)
            kept = _judge_rows(o, 'mask_catalog[%s]%s' % (fmt, '(cli)' if case.get('cli') else ''), negate,
                               np.arange(n), ids, inside, determined, undefined, desc,
                               lambda i: [repr(t[racol][i]), repr(t[deccol][i])])
            if kept is not None and len(ids):
                _compare_columns(o, 'mask_catalog[%s]' % fmt, t, tout, ids)
        if n and inside.any() and (~inside & ~undefined).any():
            o.n_nontrivial += int(determined.sum())
        elif n == 0:
            o.n_nontrivial += 1
        o.sample = {'rows': n, 'format': fmt, 'region': desc, 'inside': int(inside.sum()),
                    'undefined': int(undefined.sum()), 'columns': [racol, deccol], 'cli': bool(case.get('cli'))}
    finally:
        shutil.rmtree(d, ignore_errors=True)


if __name__ == '__main__':
    _child_main()
