"""C13 - sign symmetry and polarity filters of the source finder.

Metamorphic pairs on the real find_sources_in_image: (image, bkg) vs (-image, -bkg) with both polarities requested,
and the four (nopositive, nonegative) settings on one image.  Islands that contain both a pixel >= +flood and a pixel
<= -flood (decided from the image by an independent flood fill) are the mechanism of the one recorded finding.
"""
import os
import shutil
import sys

import numpy as np

from aegmon.common import Obs, rng_for, scratch_dir
from aegmon.gen import fields
from aegmon.refs import catalog_inv, floodfill
from aegmon.refs import wcs_zenithal as wz

ID = 'C13'
LEVEL = 'exploration'
RULE = ('a case is one synthetic field with well separated sources of both signs in beam-correlated noise (plus, in the '
        'mixed stratum, negative sources touching positive ones), with forced or file-supplied rms/bkg (bkg a gradient, '
        'negated with the image); run as image, as -image, and with each (nopositive, nonegative) setting. An evaluation '
        'is one find_sources_in_image run; non-trivial = the both-polarity catalogue has sources of both signs; distinct = '
        'distinct case dicts')
ASSUMPTIONS = ['floats compared to 1e-6 relative (the mirrored optimiser trajectory is exact in exact arithmetic; probe: 4e-9), '
               'residual_mean on the scale of residual_std', 'island polarity class decided from the image with the forced '
               'rms by aegmon/refs/floodfill.py']
MIN_REACH = {'source_finder:SourceFinder.find_sources_in_image': 1}
MIN_COUNTERS = {'fields_with_a_noise_map_gradient': 3, 'quantised_images': 3, 'pixels_exactly_on_a_clip_level': 20, 'reused_finder_runs': 50, 'island_rows_compared_sign_symmetry': 30, 'rows_compared_sign_symmetry': 50, 'filter_sets_checked': 5, 'single_polarity_islands_compared': 20}
BATCHES_PER_JOB = 2
KEY_MIXED = 'mixed-polarity-island'
FLOATS = ['ra', 'dec', 'a', 'b', 'pa', 'err_ra', 'err_dec', 'err_peak_flux', 'err_int_flux', 'err_a', 'err_b', 'err_pa',
          'local_rms', 'psf_a', 'psf_b', 'psf_pa']
NEGATED = ['peak_flux', 'int_flux', 'background']


def sys_path_repo():
    repo = os.environ.get('AEGMON_REPO', '/repo')
    if sys.path[0] != repo:
        sys.path.insert(0, repo)
    return repo


def cases(seed, tier):
    rng = rng_for(seed, 'c13')
    out = []
    n = 30 if tier == 'quick' else 300
    for i in range(n):
        mixed = i % 3 == 2
        shape = (int(rng.integers(110, 170)), int(rng.integers(110, 170)))
        spec = fields.gen_field(rng, n_sources=int(rng.integers(8, 20)), shape=shape, blends=0.15, faint=0.15, negative=0.45,
                                tiny=int(rng.integers(0, 3)), nan_blocks=int(rng.integers(0, 2)), edge=1, isolated=False)
        if mixed:
            # a negative source touching a positive one
            extra = []
            beam_px = spec['beam'][0] / spec['scale']
            for s in spec['sources'][:4]:
                d = float(rng.uniform(1.1, 2.0)) * beam_px
                t = float(rng.uniform(0, 2 * np.pi))
                extra.append({'index': [s['index'][0] + d * np.cos(t), s['index'][1] + d * np.sin(t)],
                              'peak': -s['peak'] * float(rng.uniform(0.4, 1.2)), 'a': s['a'], 'b': s['b'], 'pa': s['pa'], 'kind': 'mixed'})
            spec['sources'] += extra
        out.append({'kind': 'field', 'field': spec, 'aux': 'files' if i % 2 else 'forced', 'docov': bool(rng.random() < 0.6),
                    'mixed_stratum': mixed, 'bkg_gradient': [float(rng.uniform(-0.01, 0.01)), float(rng.uniform(-0.01, 0.01)), float(rng.uniform(-2, 2))]})
        if i % 4 == 1:
            out[-1]['rms_gradient'] = [float(rng.uniform(-0.002, 0.002)), float(rng.uniform(-0.002, 0.002))]
            out[-1]['aux'] = 'files'
        if i % 5 == 3:
            out[-1]['quantised'] = True
            out[-1]['aux'] = 'forced'
    return out


def _find(fn, case, aux, nopositive=False, nonegative=False, sf=None):
    from AegeanTools.source_finder import SourceFinder
    import logging
    if sf is None:
        sf = SourceFinder(log=logging.getLogger('aegmon-null'))
    kw = dict(cores=1, docov=case['docov'], nopositive=nopositive, nonegative=nonegative, doislandflux=True)
    if aux is None:
        kw.update(rms=1.0, bkg=0.0)
    else:
        kw.update(rmsin=aux[0], bkgin=aux[1])
    return sf.find_sources_in_image(fn, **kw)


ISLAND_COLS = ['island', 'components', 'ra', 'dec', 'ra_str', 'dec_str', 'peak_flux', 'int_flux', 'background', 'local_rms',
               'pixels', 'x_width', 'y_width', 'max_angular_size', 'area', 'eta']
ISLAND_ROWS = {}


def _split(srcs):
    from AegeanTools.models import ComponentSource, IslandSource
    comps = [catalog_inv.as_row(s) for s in srcs if isinstance(s, ComponentSource)]
    isles = {s.island: [int(v) for v in s.extent] for s in srcs if isinstance(s, IslandSource)}
    ISLAND_ROWS[id(isles)] = {s.island: catalog_inv.as_row(s, ISLAND_COLS) for s in srcs if isinstance(s, IslandSource)}
    return comps, isles


def _guard(o, ctx, fn):
    try:
        return fn()
    except Exception:
        import traceback
        tb = traceback.format_exc()
        frames = [l for l in tb.splitlines() if l.strip().startswith('File ')]
        if any('/AegeanTools/' in f for f in frames[-3:]):
            o.violate('raises', dict(ctx, traceback=tb[-1800:]))
            return None
        raise


def run(case):
    sys_path_repo()
    wz.selfcheck()
    floodfill.selfcheck()
    o = Obs()
    sc = scratch_dir()
    try:
        from astropy.io import fits
        h, z, truth, img = fields.build(case['field'])
        rows, cols = img.shape
        gy, gx, g0 = case['bkg_gradient']
        yy, xx = np.mgrid[0:rows, 0:cols]
        aux_p = aux_n = None
        data = img.astype(np.float64)
        if case['aux'] == 'files':
            bkg = (g0 + gy * yy + gx * xx).astype(np.float32)
            rms = np.ones_like(bkg) * np.float32(1.0)
            if case.get('rms_gradient'):
                # a noise map that changes across the field (and so across every island): the same map serves the image
                # and its negation
                rms = (1.0 + case['rms_gradient'][0] * (yy - rows / 2.0) + case['rms_gradient'][1] * (xx - cols / 2.0)).astype(np.float32)
                o.count('fields_with_a_noise_map_gradient')
            data = data + bkg
            for name, arr in (('rms', rms), ('bkg', bkg), ('nbkg', -bkg)):
                fits.PrimaryHDU(arr, header=h).writeto(os.path.join(sc, name + '.fits'), overwrite=True)
            aux_p = (os.path.join(sc, 'rms.fits'), os.path.join(sc, 'bkg.fits'))
            aux_n = (os.path.join(sc, 'rms.fits'), os.path.join(sc, 'nbkg.fits'))
        if case.get('quantised'):
            # pixel values on a grid of 1/4 (rms 1, clips 5 and 4): many pixels sit EXACTLY on the flood and seed levels, in
            # both polarities - a tie must be decided the same way for +x and -x
            data = np.round(data * 4.0) / 4.0
            o.count('quantised_images')
            o.count('pixels_exactly_on_a_clip_level', int(np.sum((np.abs(data) == 4.0) | (np.abs(data) == 5.0))))
        pos = os.path.join(sc, 'pos.fits')
        neg = os.path.join(sc, 'neg.fits')
        fits.PrimaryHDU(data.astype(np.float32), header=h).writeto(pos, overwrite=True)
        fits.PrimaryHDU((-data).astype(np.float32), header=h).writeto(neg, overwrite=True)
        ctx = {'field': {k: case['field'][k] for k in ('proj', 'shape', 'scale', 'noise_seed')}, 'aux': case['aux'],
               'docov': case['docov'], 'mixed_stratum': case['mixed_stratum']}
        A = _guard(o, ctx, lambda: _find(pos, case, aux_p))
        B = _guard(o, ctx, lambda: _find(neg, case, aux_n))
        o.n_eval += 2
        if A is None or B is None:
            return o.result()
        ca, ia = _split(A)
        cb, ib = _split(B)
        for rows_, what in ((ca, 'image'), (cb, 'negated image')):
            catalog_inv.check_components(rows_, lambda c, w: o.violate('catalogue_invariant_' + c, dict(w, where=what)),
                                         lambda n, k=1: o.count('catalogue_invariant_' + n, k), ctx)
        # ---- polarity class of every island, from the image itself
        sub = (data.astype(np.float32).astype(np.float64) - (bkg.astype(np.float64) if case['aux'] == 'files' else 0.0))
        snr = floodfill.snr_image(sub, 0.0, rms.astype(np.float64) if (case['aux'] == 'files' and case.get('rms_gradient')) else 1.0)
        oracle, _ = floodfill.islands_from_snr(snr, 5.0, 4.0)
        box = {}
        size = {}
        for isl in oracle:
            (r0, r1), (c0, c1) = floodfill.tight_box(isl)
            vals = np.array([sub[p] for p in isl])
            if case['aux'] == 'files' and case.get('rms_gradient'):
                vals = vals / np.array([float(rms[p]) for p in isl])
            box[(r0, r1, c0, c1)] = bool((vals >= 4.0).any() and (vals <= -4.0).any())
            size[(r0, r1, c0, c1)] = len(isl)
        mixed_a = {k: box.get(tuple(v)) for k, v in ia.items()}
        unknown = [k for k, v in mixed_a.items() if v is None]
        if unknown:
            o.count('islands_not_matched_to_oracle', len(unknown))

        def is_mixed(island):
            return mixed_a.get(island)

        signs = set(np.sign(r['peak_flux']) for r in ca if np.isfinite(r['peak_flux']))
        if 1.0 in signs and -1.0 in signs:
            o.n_nontrivial += 1
        o.count('mixed_polarity_islands', sum(1 for v in mixed_a.values() if v))
        # ---- sign symmetry, island by island
        by_a, by_b = {}, {}
        for r in ca:
            by_a.setdefault(r['island'], []).append(r)
        for r in cb:
            by_b.setdefault(r['island'], []).append(r)
        for isl in sorted(set(by_a) | set(by_b)):
            ra_, rb_ = by_a.get(isl, []), by_b.get(isl, [])
            m = is_mixed(isl)
            if m is None and isl in ib and tuple(ib[isl]) in box:
                m = box[tuple(ib[isl])]
            mech = KEY_MIXED if m else None
            w = dict(ctx, island=isl, extent=ia.get(isl) or ib.get(isl), mixed_polarity=m)
            ext_ = ia.get(isl) or ib.get(isl) or (0, 99, 0, 99)
            npix = size.get(tuple(ext_), 99)
            thin = min(ext_[1] - ext_[0], ext_[3] - ext_[2]) <= 2
            if npix <= 6 or thin:
                # fewer pixels than the six parameters of a component, or an island only 1-2 pixels wide: the finder's own
                # small-island regime (FITERRSMALL / FIXED2PSF by pixel count or shape), where the fit is degenerate and rounding differences of the bounded optimiser are amplified without limit
                o.count('tiny_islands_not_judged_for_symmetry')
                continue
            if m:
                o.count('mixed_polarity_islands_compared')
            elif m is False:
                o.count('single_polarity_islands_compared')
            else:
                o.count('islands_of_unknown_class')
                continue
            if ia.get(isl) != ib.get(isl):
                o.violate('island_numbering_differs_after_negation', dict(w, extent_negated=ib.get(isl)), mech)
                continue
            if len(ra_) != len(rb_):
                o.violate('component_count_differs_after_negation', dict(w, n=len(ra_), n_negated=len(rb_)), mech)
                continue
            for x, y in zip(sorted(ra_, key=lambda r: r['source']), sorted(rb_, key=lambda r: r['source'])):
                o.count('rows_compared_sign_symmetry')
                bad = _row_asymmetry(o, x, y, track=not m)
                if bad:
                    o.violate('sign_symmetry', dict(w, differences=bad, row=x, row_negated=y), mech)
        # ---- the island summary rows of the two runs: same place, same pixels, fluxes negated
        ra_rows, rb_rows = ISLAND_ROWS.pop(id(ia), {}), ISLAND_ROWS.pop(id(ib), {})
        for isl in sorted(set(ra_rows) & set(rb_rows)):
            if mixed_a.get(isl) is not False:
                continue
            x, y = ra_rows[isl], rb_rows[isl]
            o.count('island_rows_compared_sign_symmetry')
            diff = {}
            for k in ISLAND_COLS:
                a_, b_ = x[k], y[k]
                if k in ('peak_flux', 'int_flux', 'background'):
                    b_ = -b_ if b_ is not None else b_
                if isinstance(a_, float) and isinstance(b_, float):
                    if np.isnan(a_) and np.isnan(b_):
                        continue
                    if k in ('ra', 'dec'):
                        okk = abs(a_ - b_) <= 1e-9          # the position of one and the same pixel
                    else:
                        okk = abs(a_ - b_) <= 1e-6 * max(abs(a_), abs(b_), 1e-300)
                else:
                    okk = a_ == b_
                if not okk:
                    diff[k] = [x[k], y[k]]
            if diff:
                o.violate('island_row_sign_symmetry', dict(ctx, island=isl, extent=ia.get(isl), differences=diff))
        # ---- filters
        P = _guard(o, ctx, lambda: _find(pos, case, aux_p, nopositive=False, nonegative=True))
        N = _guard(o, ctx, lambda: _find(pos, case, aux_p, nopositive=True, nonegative=False))
        E = _guard(o, ctx, lambda: _find(pos, case, aux_p, nopositive=True, nonegative=True))
        o.n_eval += 3
        if P is not None and N is not None and E is not None:
            cp, _ = _split(P)
            cn, _ = _split(N)
            ce, _ = _split(E)
            o.count('filter_sets_checked')
            kp = {(r['island'], r['source']): r for r in cp}
            kn = {(r['island'], r['source']): r for r in cn}
            kall = {(r['island'], r['source']): r for r in ca}
            for k, r in kp.items():
                if not r['peak_flux'] > 0:
                    o.violate('positive_only_contains_wrong_sign', dict(ctx, row=r))
            for k, r in kn.items():
                if not r['peak_flux'] < 0:
                    o.violate('negative_only_contains_wrong_sign', dict(ctx, row=r))
            if set(kp) & set(kn):
                o.violate('filters_not_disjoint', dict(ctx, common=sorted(set(kp) & set(kn))[:5]))
            if ce:
                o.violate('both_filters_on_returns_sources', dict(ctx, n=len(ce)))
            finite = {k for k, r in kall.items() if np.isfinite(r['peak_flux']) and r['peak_flux'] != 0}
            if (set(kp) | set(kn)) != finite:
                o.violate('filters_union_is_not_both', dict(ctx, only_in_union=sorted((set(kp) | set(kn)) - finite)[:5],
                                                           missing_from_union=sorted(finite - (set(kp) | set(kn)))[:5]))
            else:
                for k in finite:
                    r1 = kp.get(k) or kn.get(k)
                    for col in FLOATS + NEGATED + ['flags', 'ra_str', 'dec_str']:
                        a_, b_ = r1[col], kall[k][col]
                        if not (a_ == b_ or (isinstance(a_, float) and isinstance(b_, float) and np.isnan(a_) and np.isnan(b_))):
                            o.violate('filtered_row_differs_from_unfiltered', dict(ctx, key=list(k), column=col, filtered=repr(a_), both=repr(b_)))
                            break
            o.count('filtered_rows_checked', len(kp) + len(kn))
            # ---- one finder object used for all four polarity settings in turn (a script looping over the settings): every
            #      answer must be the one a fresh finder gives for that setting
            from AegeanTools.source_finder import SourceFinder
            import logging
            fresh = {(False, False): ca, (False, True): cp, (True, False): cn, (True, True): ce}
            order = list(fresh)
            rng = rng_for('c13reuse', case['field']['noise_seed'], case['docov'])
            order = [order[i] for i in rng.permutation(4)] + [order[int(rng.integers(0, 4))]]
            sf = SourceFinder(log=logging.getLogger('aegmon-null'))
            for step, (nop, non) in enumerate(order):
                R = _guard(o, ctx, lambda: _find(pos, case, aux_p, nopositive=nop, nonegative=non, sf=sf))
                o.n_eval += 1
                if R is None:
                    break
                cr, _ = _split(R)
                o.count('reused_finder_runs')
                want = {(r['island'], r['source']): r for r in fresh[(nop, non)]}
                got = {(r['island'], r['source']): r for r in cr}
                w = dict(ctx, step=step, settings_so_far=[list(x) for x in order[:step + 1]], nopositive=nop, nonegative=non)
                if set(want) != set(got):
                    o.violate('reused_finder_differs_from_fresh', dict(w, only_reused=sorted(set(got) - set(want))[:5],
                                                                       only_fresh=sorted(set(want) - set(got))[:5],
                                                                       n_reused=len(got), n_fresh=len(want)))
                    continue
                for k in want:
                    bad = [c for c in FLOATS + NEGATED + ['flags'] if not (got[k][c] == want[k][c] or (
                        isinstance(got[k][c], float) and isinstance(want[k][c], float) and np.isnan(got[k][c]) and np.isnan(want[k][c])))]
                    if bad:
                        o.violate('reused_finder_differs_from_fresh', dict(w, key=list(k), columns=bad[:6],
                                                                           reused={c: repr(got[k][c]) for c in bad[:3]},
                                                                           fresh={c: repr(want[k][c]) for c in bad[:3]}))
                        break
        o.sample = {'ctx': ctx, 'components': len(ca), 'positive': sum(1 for r in ca if r['peak_flux'] > 0),
                    'negative': sum(1 for r in ca if r['peak_flux'] < 0), 'mixed_islands': sum(1 for v in mixed_a.values() if v)}
        return o.result()
    finally:
        shutil.rmtree(sc, ignore_errors=True)


VALUE_ERR = [('ra', 'err_ra'), ('dec', 'err_dec'), ('a', 'err_a'), ('b', 'err_b'), ('pa', 'err_pa'),
             ('peak_flux', 'err_peak_flux'), ('int_flux', 'err_int_flux')]
PLAIN = ['local_rms', 'psf_a', 'psf_b', 'psf_pa', 'background']


def _row_asymmetry(o, x, y, track=True):
    """differences between a row and its counterpart from the negated image that exceed numerical sameness.

    The two optimiser trajectories mirror each other exactly only in exact arithmetic (lmfit's bound transform rounds
    differently for mirrored bounds), so the two solutions agree to the optimiser's convergence along well constrained
    directions and to a small fraction of the reported 1-sigma error along poorly constrained ones (measured on 950
    rows: <= 0.006 sigma, 0.04 sigma for PA; error columns <= 1.1e-3 relative).  "Unchanged" is therefore judged as
    |difference| <= 1e-6 relative (1e-7 deg for positions, 1e-4 deg for PA) + 0.1 reported sigma for values, and 1 %
    for the error columns (PA and its error are not judged when the reported PA error exceeds 5 deg: no angle there).
    """
    bad = {}

    def unconstrained(r):
        for v_, e_ in (('a', 'err_a'), ('b', 'err_b'), ('peak_flux', 'err_peak_flux')):
            ev, vv = r[e_], r[v_]
            if ev is None or vv is None or not np.isfinite(ev) or ev <= 0 or ev > 0.5 * abs(vv):
                return True
        return False
    if unconstrained(x) or unconstrained(y):
        # the fit itself says (in either run) that a shape or flux error is unknown or larger than half the quantity:
        # a near-singular problem whose solution moves with the last bit of the arithmetic; only the flags are compared
        o.count('rows_with_unconstrained_fit_not_judged')
        if int(x['flags']) != int(y['flags']):
            bad['flags'] = [x['flags'], y['flags']]
        return bad
    for v, e in VALUE_ERR:
        a, b = x[v], y[v]
        if v in ('peak_flux', 'int_flux'):
            b = -b
        if a is None or b is None or (np.isnan(a) and np.isnan(b)):
            continue
        ea, eb = x[e], y[e]
        err = max(ea if (ea is not None and np.isfinite(ea) and ea > 0) else 0.0,
                  eb if (eb is not None and np.isfinite(eb) and eb > 0) else 0.0)
        d = abs(a - b)
        if v == 'ra':
            d = min(d, abs(360 - d)) * np.cos(np.radians(x['dec']))
            base = 1e-7
        elif v == 'dec':
            base = 1e-7
        elif v == 'pa':
            if err > 5.0:
                o.count('pa_not_judged_unconstrained')
                continue
            d = d % 180.0
            d = min(d, 180.0 - d)
            base = 1e-4
        else:
            base = 1e-6 * max(abs(a), abs(b))
        tol = base + 0.1 * err
        if track and tol > 0:
            o.worst('symmetry_value_diff_over_tol', d / tol)
        if not d <= tol:
            bad[v] = [x[v], y[v]]
        # the error column itself
        if ea is None or eb is None or (np.isnan(ea) and np.isnan(eb)):
            continue
        if ea == eb:
            continue
        if v == 'pa' and max(abs(ea), abs(eb)) > 5.0:
            continue
        # an error larger than half the quantity itself (a beam, for positions) says "unconstrained": it comes from a
        # near-singular covariance matrix whose inverse is not reproducible to any stated precision
        scale_v = (x.get('psf_a') or 0) / 3600.0 if v in ('ra', 'dec') else abs(a)
        if v != 'pa' and max(abs(ea), abs(eb)) > 0.5 * scale_v:
            o.count('error_column_not_judged_unconstrained')
            continue
        rel = abs(ea - eb) / max(abs(ea), abs(eb), 1e-300)
        if track:
            o.worst('symmetry_error_column_rel_diff', rel)
        if not rel <= 1e-2:
            bad[e] = [ea, eb]
    for k in PLAIN:
        a, b = x[k], y[k]
        if k == 'background':
            b = -b if b is not None else b
        if a is None or b is None or (isinstance(a, float) and np.isnan(a) and isinstance(b, float) and np.isnan(b)):
            continue
        if not abs(a - b) <= 1e-6 * max(abs(a), abs(b), 1e-300) + 1e-12:
            bad[k] = [x[k], y[k]]
    # the residual statistics are differences near zero: judged on the scale of the local noise
    scale = max(abs(x['local_rms'] or 0), abs(y['local_rms'] or 0), 1e-300)
    a, b = x['residual_mean'], y['residual_mean']
    # (a parameter shift of 1e-4 relative moves the model, hence the residuals, by ~1e-4 of the peak)
    scale = 1e-3 * scale + 2e-4 * max(abs(x['peak_flux']), abs(y['peak_flux']))
    if np.isfinite(a) and np.isfinite(b) and abs(a + b) > scale:
        bad['residual_mean'] = [a, b]
    a, b = x['residual_std'], y['residual_std']
    if np.isfinite(a) and np.isfinite(b) and abs(a - b) > scale:
        bad['residual_std'] = [a, b]
    if int(x['flags']) != int(y['flags']):
        bad['flags'] = [x['flags'], y['flags']]
    return bad
