"""C09 - circle and polygon regions cover their shape and nothing far from it.

The real Region is built with add_circles / add_poly and then interrogated with the real sky_within / get_area.
Two independent views of every shape are judged:
  (a) probes through Region.sky_within (radians and degrees, scalar / list / array inputs),
  (b) the region's stored pixels (read from a deep copy of pixeldict with aegmon.refs.healmember, never through a
      Region method): every probe's own healpy cell against that set, and the outermost points of every stored pixel.
Distances are aegmon.refs.sphere separations (atan2 of cross and dot products).
"""
import math
import traceback

import healpy as hp
import numpy as np

from aegmon.common import Obs, rng_for, n_distinct_rows
from aegmon.refs import sphere, healmember

ID = 'C09'
LEVEL = 'exploration'
RULE = ('one case = one shape (a circle, a list of circles, or a convex 3..8-gon with vertices on a small circle, both '
        'orientations) inserted in a fresh Region (maxdepth 3..12; depth argument None / coarser / deeper than maxdepth), '
        'then ~2000 seeded probes: uniform interior, interior within 1e-7..1 pixel of the boundary, the free band '
        '(boundary .. boundary + 3 pixel sizes), just beyond the band, whole sphere, non-finite; an evaluation is one '
        'probe judged through one sky_within call, or one stored pixel examined; non-trivial = the probe is farther than '
        '1e-9 rad from the boundary it is judged against (must-be-inside or must-be-outside); distinct = unique probe '
        'coordinates within a case, cases with equal hash counted once')
ASSUMPTIONS = ['oracle: sphere.sep separations; polygon interior = same side of every edge great-circle plane with a '
               '1e-9 rad margin; circumscribed circle = the small circle the vertices were generated on',
               'pixel size = healpy.nside2resol at the depth the shape was inserted at (min(depth argument, maxdepth)); '
               'for depth=None this is the region resolution of the statement, for a coarser depth argument it is the '
               'coarser (never stricter) size',
               'healpy.ang2pix / boundaries (nest) are in the trusted base; the nested parent/child arithmetic is '
               'aegmon.refs.healmember (self-checked against healpy)',
               'a probe whose degrees and radians answers differ is judged only if its healpy cell is the same 1e-7 deg '
               'around it',
               'margin note: an inclusive healpy query accepts a pixel when one of its 16 sub-pixel centres is within '
               'radius + max_pixrad(4 nside), so the farthest point of an accepted pixel is at most '
               '(2 max_pixrad(nside) + max_pixrad(4 nside)) / resol = 2.30..2.35 pixel sizes outside the shape: the '
               'observed worst excess (about 2.0) is bounded by geometry, not by sampling, and stays below the 3 of '
               'the statement; likewise area >= cap(r) is implied by coverage']
MIN_REACH = {'regions:Region.add_circles': 1, 'regions:Region.add_poly': 1, 'regions:Region.sky_within': 1,
             'regions:Region.get_area': 1}
MIN_COUNTERS = {'circle_probe_inside_judged': 2000, 'circle_probe_far_judged': 2000,
                'poly_probe_inside_judged': 2000, 'poly_probe_far_judged': 2000,
                'stored_pixels_examined': 1000, 'area_checked': 10, 'scalar_calls': 100,
                'shapes_at_pole': 2, 'shapes_across_ra0': 2, 'nonfinite_probes': 10}

EPS_RAD = 1e-9                      # undetermined band around a boundary (statement: DESIGN C09 'O')
EPS_DEG = math.degrees(EPS_RAD)
BAND = 3.0                          # pixel sizes, from the statement
SPHERE_SR = 4 * math.pi
SQDEG = (180.0 / math.pi) ** 2


def resol_deg(depth):
    return math.degrees(hp.nside2resol(2 ** depth))


# ----------------------------------------------------------------------------- cases
def _pick_depth(rng, r_deg, cap):
    ok = [d for d in range(3, 13) if r_deg / resol_deg(d) <= cap]
    return int(rng.choice(ok))


def cases(seed, tier):
    out = []
    # ---- targeted, seed independent
    tiny = 1e-9
    k = 0
    for dec in (90.0, -90.0, 89.9999, -89.99999):
        for r, md in ((0.01, 12), (1.0, 9), (30.0, 5), (60.0, 4), (0.5, 3)):
            out.append({'kind': 'circle', 'maxdepth': md, 'depth': None, 'ra': math.radians(33.0 * k % 360),
                        'dec': math.radians(dec), 'r': math.radians(r), 'style': 'scalar', 'n': 2000,
                        'seed': ['t', 'pole', k]})
            k += 1
    for ra in (0.0, 2 * math.pi - tiny, tiny, math.pi, 2 * math.pi):
        for dec, r, md in ((0.0, 2.0, 8), (45.0, 0.05, 12), (-70.0, 20.0, 6), (10.0, 60.0, 5), (-30.0, 0.01, 3)):
            out.append({'kind': 'circle', 'maxdepth': md, 'depth': None, 'ra': ra, 'dec': math.radians(dec),
                        'r': math.radians(r), 'style': 'array' if k % 2 else 'scalar', 'n': 2000,
                        'seed': ['t', 'wrap', k]})
            k += 1
    # large ratio (radius / pixel = 400) and the extremes of the depth range
    out.append({'kind': 'circle', 'maxdepth': 12, 'depth': None, 'ra': 1.0, 'dec': 0.3,
                'r': math.radians(400 * resol_deg(12)), 'style': 'scalar', 'n': 4000, 'seed': ['t', 'big', 0]})
    out.append({'kind': 'circle', 'maxdepth': 9, 'depth': None, 'ra': 6.2, 'dec': -1.2,
                'r': math.radians(400 * resol_deg(9)), 'style': 'array', 'n': 4000, 'seed': ['t', 'big', 1]})
    # depth argument coarser / deeper than maxdepth
    for md, dp in ((10, 7), (8, 8), (9, 12), (12, 3), (6, 5)):
        out.append({'kind': 'circle', 'maxdepth': md, 'depth': dp, 'ra': 2.0 + md, 'dec': -0.4, 'r': math.radians(3.0),
                    'style': 'scalar', 'n': 2000, 'seed': ['t', 'deptharg', md, dp]})
    # polygons: containing a pole, straddling RA=0, thin, obtuse (all vertices in a half circle), 8-gon
    tp = [
        (0.0, 88.0, 10.0, [0, 90, 180, 270], 7), (120.0, -89.0, 5.0, [10, 130, 250], 8),
        (0.0, 0.0, 3.0, [0, 72, 144, 216, 288], 9), (359.9999, 20.0, 1.0, [5, 50, 95, 140, 185, 230, 275, 320], 10),
        (0.00001, -45.0, 0.05, [0, 120, 240], 12), (200.0, 30.0, 40.0, [0, 60, 120, 180, 240, 300], 5),
        (80.0, 10.0, 8.0, [0, 40, 80], 8), (250.0, -60.0, 8.0, [100, 110, 125, 170], 8),
        (10.0, 60.0, 60.0, [0, 100, 200, 300], 4), (300.0, 5.0, 0.02, [0, 90, 180, 270], 3),
        (45.0, 89.5, 2.0, [0, 45, 90, 135, 180, 225, 270, 315], 9), (180.0, 0.0, 20.0, [0, 5, 180], 6),
    ]
    for i, (ra, dec, R, ang, md) in enumerate(tp):
        for orient in (1, -1):
            out.append({'kind': 'poly', 'maxdepth': md, 'depth': None, 'ra': math.radians(ra), 'dec': math.radians(dec),
                        'R': math.radians(R), 'angles': [float(a) for a in ang], 'orient': orient, 'n': 2000,
                        'seed': ['t', 'poly', i, orient]})
    # ---- seeded random sample
    rng = rng_for(seed, 'c09-cases', tier)
    ncirc, nmulti, npoly = (520, 60, 460) if tier == 'quick' else (9000, 1000, 8000)
    cap = 150 if tier == 'quick' else 250
    for i in range(ncirc):
        r = 10 ** rng.uniform(-2, math.log10(60))
        md = _pick_depth(rng, r, cap)
        dp = None
        u = rng.random()
        if u < 0.12 and md > 3:
            dp = int(rng.integers(3, md))
        elif u < 0.2:
            dp = md + int(rng.integers(1, 4))
        if dp is not None and r / resol_deg(min(dp, md)) > cap:
            dp = None
        ra = float(rng.choice([rng.uniform(0, 2 * math.pi), 0.0, 2 * math.pi - tiny], p=[0.8, 0.1, 0.1]))
        dec = float(rng.choice([math.asin(rng.uniform(-1, 1)), math.pi / 2, -math.pi / 2,
                                math.pi / 2 - 10 ** rng.uniform(-8, -2)], p=[0.8, 0.07, 0.07, 0.06]))
        out.append({'kind': 'circle', 'maxdepth': md, 'depth': dp, 'ra': ra, 'dec': dec, 'r': math.radians(r),
                    'style': str(rng.choice(['scalar', 'list', 'array'])), 'n': 2000, 'seed': [seed, 'circle', i]})
    for i in range(nmulti):
        m = int(rng.integers(2, 6))
        md = int(rng.integers(5, 11))
        rs = [float(resol_deg(md) * 10 ** rng.uniform(-0.5, 1.6)) for _ in range(m)]
        out.append({'kind': 'circles', 'maxdepth': md, 'depth': None,
                    'ra': [float(rng.uniform(0, 2 * math.pi)) for _ in range(m)],
                    'dec': [float(math.asin(rng.uniform(-1, 1))) for _ in range(m)],
                    'r': [math.radians(x) for x in rs], 'style': str(rng.choice(['list', 'array'])), 'n': 600,
                    'seed': [seed, 'circles', i]})
    for i in range(npoly):
        R = 10 ** rng.uniform(-1.7, math.log10(60))
        md = _pick_depth(rng, R, cap)
        nv = int(rng.integers(3, 9))
        ang = _angles(rng, nv)
        ra = float(rng.choice([rng.uniform(0, 360), 0.0, 360 - 1e-7], p=[0.8, 0.1, 0.1]))
        dec = float(rng.choice([math.degrees(math.asin(rng.uniform(-1, 1))), 90 - R * rng.uniform(0, 0.9),
                                -90 + R * rng.uniform(0, 0.9)], p=[0.8, 0.1, 0.1]))
        dec = max(-89.999, min(89.999, dec))
        out.append({'kind': 'poly', 'maxdepth': md, 'depth': None, 'ra': math.radians(ra), 'dec': math.radians(dec),
                    'R': math.radians(R), 'angles': ang, 'orient': int(rng.choice([1, -1])), 'n': 2000,
                    'seed': [seed, 'poly', i]})
    return out


def _angles(rng, nv, mingap=4.0):
    """nv bearings (deg) on the small circle with all consecutive gaps >= mingap (incl. the wrap)"""
    while True:
        if rng.random() < 0.25:           # all vertices inside a half circle: an obtuse polygon not containing its centre
            a = np.sort(rng.uniform(0, 170, nv)) + rng.uniform(0, 360)
        else:
            a = np.sort(rng.uniform(0, 360, nv))
        gaps = np.diff(np.concatenate([a, [a[0] + 360]]))
        if gaps.min() >= mingap:
            return [float(x % 360) for x in a]


# ----------------------------------------------------------------------------- helpers
def _call(o, f, what, *args, **kw):
    try:
        return True, f(*args, **kw)
    except Exception:
        o.violate('raises', {'call': what, 'traceback': traceback.format_exc()[-1200:]})
        return False, None


def _probes_about(rng, ra0, dec0, r, pix, n, ntail=None):
    """probe positions (deg) around a circle of radius r deg about (ra0, dec0) deg; pix deg"""
    parts = []
    n5 = n // 5
    parts.append(r * np.sqrt(rng.uniform(0, 1, n5)))                                  # interior
    parts.append(np.maximum(r - pix * 10 ** rng.uniform(-7, 0, n5), 0.0))             # inside, near the boundary
    parts.append(r + rng.choice([-1, 1], 40) * 10 ** rng.uniform(-12, -7.5, 40))      # knife edge
    parts.append(r + pix * rng.uniform(0, BAND, n5 // 2))                             # free band
    parts.append(r + BAND * pix + pix * 10 ** rng.uniform(-6, 1.2, n5 + n5 // 2))     # just beyond the band
    s = np.clip(np.concatenate(parts), 0.0, 180.0)
    t = rng.uniform(0, 360, len(s))
    ra, dec = sphere.destination(ra0, dec0, s, t)
    m = n - len(s)
    if m > 0:                                                                         # anywhere
        ra = np.concatenate([ra, rng.uniform(0, 360, m)])
        dec = np.concatenate([dec, np.degrees(np.arcsin(rng.uniform(-1, 1, m)))])
    return ra % 360.0, np.clip(dec, -90.0, 90.0)


def _query_all(o, reg, ra_deg, dec_deg, rng):
    """sky_within through every input convention.  Returns the boolean answer (radians/array form) or None."""
    ra_rad, dec_rad = np.radians(ra_deg), np.radians(dec_deg)
    ok, res_rad = _call(o, reg.sky_within, 'sky_within(array, array)', ra_rad, dec_rad)
    if not ok:
        return None
    res_rad = np.asarray(res_rad)
    if res_rad.shape != ra_deg.shape or res_rad.dtype != bool:
        o.violate('result_shape', {'shape': list(res_rad.shape), 'dtype': str(res_rad.dtype), 'n': len(ra_deg)})
        return None
    ok, res_deg = _call(o, reg.sky_within, 'sky_within(array, array, degin=True)', ra_deg, dec_deg, degin=True)
    if not ok:
        return None
    res_deg = np.asarray(res_deg)
    o.n_eval += 2 * len(ra_deg)
    diff = np.flatnonzero(res_deg != res_rad)
    if len(diff):
        _, st = healmember.stable_cell(ra_deg[diff], dec_deg[diff], reg.maxdepth)
        o.count('undetermined', int((~st).sum()))
        for i in diff[st][:3]:
            o.violate('degin_disagree', {'probe_deg': [ra_deg[i], dec_deg[i]], 'radians_answer': bool(res_rad[i]),
                                         'degrees_answer': bool(res_deg[i])})
    o.count('degin_pairs_compared', len(ra_deg))
    # python lists
    sel = rng.integers(0, len(ra_deg), 60)
    ok, res_list = _call(o, reg.sky_within, 'sky_within(list, list)', [float(x) for x in ra_rad[sel]],
                         [float(x) for x in dec_rad[sel]])
    if ok:
        res_list = np.asarray(res_list)
        o.count('list_calls')
        o.n_eval += len(sel)
        if res_list.shape != (len(sel),) or not np.array_equal(res_list, res_rad[sel]):
            o.violate('list_vs_array', {'list_answer': res_list.tolist()[:10], 'array_answer': res_rad[sel].tolist()[:10]})
    # scalars
    for i in rng.integers(0, len(ra_deg), 30):
        for degin in (False, True):
            a, d = (float(ra_deg[i]), float(dec_deg[i])) if degin else (float(ra_rad[i]), float(dec_rad[i]))
            ok, rs = _call(o, reg.sky_within, 'sky_within(float, float, degin=%s)' % degin, a, d, degin=degin)
            if not ok:
                continue
            o.count('scalar_calls')
            o.n_eval += 1
            rs = np.asarray(rs)
            want = res_deg[i] if degin else res_rad[i]
            if rs.size != 1 or bool(rs.ravel()[0]) != bool(want):
                o.violate('scalar_vs_array', {'probe_deg': [ra_deg[i], dec_deg[i]], 'degin': degin,
                                              'scalar_answer': rs.tolist(), 'array_answer': bool(want)})
    # non-finite probes, alone and mixed with good ones: never inside, never disturb the others
    bad_ra = np.array([np.nan, 0.1, np.nan, np.inf, 0.2, -np.inf])
    bad_dec = np.array([0.1, np.nan, np.nan, 0.1, np.inf, np.nan])
    mix_ra = np.concatenate([bad_ra, ra_rad[:50]])
    mix_dec = np.concatenate([bad_dec, dec_rad[:50]])
    for degin in (False, True):
        mr, mdc = (np.degrees(mix_ra), np.degrees(mix_dec)) if degin else (mix_ra, mix_dec)
        ok, rb = _call(o, reg.sky_within, 'sky_within(with non-finite, degin=%s)' % degin, mr, mdc, degin=degin)
        if not ok:
            continue
        rb = np.asarray(rb)
        o.count('nonfinite_probes', len(bad_ra))
        o.n_eval += len(mix_ra)
        if rb[:len(bad_ra)].any():
            o.violate('nonfinite_inside', {'ra': [repr(x) for x in bad_ra], 'dec': [repr(x) for x in bad_dec],
                                           'answer': rb[:len(bad_ra)].tolist(), 'degin': degin})
        ref = (res_deg if degin else res_rad)[:50]
        if not np.array_equal(rb[len(bad_ra):], ref):
            o.violate('nonfinite_disturbs_others', {'degin': degin, 'n_changed': int((rb[len(bad_ra):] != ref).sum())})
    return res_rad


def _stored_pixels(reg):
    """[(level, int ids)] from a deep copy of the pixeldict"""
    import copy
    pd = copy.deepcopy(reg.pixeldict)
    out = []
    for d, s in pd.items():
        if len(s) and 0 <= int(d) <= reg.maxdepth:
            ids = np.array(sorted(int(p) for p in s), dtype=np.int64)
            out.append((int(d), ids))
    return out


def _pixel_outer_points(level, ids, step=2, pull=1e-3):
    """points just inside each pixel's outline (corners and edge points), as (ra, dec) deg arrays of shape (N, 4*step)"""
    b = hp.boundaries(2 ** level, ids, step=step, nest=True)          # (N, 3, 4*step)
    b = np.moveaxis(np.atleast_3d(b) if b.ndim == 3 else b[None, ...], 1, 2)   # (N, 4*step, 3)
    c = np.array(hp.pix2vec(2 ** level, ids, nest=True)).T[:, None, :]
    p = (1 - pull) * b + pull * c
    p /= np.linalg.norm(p, axis=-1, keepdims=True)
    return sphere.radec(p)


def _examine_pixels(o, reg, centres, radii_deg, pix, tag, limit=400000):
    """every stored pixel: its outline must lie within radius + 3 pixel sizes of (one of) the centre(s)"""
    worst = -np.inf
    n = 0
    for level, ids in _stored_pixels(reg):
        if len(ids) > limit:
            sel = np.random.default_rng(0).choice(len(ids), limit, replace=False)
            ids = ids[sel]
        for k in range(0, len(ids), 50000):
            chunk = ids[k:k + 50000]
            ra, dec = _pixel_outer_points(level, chunk)
            excess = np.full(ra.shape, np.inf)
            for (ra0, dec0), r in zip(centres, radii_deg):
                excess = np.minimum(excess, sphere.sep(ra0, dec0, ra, dec) - r)
            n += len(chunk)
            worst = max(worst, float(excess.max()))
            bad = np.argwhere(excess > BAND * pix + EPS_DEG)
            for i, j in bad[:3]:
                o.violate(tag + '_stored_pixel_far', {
                    'level': level, 'pixel': int(chunk[i]), 'point_inside_pixel_deg': [ra[i, j], dec[i, j]],
                    'excess_over_radius_in_pixel_sizes': float(excess[i, j] / pix), 'allowed': BAND})
    o.count('stored_pixels_examined', n)
    o.n_eval += n
    if n:
        o.worst(tag + '_stored_pixel_excess_pixsizes', worst / pix)
    return n


def _cap_sr(r_deg):
    return SPHERE_SR if r_deg >= 180 else 2 * math.pi * (1 - math.cos(math.radians(r_deg)))


def _judge(o, tag, res, model_in, must_in, must_out, free, ra, dec, stable_fn, extra):
    """res: subject answer; model_in: probe's own cell is in the stored pixel set"""
    o.count(tag + '_probe_inside_judged', int(must_in.sum()))
    o.count(tag + '_probe_far_judged', int(must_out.sum()))
    o.count(tag + '_probe_free_band', int(free.sum()))
    o.count('undetermined', int((~must_in & ~must_out & ~free).sum()))
    o.count(tag + '_free_band_reported_inside', int((free & res).sum()))
    for i in np.flatnonzero(must_in & ~res)[:3]:
        o.violate(tag + '_interior_reported_outside', dict(extra(i), probe_deg=[ra[i], dec[i]]))
    for i in np.flatnonzero(must_out & res)[:3]:
        o.violate(tag + '_far_reported_inside', dict(extra(i), probe_deg=[ra[i], dec[i]]))
    for i in np.flatnonzero(must_in & ~model_in)[:3]:
        o.violate(tag + '_interior_not_in_stored_pixels', dict(extra(i), probe_deg=[ra[i], dec[i]]))
    for i in np.flatnonzero(must_out & model_in)[:3]:
        o.violate(tag + '_far_in_stored_pixels', dict(extra(i), probe_deg=[ra[i], dec[i]]))
    dis = np.flatnonzero(res != model_in)
    if len(dis):
        st = stable_fn(dis)
        o.count('undetermined', int((~st).sum()))
        for i in dis[st][:3]:
            o.violate('sky_within_vs_stored_pixels', dict(extra(i), probe_deg=[ra[i], dec[i]],
                                                          sky_within=bool(res[i]), cell_in_pixeldict=bool(model_in[i])))
    o.count('sky_within_vs_stored_pixels_compared', len(res))


# ----------------------------------------------------------------------------- run
def run(case):
    from AegeanTools.regions import Region
    sphere.selfcheck()
    healmember.selfcheck()
    o = Obs()
    rng = rng_for(*case['seed'])
    md = case['maxdepth']
    dp = case.get('depth')
    eff = md if dp is None else min(dp, md)
    pix = resol_deg(eff)
    o.see('maxdepth', md)
    o.see('depth_argument', 'None' if dp is None else ('coarser' if dp < md else ('equal' if dp == md else 'deeper')))
    ok, reg = _call(o, Region, 'Region(maxdepth=%d)' % md, maxdepth=md)
    if not ok:
        return o.result()
    kind = case['kind']
    if kind in ('circle', 'circles'):
        return _run_circles(o, reg, case, rng, md, dp, pix)
    return _run_poly(o, reg, case, rng, md, dp, pix)


def _run_circles(o, reg, case, rng, md, dp, pix):
    multi = case['kind'] == 'circles'
    ras = case['ra'] if multi else [case['ra']]
    decs = case['dec'] if multi else [case['dec']]
    rs = case['r'] if multi else [case['r']]
    style = case['style']
    o.see('add_circles_style', style)
    if style == 'scalar':
        args = (float(ras[0]), float(decs[0]), float(rs[0]))
    elif style == 'list':
        args = (list(ras), list(decs), list(rs))
    else:
        args = (np.array(ras), np.array(decs), np.array(rs))
    kw = {} if dp is None else {'depth': dp}
    ok, _ = _call(o, reg.add_circles, 'add_circles(%s, depth=%r)' % (style, dp), *args, **kw)
    if not ok:
        return o.result()
    cen = [(math.degrees(a) % 360.0, math.degrees(d)) for a, d in zip(ras, decs)]
    rdeg = [math.degrees(r) for r in rs]
    if any(abs(d) > 89.99 for _, d in cen):
        o.count('shapes_at_pole')
    if any(min(a, 360 - a) < r / max(math.cos(math.radians(d)), 1e-9) for (a, d), r in zip(cen, rdeg)):
        o.count('shapes_across_ra0')
    o.worst('radius_over_pixel', max(rdeg) / pix)
    iv = healmember.intervals(reg.pixeldict, md, ignore_deeper=True)          # observe without touching
    # area (single circles: between the two caps)
    for degrees in (True, False):
        ok, area = _call(o, reg.get_area, 'get_area(degrees=%s)' % degrees, degrees=degrees)
        if ok and not multi:
            a_sr = area / SQDEG if degrees else area
            lo, hi = _cap_sr(rdeg[0]), _cap_sr(rdeg[0] + BAND * pix)
            o.count('area_checked')
            o.n_eval += 1
            if hi > lo:
                o.worst('area_position_in_band_max', (a_sr - lo) / (hi - lo))
                o.worst('area_position_in_band_neg_min', -(a_sr - lo) / (hi - lo))
            if not (lo * (1 - 1e-12) <= a_sr <= hi * (1 + 1e-12)):
                o.violate('area_outside_caps', {'area_sr': a_sr, 'cap_r_sr': lo, 'cap_r_plus_3pix_sr': hi,
                                                'degrees': degrees, 'r_deg': rdeg[0], 'pix_deg': pix})
            # and the area must be that of the stored pixels
            want = healmember.n_deepest(iv) * SPHERE_SR / (12 * 4 ** md)
            if abs(a_sr - want) > 1e-9 * max(want, 1e-300):
                o.violate('area_vs_stored_pixels', {'area_sr': a_sr, 'stored_pixels_sr': want})
    _examine_pixels(o, reg, cen, rdeg, pix, 'circle')
    # probes
    n_each = case['n'] // len(cen)
    pra, pdec = [], []
    for (a, d), r in zip(cen, rdeg):
        x, y = _probes_about(rng, a, d, r, pix, n_each)
        pra.append(x)
        pdec.append(y)
    pra, pdec = np.concatenate(pra), np.concatenate(pdec)
    res = _query_all(o, reg, pra, pdec, rng)
    if res is None:
        return o.result()
    excess = np.full(pra.shape, np.inf)
    for (a, d), r in zip(cen, rdeg):
        excess = np.minimum(excess, sphere.sep(a, d, pra, pdec) - r)
    must_in = excess <= -EPS_DEG
    must_out = excess > BAND * pix + EPS_DEG
    free = (excess > EPS_DEG) & (excess <= BAND * pix - EPS_DEG)
    model_in = healmember.member(iv, healmember.cell(pra, pdec, md))
    inside_band = res & (excess > 0)
    if inside_band.any():
        o.worst('circle_probe_excess_pixsizes', float(excess[inside_band].max() / pix))

    def extra(i):
        return {'centres_deg': cen, 'radii_deg': rdeg, 'pixel_size_deg': pix, 'maxdepth': md, 'depth': dp,
                'distance_minus_radius_deg': float(excess[i])}
    _judge(o, 'circle', res, model_in, must_in, must_out, free, pra, pdec,
           lambda idx: healmember.stable_cell(pra[idx], pdec[idx], md)[1], extra)
    o.n_nontrivial += n_distinct_rows(pra[must_in | must_out], pdec[must_in | must_out])
    o.sample = {'centres_deg': cen, 'radii_deg': rdeg, 'maxdepth': md, 'depth': dp, 'pixel_size_deg': pix,
                'deepest_pixels': healmember.n_deepest(iv), 'probes': len(pra), 'must_in': int(must_in.sum()),
                'must_out': int(must_out.sum()), 'reported_inside': int(res.sum())}
    return o.result()


def _run_poly(o, reg, case, rng, md, dp, pix):
    ra0, dec0, R = math.degrees(case['ra']) % 360.0, math.degrees(case['dec']), math.degrees(case['R'])
    ang = list(case['angles'])
    if case['orient'] < 0:
        ang = ang[::-1]
    vra, vdec = sphere.destination(ra0, dec0, np.full(len(ang), R), np.array(ang))
    positions = [[math.radians(a), math.radians(d)] for a, d in zip(vra, vdec)]
    o.see('polygon_vertices', len(ang))
    o.see('polygon_orientation', case['orient'])
    kw = {} if dp is None else {'depth': dp}
    ok, _ = _call(o, reg.add_poly, 'add_poly(%d vertices, depth=%r)' % (len(ang), dp), positions, **kw)
    if not ok:
        return o.result()
    # the circumscribed circle as actually realised by the vertex coordinates handed over
    vv = sphere.vec(np.degrees([p[0] for p in positions]), np.degrees([p[1] for p in positions]))
    Rv = sphere.sep(ra0, dec0, vra, vdec)
    Rmax = float(Rv.max())
    if abs(dec0) + R > 90:
        o.count('shapes_at_pole')
    if min(ra0, 360 - ra0) < R / max(math.cos(math.radians(dec0)), 1e-9):
        o.count('shapes_across_ra0')
    o.worst('radius_over_pixel', R / pix)
    iv = healmember.intervals(reg.pixeldict, md, ignore_deeper=True)
    ok, area = _call(o, reg.get_area, 'get_area()')
    if ok:
        want = healmember.n_deepest(iv) * SPHERE_SR / (12 * 4 ** md) * SQDEG
        o.n_eval += 1
        if abs(area - want) > 1e-9 * max(want, 1e-300):
            o.violate('area_vs_stored_pixels', {'area_sqdeg': area, 'stored_pixels_sqdeg': want})
    _examine_pixels(o, reg, [(ra0, dec0)], [Rmax], pix, 'poly')
    # probes: around the circumcircle, plus points built inside the polygon (convex combinations of vertices)
    pra, pdec = _probes_about(rng, ra0, dec0, R, pix, case['n'] - 600)
    w = rng.dirichlet(np.full(len(ang), 0.6), 400)
    inner = w @ vv
    nearv = vv[rng.integers(0, len(ang), 200)] * (1 - 10 ** rng.uniform(-9, -1, 200))[:, None] \
        + (w[:200] @ vv) * (10 ** rng.uniform(-9, -1, 200))[:, None]
    ira, idec = sphere.radec(np.concatenate([inner, nearv]))
    pra, pdec = np.concatenate([pra, ira]), np.concatenate([pdec, idec])
    res = _query_all(o, reg, pra, pdec, rng)
    if res is None:
        return o.result()
    # interior test: same side of every edge plane as the polygon's own vertex mean
    pv = sphere.vec(pra, pdec)
    nrm = np.cross(vv, np.roll(vv, -1, axis=0))
    nrm /= np.linalg.norm(nrm, axis=1, keepdims=True)
    cen = vv.mean(axis=0)
    sgn = np.sign(nrm @ cen)
    if not np.all(sgn == sgn[0]) or sgn[0] == 0:
        raise RuntimeError('harness: generated polygon is not convex')
    h = np.arcsin(np.clip((pv @ nrm.T) * sgn[0], -1, 1))       # signed distance (rad) from each edge plane
    hmin = h.min(axis=1)
    must_in = hmin > EPS_RAD
    excess = sphere.sep(ra0, dec0, pra, pdec) - Rmax
    must_out = excess > BAND * pix + EPS_DEG
    free = ~must_in & ~must_out & (np.abs(hmin) > EPS_RAD) & (np.abs(excess - BAND * pix) > EPS_DEG)
    model_in = healmember.member(iv, healmember.cell(pra, pdec, md))
    inside_out = res & (excess > 0)
    if inside_out.any():
        o.worst('poly_probe_excess_over_circumcircle_pixsizes', float(excess[inside_out].max() / pix))

    def extra(i):
        return {'vertices_deg': [[float(a), float(d)] for a, d in zip(vra, vdec)], 'circumcentre_deg': [ra0, dec0],
                'circumradius_deg': Rmax, 'pixel_size_deg': pix, 'maxdepth': md,
                'min_signed_distance_from_edges_rad': float(hmin[i]),
                'distance_minus_circumradius_deg': float(excess[i])}
    _judge(o, 'poly', res, model_in, must_in, must_out, free, pra, pdec,
           lambda idx: healmember.stable_cell(pra[idx], pdec[idx], md)[1], extra)
    o.n_nontrivial += n_distinct_rows(pra[must_in | must_out], pdec[must_in | must_out])
    o.sample = {'vertices_deg': [[float(a), float(d)] for a, d in zip(vra, vdec)], 'maxdepth': md,
                'pixel_size_deg': pix, 'deepest_pixels': healmember.n_deepest(iv), 'probes': len(pra),
                'must_in': int(must_in.sum()), 'must_out': int(must_out.sum()), 'reported_inside': int(res.sum())}
    return o.result()
