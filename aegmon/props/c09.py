"""C09 - circle and polygon regions cover their shape and nothing far from it.

The real Region is built with add_circles / add_poly and then interrogated with the real sky_within / get_area.
Two independent views of every shape are judged:
  (a) probes through Region.sky_within (radians and degrees, scalar / list / array inputs),
  (b) the region's stored pixels (read from a deep copy of pixeldict with aegmon.refs.healmember, never through a
      Region method): every probe's own healpy cell against that set, and the outermost points of every stored pixel.
Distances are aegmon.refs.sphere separations (atan2 of cross and dot products).
"""
import math
import traceback

import healpy as hp
import numpy as np

from aegmon.common import Obs, rng_for, n_distinct_rows
from aegmon.refs import sphere, healmember

ID = 'C09'
LEVEL = 'exploration'
RULE = ('one case = one shape (a circle, a list of circles, or a convex 3..8-gon with vertices on a small circle, both '
        'orientations) inserted in a fresh Region (maxdepth 3..12; depth argument None / coarser / deeper than maxdepth), '
        'then ~2000 seeded probes: uniform interior, interior within 1e-7..1 pixel of the boundary, the free band '
        '(boundary .. boundary + 3 pixel sizes), just beyond the band, whole sphere, non-finite, plus whole-degree '
        'positions on and around the shape handed to sky_within(degin=True) as python ints, lists of ints, int32/int64 '
        'arrays and numpy integer scalars (must equal the float spelling and obey the same geometric oracle); a '
        '"build" case = 2..4 successive add_circles/add_poly calls on one Region (nested in both orders, partially '
        'overlapping, disjoint, single and vector add_circles; vector calls also hold concentric circles in any '
        'order of radius and exact duplicates - repeated polygon vertices are refused by healpy and not used) whose get_area is read BEFORE any query and again after '
        'one, and the same kind of build with a query (sky_within scalar / list / vector, get_demoted, get_area) between '
        'the steps after which every shape added so far is judged again; the depth argument of add_circles and '
        'add_poly is driven below, equal to and above maxdepth; "via" cases: shapes built at depth D reach the judged '
        'region of depth d = D-4..D+3 through Region.union or `MIMAS -depth d +r file.mim`, with and without a query on '
        'the source first; "regfile" cases: circles / convex polygons / boxes written to a DS9 fk5 region file in decimal '
        'degrees or sexagesimal (declinations in (-1, 0), RA 00:00:xx, both hemispheres) and converted with '
        'MIMAS.reg2mim / `MIMAS --reg2mim`; an evaluation is one '
        'probe judged through one sky_within call, or one stored pixel examined; non-trivial = the probe is farther than '
        '1e-9 rad from the boundary it is judged against (must-be-inside or must-be-outside); distinct = unique probe '
        'coordinates within a case, cases with equal hash counted once')
ASSUMPTIONS = ['oracle: sphere.sep separations; polygon interior = same side of every edge great-circle plane with a '
               '1e-9 rad margin; circumscribed circle = the small circle the vertices were generated on',
               'pixel size = healpy.nside2resol at the depth the shape was inserted at (min(depth argument, maxdepth)); '
               'for depth=None this is the region resolution of the statement, for a coarser depth argument it is the '
               'coarser (never stricter) size',
               'healpy.ang2pix / boundaries (nest) are in the trusted base; the nested parent/child arithmetic is '
               'aegmon.refs.healmember (self-checked against healpy)',
               'a probe whose degrees and radians answers differ is judged only if its healpy cell is the same 1e-7 deg '
               'around it',
               'margin note: an inclusive healpy query accepts a pixel when one of its 16 sub-pixel centres is within '
               'radius + max_pixrad(4 nside), so the farthest point of an accepted pixel is at most '
               '(2 max_pixrad(nside) + max_pixrad(4 nside)) / resol = 2.30..2.35 pixel sizes outside the shape: the '
               'observed worst excess (about 2.0) is bounded by geometry, not by sampling, and stays below the 3 of '
               'the statement; likewise area >= cap(r) is implied by coverage',
               'build cases: area bounds are the area of the union of the exact shapes (lower) and of the union of the '
               'caps / circumscribed caps grown by 3 pixel sizes (upper), both estimated by a seeded Monte-Carlo '
               'sample of 300000 points uniform in a bounding cap; the bounds are widened by 6 binomial standard '
               'deviations (false-alarm probability < 1e-8 per case) and the estimate is reported with its error',
               'via cases: a region degraded from depth D to a coarser depth d is judged with a band of 3 pixel sizes of '
               'depth D (the statement, for the source) plus 3 pixel sizes of depth d (every pixel is replaced by its '
               'ancestor, whose diameter is below 2.1 pixel sizes of depth d); shallower into deeper: 3 pixel sizes of D',
               'regfile cases: the shape is the one the written text describes (values re-read from the printed digits, '
               'own sexagesimal formatter); sizes are written in arcsec with the double-quote suffix, the only form the '
               'converter documents; a box is judged as the rectangle of its corners with 2 % of its smaller side as '
               'margin on both clauses and only within 1 deg of the equator, because box2poly ignores cos(dec) in RA',
               'integer-typed coordinates: whole degrees on and around every shape (degin=True) and the 21 whole-radian '
               'positions ra 0..6, dec -1..1 (degin=False); integer-typed constructor arguments are whole radians '
               '(circle centres, radius 1 rad, triangle vertices); int8/int16 arrays are not used because numpy itself '
               'converts them to float16/float32 radians']
MIN_REACH = {'regions:Region.union': 1, 'MIMAS:reg2mim': 1, 'MIMAS:circle2circle': 1, 'MIMAS:poly2poly': 1,
             'MIMAS:box2poly': 1, 'regions:Region.add_circles': 1, 'regions:Region.add_poly': 1, 'regions:Region.sky_within': 1,
             'regions:Region.get_area': 1}
MIN_COUNTERS = {'circle_probe_inside_judged': 2000, 'circle_probe_far_judged': 2000,
                'poly_probe_inside_judged': 2000, 'poly_probe_far_judged': 2000,
                'stored_pixels_examined': 1000, 'area_checked': 10, 'scalar_calls': 100,
                'shapes_at_pole': 2, 'shapes_across_ra0': 2, 'nonfinite_probes': 10,
                'integer_probe_inside_judged': 300, 'integer_probe_far_judged': 300, 'integer_spellings_compared': 2000,
                'integer_radian_spellings_compared': 2000, 'integer_radian_probe_inside_judged': 100, 'integer_constructor_calls': 10,
                'regfile_regions': 40, 'regfile_sexagesimal': 15, 'regfile_shapes_dec_between_minus1_and_0': 15,
                'regfile_probe_inside_judged': 2000, 'via_probe_inside_judged': 2000, 'via_depth_gap_2_or_more': 15,
                'via_shallower_into_deeper': 5, 'via_source_queried_first': 10,
                'vector_calls_with_concentric_circles': 40, 'builds_area_before_query': 30, 'builds_with_interleaved_queries': 40, 'build_interleaved_queries': 60,
                'build_vector_add_circles': 10, 'add_poly_with_depth_argument': 50, 'builds_with_overlap': 15, 'build_probe_inside_judged': 2000}

EPS_RAD = 1e-9                      # undetermined band around a boundary (statement: DESIGN C09 'O')
EPS_DEG = math.degrees(EPS_RAD)
BAND = 3.0                          # pixel sizes, from the statement
SPHERE_SR = 4 * math.pi
SQDEG = (180.0 / math.pi) ** 2


def resol_deg(depth):
    return math.degrees(hp.nside2resol(2 ** depth))


# ----------------------------------------------------------------------------- cases
def _pick_depth(rng, r_deg, cap):
    ok = [d for d in range(3, 13) if r_deg / resol_deg(d) <= cap]
    return int(rng.choice(ok))


def cases(seed, tier):
    out = []
    # ---- targeted, seed independent
    tiny = 1e-9
    k = 0
    for dec in (90.0, -90.0, 89.9999, -89.99999):
        for r, md in ((0.01, 12), (1.0, 9), (30.0, 5), (60.0, 4), (0.5, 3)):
            out.append({'kind': 'circle', 'maxdepth': md, 'depth': None, 'ra': math.radians(33.0 * k % 360),
                        'dec': math.radians(dec), 'r': math.radians(r), 'style': 'scalar', 'n': 2000,
                        'seed': ['t', 'pole', k]})
            k += 1
    for ra in (0.0, 2 * math.pi - tiny, tiny, math.pi, 2 * math.pi):
        for dec, r, md in ((0.0, 2.0, 8), (45.0, 0.05, 12), (-70.0, 20.0, 6), (10.0, 60.0, 5), (-30.0, 0.01, 3)):
            out.append({'kind': 'circle', 'maxdepth': md, 'depth': None, 'ra': ra, 'dec': math.radians(dec),
                        'r': math.radians(r), 'style': 'array' if k % 2 else 'scalar', 'n': 2000,
                        'seed': ['t', 'wrap', k]})
            k += 1
    # large ratio (radius / pixel = 400) and the extremes of the depth range
    out.append({'kind': 'circle', 'maxdepth': 12, 'depth': None, 'ra': 1.0, 'dec': 0.3,
                'r': math.radians(400 * resol_deg(12)), 'style': 'scalar', 'n': 4000, 'seed': ['t', 'big', 0]})
    out.append({'kind': 'circle', 'maxdepth': 9, 'depth': None, 'ra': 6.2, 'dec': -1.2,
                'r': math.radians(400 * resol_deg(9)), 'style': 'array', 'n': 4000, 'seed': ['t', 'big', 1]})
    # depth argument coarser / deeper than maxdepth
    for md, dp in ((10, 7), (8, 8), (9, 12), (12, 3), (6, 5)):
        out.append({'kind': 'circle', 'maxdepth': md, 'depth': dp, 'ra': 2.0 + md, 'dec': -0.4, 'r': math.radians(3.0),
                    'style': 'scalar', 'n': 2000, 'seed': ['t', 'deptharg', md, dp]})
    # polygons: containing a pole, straddling RA=0, thin, obtuse (all vertices in a half circle), 8-gon
    tp = [
        (0.0, 88.0, 10.0, [0, 90, 180, 270], 7), (120.0, -89.0, 5.0, [10, 130, 250], 8),
        (0.0, 0.0, 3.0, [0, 72, 144, 216, 288], 9), (359.9999, 20.0, 1.0, [5, 50, 95, 140, 185, 230, 275, 320], 10),
        (0.00001, -45.0, 0.05, [0, 120, 240], 12), (200.0, 30.0, 40.0, [0, 60, 120, 180, 240, 300], 5),
        (80.0, 10.0, 8.0, [0, 40, 80], 8), (250.0, -60.0, 8.0, [100, 110, 125, 170], 8),
        (10.0, 60.0, 60.0, [0, 100, 200, 300], 4), (300.0, 5.0, 0.02, [0, 90, 180, 270], 3),
        (45.0, 89.5, 2.0, [0, 45, 90, 135, 180, 225, 270, 315], 9), (180.0, 0.0, 20.0, [0, 5, 180], 6),
    ]
    for i, (ra, dec, R, ang, md) in enumerate(tp):
        for orient in (1, -1):
            out.append({'kind': 'poly', 'maxdepth': md, 'depth': None, 'ra': math.radians(ra), 'dec': math.radians(dec),
                        'R': math.radians(R), 'angles': [float(a) for a in ang], 'orient': orient, 'n': 2000,
                        'seed': ['t', 'poly', i, orient]})
    # shapes centred on whole degrees and wide enough to hold whole-degree positions (integer-typed probes)
    for i, (ra, dec, r, md) in enumerate(((15.0, -45.0, 5.0, 6), (0.0, 0.0, 3.0, 7), (359.0, 88.0, 8.0, 6),
                                          (200.0, -90.0, 10.0, 5), (90.0, 30.0, 1.5, 8), (300.0, 60.0, 25.0, 4))):
        out.append({'kind': 'circle', 'maxdepth': md, 'depth': None, 'ra': math.radians(ra), 'dec': math.radians(dec),
                    'r': math.radians(r), 'style': 'scalar', 'n': 1000, 'seed': ['t', 'whole', i]})
    # whole-radian positions: float-built shapes centred on them (integer-typed radian probes fall inside), and the
    # same shapes built from integer-typed arguments
    k = 0
    for (ra, dec) in ((0, 0), (1, 0), (3, 1), (5, -1), (6, 1), (2, 0)):
        for r, md in ((1, 4), (0.05, 7)):
            for style in ('scalar', 'int_scalar', 'int_list', 'int_array'):
                if style != 'scalar' and (k + len(style)) % 2 and r != 1:
                    continue
                out.append({'kind': 'circle', 'maxdepth': md, 'depth': None, 'ra': ra, 'dec': dec, 'r': r,
                            'style': style, 'n': 1000, 'seed': ['t', 'wholerad', ra, dec, r, style]})
            k += 1
    out.append({'kind': 'circles', 'maxdepth': 5, 'depth': None, 'ra': [0, 2, 4], 'dec': [0, 1, -1], 'r': [0.2, 0.3, 0.25],
                'style': 'int_list', 'n': 900, 'seed': ['t', 'wholerad', 'multi']})
    for i, tri in enumerate(([[0, 0], [1, 0], [0, 1]], [[3, -1], [4, -1], [4, 0]], [[6, 1], [5, 1], [5, 0]],
                             [[2, 0], [3, 1], [2, 1]])):
        for cont in ('list', 'array'):
            out.append({'kind': 'poly', 'maxdepth': 5, 'depth': None, 'vertices_int_rad': tri, 'vertex_container': cont,
                        'n': 1500, 'seed': ['t', 'polyint', i, cont]})
    # multi-step builds: a second call that overlaps pixels already promoted by the first; area read before any query
    tb = [
        (9, [(150.0, -30.0, 4.0), (151.0, -29.5, 3.0)]), (9, [(151.0, -29.5, 3.0), (150.0, -30.0, 4.0)]),
        (10, [(10.0, 20.0, 2.0), (12.5, 20.5, 2.0)]), (11, [(359.8, -5.0, 0.8), (0.3, -5.2, 0.5), (0.0, -4.4, 0.3)]),
        (9, [(40.0, 86.0, 3.0), (100.0, 88.0, 2.5)]), (10, [(200.0, 0.0, 1.5), (200.2, 0.1, 0.4), (205.0, 0.0, 0.5)]),
        (8, [(80.0, 45.0, 6.0), (82.0, 46.0, 2.0), (78.0, 44.0, 2.5), (80.0, 45.0, 1.0)]),
    ]
    for i, (md, circ) in enumerate(tb):
        for polymask in (0, 1, 2):
            steps = []
            for j, (ra, dec, r) in enumerate(circ):
                st = {'ra': ra, 'dec': dec, 'r': r, 'rel': 'targeted', 'op': 'circle'}
                if polymask and (j + polymask) % 2 == 0:
                    st.update(op='poly', angles=[5.0, 65.0, 130.0, 190.0, 250.0, 310.0], orient=1 if j % 2 else -1)
                steps.append(st)
            out.append({'kind': 'build', 'maxdepth': md, 'depth': None, 'steps': steps, 'n': 1200,
                        'seed': ['t', 'build', i, polymask]})
    # duplicates and ties inside one vector add_circles call: concentric circles (radii increasing / decreasing / mixed,
    # exact duplicates), alone and next to circles elsewhere
    k = 0
    for (ra, dec, md) in ((150.0, -30.0, 8), (0.0, 0.0, 7), (300.0, 89.0, 7), (45.0, 60.0, 9)):
        for radii in ([1.0, 3.0], [3.0, 1.0], [0.5, 2.0, 1.0], [2.0, 0.5, 4.0, 1.0], [1.5, 1.5], [1.0, 1.0, 2.5]):
            for style in ('list', 'array'):
                ras, decs, rs = [ra] * len(radii), [dec] * len(radii), list(radii)
                if k % 3 == 0:            # plus an unrelated circle in the same call, first or last
                    pos = 0 if k % 2 else len(ras)
                    ras.insert(pos, (ra + 20.0) % 360)
                    decs.insert(pos, max(dec - 15.0, -89.0))
                    rs.insert(pos, 2.0)
                out.append({'kind': 'circles', 'maxdepth': md, 'depth': None, 'ra': [math.radians(x) for x in ras],
                            'dec': [math.radians(x) for x in decs], 'r': [math.radians(x) for x in rs], 'style': style,
                            'concentric': True, 'n': 2000, 'seed': ['t', 'concentric', k]})
                k += 1
    rcon = rng_for(seed, 'c09-concentric', tier)
    for i in range(60 if tier == 'quick' else 900):
        md = int(rcon.integers(6, 11))
        pixd = resol_deg(md)
        ra, dec = float(rcon.uniform(0, 2 * math.pi)), float(math.asin(rcon.uniform(-1, 1)))
        m = int(rcon.integers(2, 5))
        rs = [math.radians(pixd * 10 ** rcon.uniform(0.3, 1.6)) for _ in range(m)]
        if rcon.random() < 0.3:
            rs[int(rcon.integers(0, m))] = rs[0]                      # an exact duplicate
        ras, decs = [ra] * m, [dec] * m
        for _ in range(int(rcon.integers(0, 3))):                      # other circles interleaved
            pos = int(rcon.integers(0, len(ras) + 1))
            ras.insert(pos, float(rcon.uniform(0, 2 * math.pi)))
            decs.insert(pos, float(math.asin(rcon.uniform(-1, 1))))
            rs.insert(pos, math.radians(pixd * 10 ** rcon.uniform(0.3, 1.4)))
        out.append({'kind': 'circles', 'maxdepth': md, 'depth': None, 'ra': ras, 'dec': decs, 'r': rs,
                    'style': str(rcon.choice(['list', 'array'])), 'concentric': True, 'n': 2000, 'seed': [seed, 'concentric', i]})
    # shapes that reach the judged region through another region (Region.union / MIMAS -depth d +r file)
    hexa = [0.0, 55.0, 120.0, 185.0, 240.0, 300.0]
    k = 0
    for D in (8, 9, 10):
        for dd in (-1, -2, -4, 0, 1, 2):
            for qf in (False, True):
                shp = [{'op': 'circle', 'ra': 40.0 + 37 * k, 'dec': -35.0 + 9 * k % 70, 'r': 3.0},
                       {'op': 'poly', 'ra': (48.0 + 37 * k) % 360, 'dec': -33.0 + 9 * k % 70, 'r': 2.5, 'angles': hexa,
                        'orient': 1 if k % 2 else -1}]
                out.append({'kind': 'via', 'maxdepth': D + dd, 'D': D, 'd': D + dd, 'shapes': shp if k % 3 else shp[:1],
                            'query_first': qf, 'route': 'cli' if k % 4 == 1 else 'api', 'n': 1200,
                            'seed': ['t', 'via', D, dd, qf]})
                k += 1
    rvia = rng_for(seed, 'c09-via', tier)
    for i in range(110 if tier == 'quick' else 1600):
        D = int(rvia.integers(6, 12))
        dd = int(rvia.choice([-1, -2, -2, -3, -4, 0, 1, 2, 3]))
        d = int(np.clip(D + dd, 3, 12))
        r = resol_deg(D) * rvia.uniform(6, 60)
        while math.pi * (r / resol_deg(max(D, d))) ** 2 > 80000:
            r *= 0.7
        ra, dec = float(rvia.uniform(0, 360)), float(math.degrees(math.asin(rvia.uniform(-0.98, 0.98))))
        shp = []
        for j in range(int(rvia.integers(1, 3))):
            a, b = sphere.destination(ra, dec, r * rvia.uniform(0, 2.5) * j, rvia.uniform(0, 360))
            sp = {'op': 'circle', 'ra': float(a) % 360.0, 'dec': float(np.clip(b, -89, 89)), 'r': float(r * rvia.uniform(0.5, 1))}
            if rvia.random() < 0.4:
                sp.update(op='poly', angles=_angles(rvia, int(rvia.integers(3, 9)), mingap=8.0), orient=int(rvia.choice([1, -1])))
            shp.append(sp)
        out.append({'kind': 'via', 'maxdepth': d, 'D': D, 'd': d, 'shapes': shp, 'query_first': bool(rvia.random() < 0.5),
                    'route': 'cli' if rvia.random() < 0.25 else 'api', 'n': 1200, 'seed': [seed, 'via', i]})
    # DS9 region files -> MIMAS.reg2mim / --reg2mim: decimal degrees and sexagesimal, declinations in (-1, 0), RA 00:00:xx
    tr = [
        [{'op': 'circle', 'ra': 12.5, 'dec': -0.5, 'r': 0.15}], [{'op': 'circle', 'ra': 0.02, 'dec': -0.2, 'r': 0.05}],
        [{'op': 'circle', 'ra': 188.7, 'dec': -0.0125, 'r': 0.2}, {'op': 'circle', 'ra': 189.6, 'dec': 0.4, 'r': 0.1}],
        [{'op': 'poly', 'ra': 45.0, 'dec': -0.6, 'r': 0.25, 'angles': hexa, 'orient': 1}],
        [{'op': 'poly', 'ra': 0.01, 'dec': 0.05, 'r': 0.3, 'angles': [10.0, 100.0, 190.0, 280.0], 'orient': -1}],
        [{'op': 'box', 'ra': 100.0, 'dec': -0.4, 'w': 0.3, 'h': 0.2}], [{'op': 'box', 'ra': 0.05, 'dec': 0.3, 'w': 0.2, 'h': 0.3}],
        [{'op': 'circle', 'ra': 300.0, 'dec': -45.5, 'r': 0.3}, {'op': 'poly', 'ra': 301.5, 'dec': -45.0, 'r': 0.4,
                                                                'angles': hexa, 'orient': 1}],
        [{'op': 'circle', 'ra': 75.0, 'dec': 62.25, 'r': 0.2}], [{'op': 'circle', 'ra': 359.99, 'dec': -0.9, 'r': 0.08}],
    ]
    for i, shp in enumerate(tr):
        for fmt in ('decimal', 'sexagesimal'):
            out.append({'kind': 'regfile', 'maxdepth': 11 if i % 2 else 10, 'depth': None, 'shapes': shp, 'format': fmt,
                        'route': 'cli' if (i + len(fmt)) % 3 == 0 else 'api', 'n': 1200, 'seed': ['t', 'regfile', i, fmt]})
    rreg = rng_for(seed, 'c09-regfile', tier)
    for i in range(90 if tier == 'quick' else 1400):
        md = int(rreg.integers(9, 13))
        pixd = resol_deg(md)
        shp = []
        for j in range(int(rreg.integers(1, 4))):
            u = rreg.random()
            dec = float(-rreg.uniform(0.001, 0.98) if u < 0.4 else (rreg.uniform(0.001, 0.98) if u < 0.6 else
                                                                     rreg.uniform(-80, 80)))
            ra = float(rreg.uniform(0, 0.3) if rreg.random() < 0.2 else rreg.uniform(0, 359.9))
            r = float(pixd * rreg.uniform(5, 40))
            v = rreg.random()
            if v < 0.5:
                shp.append({'op': 'circle', 'ra': ra, 'dec': dec, 'r': r})
            elif v < 0.85 or abs(dec) > 0.9:
                shp.append({'op': 'poly', 'ra': ra, 'dec': dec, 'r': r, 'angles': _angles(rreg, int(rreg.integers(3, 9)), mingap=8.0),
                            'orient': int(rreg.choice([1, -1]))})
            else:
                h = float(min(pixd * rreg.uniform(6, 40), 2 * (0.98 - abs(dec))))
                shp.append({'op': 'box', 'ra': ra, 'dec': dec, 'w': float(pixd * rreg.uniform(6, 40)), 'h': max(h, 0.01)})
        out.append({'kind': 'regfile', 'maxdepth': md, 'depth': None, 'shapes': shp,
                    'format': str(rreg.choice(['decimal', 'sexagesimal'])), 'route': 'cli' if rreg.random() < 0.3 else 'api',
                    'n': 1200, 'seed': [seed, 'regfile', i]})
    # the same targeted builds with a query between the steps (the cache is built, then more is added)
    for i, (md, circ) in enumerate(tb):
        for j, q in enumerate(QUERIES):
            steps = [{'ra': ra, 'dec': dec, 'r': r, 'rel': 'targeted', 'op': 'circle'} for (ra, dec, r) in circ]
            if (i + j) % 2:
                steps[-1].update(op='poly', angles=[5.0, 65.0, 130.0, 190.0, 250.0, 310.0], orient=1)
            if j % 2 == 0:
                steps[-1 if steps[-1]['op'] == 'circle' else 0]['extra'] = [
                    [circ[0][0] + 3 * circ[0][2], circ[0][1], circ[0][2] * 0.5],
                    [circ[0][0], circ[0][1] - 2.5 * circ[0][2], circ[0][2] * 0.7]]
            out.append({'kind': 'build', 'maxdepth': md, 'depth': None, 'steps': steps, 'n': 1000,
                        'queries': [q] * (len(steps) - 1) + ['none'], 'seed': ['t', 'build-q', i, q]})
    # explicit depth argument of add_poly (below, equal to, above maxdepth)
    for i, (md, dp) in enumerate(((10, 7), (8, 8), (9, 12), (11, 6), (6, 5), (11, 9), (7, 3), (5, 9))):
        for orient in (1, -1):
            out.append({'kind': 'poly', 'maxdepth': md, 'depth': dp, 'ra': math.radians(40.0 + 31 * i),
                        'dec': math.radians(-50.0 + 17 * i), 'R': math.radians(3.0),
                        'angles': [0.0, 50.0, 115.0, 180.0, 250.0, 300.0], 'orient': orient, 'n': 2000,
                        'seed': ['t', 'polydepth', md, dp, orient]})
    rdep = rng_for(seed, 'c09-depth-argument', tier)
    for i in range(150 if tier == 'quick' else 2500):
        R = 10 ** rdep.uniform(-1.0, math.log10(40))
        u = rdep.random()
        ok_eff = [d for d in range(3, 13) if R / resol_deg(d) <= 120]
        eff = int(rdep.choice(ok_eff))
        ncoarse = max(9.0, 1.3 * math.pi * (R / resol_deg(eff)) ** 2)      # coarse pixels, each 4**(md-dp) deepest ones
        deeper_ok = [m for m in range(eff + 1, 13) if ncoarse * 4 ** (m - eff) <= 250000]
        if u < 0.7 and deeper_ok:
            md, dp = int(rdep.choice(deeper_ok)), eff                    # coarser than the region
        elif u < 0.85:
            md, dp = eff, eff + int(rdep.integers(1, 5))                # deeper: clamped to maxdepth
        else:
            md, dp = eff, eff
        ra = float(rdep.choice([rdep.uniform(0, 360), 0.0, 359.99]))
        dec = float(np.clip(rdep.choice([math.degrees(math.asin(rdep.uniform(-1, 1))), 90 - R * 0.5, -90 + R * 0.5]),
                            -89.999, 89.999))
        if i % 3 == 0:
            out.append({'kind': 'circle', 'maxdepth': md, 'depth': dp, 'ra': math.radians(ra), 'dec': math.radians(dec),
                        'r': math.radians(R), 'style': str(rdep.choice(['scalar', 'list', 'array'])), 'n': 1500,
                        'seed': [seed, 'depth-circle', i]})
        else:
            out.append({'kind': 'poly', 'maxdepth': md, 'depth': dp, 'ra': math.radians(ra), 'dec': math.radians(dec),
                        'R': math.radians(R), 'angles': _angles(rdep, int(rdep.integers(3, 9))),
                        'orient': int(rdep.choice([1, -1])), 'n': 1500, 'seed': [seed, 'depth-poly', i]})
    rq = rng_for(seed, 'c09-builds-interleaved', tier)
    for i in range(90 if tier == 'quick' else 1500):
        md = int(rq.integers(8, 12))
        steps = _gen_build(rq, md)
        for st in steps:
            if st['op'] == 'circle' and rq.random() < 0.3:
                st['extra'] = [[float(x) for x in (*sphere.destination(st['ra'], st['dec'], st['r'] * rq.uniform(0.5, 3),
                                                                       rq.uniform(0, 360)), st['r'] * rq.uniform(0.3, 1))]
                               for _ in range(int(rq.integers(1, 3)))]
                for e in st['extra']:
                    e[0] = e[0] % 360.0
                    e[1] = float(np.clip(e[1], -89.5, 89.5))
        qs = [str(rq.choice(QUERIES + ('none',))) for _ in steps]
        qs[int(rq.integers(0, len(steps) - 1))] = str(rq.choice(TOUCHING))       # at least one query builds the cache
        qs[-1] = 'none'
        out.append({'kind': 'build', 'maxdepth': md, 'depth': None, 'steps': steps, 'queries': qs, 'n': 1000,
                    'seed': [seed, 'build-q', i]})
    # ---- seeded random sample
    rng = rng_for(seed, 'c09-cases', tier)
    for i in range(90 if tier == 'quick' else 1500):
        md = int(rng.integers(8, 12))
        out.append({'kind': 'build', 'maxdepth': md, 'depth': None, 'steps': _gen_build(rng, md), 'n': 1200,
                    'seed': [seed, 'build', i]})
    ncirc, nmulti, npoly = (520, 60, 460) if tier == 'quick' else (9000, 1000, 8000)
    cap = 150 if tier == 'quick' else 250
    for i in range(ncirc):
        r = 10 ** rng.uniform(-2, math.log10(60))
        md = _pick_depth(rng, r, cap)
        dp = None
        u = rng.random()
        if u < 0.12 and md > 3:
            dp = int(rng.integers(3, md))
        elif u < 0.2:
            dp = md + int(rng.integers(1, 4))
        if dp is not None and r / resol_deg(min(dp, md)) > cap:
            dp = None
        ra = float(rng.choice([rng.uniform(0, 2 * math.pi), 0.0, 2 * math.pi - tiny], p=[0.8, 0.1, 0.1]))
        dec = float(rng.choice([math.asin(rng.uniform(-1, 1)), math.pi / 2, -math.pi / 2,
                                math.pi / 2 - 10 ** rng.uniform(-8, -2)], p=[0.8, 0.07, 0.07, 0.06]))
        out.append({'kind': 'circle', 'maxdepth': md, 'depth': dp, 'ra': ra, 'dec': dec, 'r': math.radians(r),
                    'style': str(rng.choice(['scalar', 'list', 'array'])), 'n': 2000, 'seed': [seed, 'circle', i]})
    for i in range(nmulti):
        m = int(rng.integers(2, 6))
        md = int(rng.integers(5, 11))
        rs = [float(resol_deg(md) * 10 ** rng.uniform(-0.5, 1.6)) for _ in range(m)]
        out.append({'kind': 'circles', 'maxdepth': md, 'depth': None,
                    'ra': [float(rng.uniform(0, 2 * math.pi)) for _ in range(m)],
                    'dec': [float(math.asin(rng.uniform(-1, 1))) for _ in range(m)],
                    'r': [math.radians(x) for x in rs], 'style': str(rng.choice(['list', 'array'])), 'n': 600,
                    'seed': [seed, 'circles', i]})
    for i in range(npoly):
        R = 10 ** rng.uniform(-1.7, math.log10(60))
        md = _pick_depth(rng, R, cap)
        nv = int(rng.integers(3, 9))
        ang = _angles(rng, nv)
        ra = float(rng.choice([rng.uniform(0, 360), 0.0, 360 - 1e-7], p=[0.8, 0.1, 0.1]))
        dec = float(rng.choice([math.degrees(math.asin(rng.uniform(-1, 1))), 90 - R * rng.uniform(0, 0.9),
                                -90 + R * rng.uniform(0, 0.9)], p=[0.8, 0.1, 0.1]))
        dec = max(-89.999, min(89.999, dec))
        out.append({'kind': 'poly', 'maxdepth': md, 'depth': None, 'ra': math.radians(ra), 'dec': math.radians(dec),
                    'R': math.radians(R), 'angles': ang, 'orient': int(rng.choice([1, -1])), 'n': 2000,
                    'seed': [seed, 'poly', i]})
    return out


def _angles(rng, nv, mingap=4.0):
    """nv bearings (deg) on the small circle with all consecutive gaps >= mingap (incl. the wrap)"""
    while True:
        if rng.random() < 0.25:           # all vertices inside a half circle: an obtuse polygon not containing its centre
            a = np.sort(rng.uniform(0, 170, nv)) + rng.uniform(0, 360)
        else:
            a = np.sort(rng.uniform(0, 360, nv))
        gaps = np.diff(np.concatenate([a, [a[0] + 360]]))
        if gaps.min() >= mingap:
            return [float(x % 360) for x in a]


# ----------------------------------------------------------------------------- helpers
def _call(o, f, what, *args, **kw):
    try:
        return True, f(*args, **kw)
    except Exception:
        o.violate('raises', {'call': what, 'traceback': traceback.format_exc()[-1200:]})
        return False, None


def _probes_about(rng, ra0, dec0, r, pix, n, ntail=None):
    """probe positions (deg) around a circle of radius r deg about (ra0, dec0) deg; pix deg"""
    parts = []
    n5 = n // 5
    parts.append(r * np.sqrt(rng.uniform(0, 1, n5)))                                  # interior
    parts.append(np.maximum(r - pix * 10 ** rng.uniform(-7, 0, n5), 0.0))             # inside, near the boundary
    parts.append(r + rng.choice([-1, 1], 40) * 10 ** rng.uniform(-12, -7.5, 40))      # knife edge
    parts.append(r + pix * rng.uniform(0, BAND, n5 // 2))                             # free band
    parts.append(r + BAND * pix + pix * 10 ** rng.uniform(-6, 1.2, n5 + n5 // 2))     # just beyond the band
    s = np.clip(np.concatenate(parts), 0.0, 180.0)
    t = rng.uniform(0, 360, len(s))
    ra, dec = sphere.destination(ra0, dec0, s, t)
    m = n - len(s)
    if m > 0:                                                                         # anywhere
        ra = np.concatenate([ra, rng.uniform(0, 360, m)])
        dec = np.concatenate([dec, np.degrees(np.arcsin(rng.uniform(-1, 1, m)))])
    return ra % 360.0, np.clip(dec, -90.0, 90.0)


def _query_all(o, reg, ra_deg, dec_deg, rng):
    """sky_within through every input convention.  Returns the boolean answer (radians/array form) or None."""
    ra_rad, dec_rad = np.radians(ra_deg), np.radians(dec_deg)
    ok, res_rad = _call(o, reg.sky_within, 'sky_within(array, array)', ra_rad, dec_rad)
    if not ok:
        return None
    res_rad = np.asarray(res_rad)
    if res_rad.shape != ra_deg.shape or res_rad.dtype != bool:
        o.violate('result_shape', {'shape': list(res_rad.shape), 'dtype': str(res_rad.dtype), 'n': len(ra_deg)})
        return None
    ok, res_deg = _call(o, reg.sky_within, 'sky_within(array, array, degin=True)', ra_deg, dec_deg, degin=True)
    if not ok:
        return None
    res_deg = np.asarray(res_deg)
    o.n_eval += 2 * len(ra_deg)
    diff = np.flatnonzero(res_deg != res_rad)
    if len(diff):
        _, st = healmember.stable_cell(ra_deg[diff], dec_deg[diff], reg.maxdepth)
        o.count('undetermined', int((~st).sum()))
        for i in diff[st][:3]:
            o.violate('degin_disagree', {'probe_deg': [ra_deg[i], dec_deg[i]], 'radians_answer': bool(res_rad[i]),
                                         'degrees_answer': bool(res_deg[i])})
    o.count('degin_pairs_compared', len(ra_deg))
    # python lists
    sel = rng.integers(0, len(ra_deg), 60)
    ok, res_list = _call(o, reg.sky_within, 'sky_within(list, list)', [float(x) for x in ra_rad[sel]],
                         [float(x) for x in dec_rad[sel]])
    if ok:
        res_list = np.asarray(res_list)
        o.count('list_calls')
        o.n_eval += len(sel)
        if res_list.shape != (len(sel),) or not np.array_equal(res_list, res_rad[sel]):
            o.violate('list_vs_array', {'list_answer': res_list.tolist()[:10], 'array_answer': res_rad[sel].tolist()[:10]})
    # scalars
    for i in rng.integers(0, len(ra_deg), 30):
        for degin in (False, True):
            a, d = (float(ra_deg[i]), float(dec_deg[i])) if degin else (float(ra_rad[i]), float(dec_rad[i]))
            ok, rs = _call(o, reg.sky_within, 'sky_within(float, float, degin=%s)' % degin, a, d, degin=degin)
            if not ok:
                continue
            o.count('scalar_calls')
            o.n_eval += 1
            rs = np.asarray(rs)
            want = res_deg[i] if degin else res_rad[i]
            if rs.size != 1 or bool(rs.ravel()[0]) != bool(want):
                o.violate('scalar_vs_array', {'probe_deg': [ra_deg[i], dec_deg[i]], 'degin': degin,
                                              'scalar_answer': rs.tolist(), 'array_answer': bool(want)})
    # non-finite probes, alone and mixed with good ones: never inside, never disturb the others
    bad_ra = np.array([np.nan, 0.1, np.nan, np.inf, 0.2, -np.inf])
    bad_dec = np.array([0.1, np.nan, np.nan, 0.1, np.inf, np.nan])
    mix_ra = np.concatenate([bad_ra, ra_rad[:50]])
    mix_dec = np.concatenate([bad_dec, dec_rad[:50]])
    for degin in (False, True):
        mr, mdc = (np.degrees(mix_ra), np.degrees(mix_dec)) if degin else (mix_ra, mix_dec)
        ok, rb = _call(o, reg.sky_within, 'sky_within(with non-finite, degin=%s)' % degin, mr, mdc, degin=degin)
        if not ok:
            continue
        rb = np.asarray(rb)
        o.count('nonfinite_probes', len(bad_ra))
        o.n_eval += len(mix_ra)
        if rb[:len(bad_ra)].any():
            o.violate('nonfinite_inside', {'ra': [repr(x) for x in bad_ra], 'dec': [repr(x) for x in bad_dec],
                                           'answer': rb[:len(bad_ra)].tolist(), 'degin': degin})
        ref = (res_deg if degin else res_rad)[:50]
        if not np.array_equal(rb[len(bad_ra):], ref):
            o.violate('nonfinite_disturbs_others', {'degin': degin, 'n_changed': int((rb[len(bad_ra):] != ref).sum())})
    return res_rad


def _whole_degree_probes(rng, centres, radii_deg, pix, n=260):
    """whole-degree positions: the lattice points on and around every shape, plus some anywhere"""
    ras, decs = [], []
    for (ra0, dec0), r in zip(centres, radii_deg):
        reach = min(r + BAND * pix + 3.0, 180.0)
        d = np.arange(max(-90, math.floor(dec0 - reach)), min(90, math.ceil(dec0 + reach)) + 1)
        cosd = max(math.cos(math.radians(min(89.0, abs(dec0) + reach))), 0.02)
        half = min(180.0, reach / cosd)
        a = np.arange(math.floor(ra0 - half), math.ceil(ra0 + half) + 1)
        if len(a) * len(d) > 4000:
            a = rng.choice(a, size=max(1, 4000 // len(d)), replace=False)
        A, D = np.meshgrid(a, d)
        A, D = A.ravel(), D.ravel()
        keep = sphere.sep(ra0, dec0, A % 360, D) <= reach
        A, D = A[keep], D[keep]
        if len(A) > n:
            sel = rng.choice(len(A), n, replace=False)
            A, D = A[sel], D[sel]
        ras.append(A % 360)
        decs.append(D)
        # the whole-degree point nearest to the centre, the centre's own parallel / meridian
        ras.append(np.array([round(ra0) % 360, round(ra0) % 360, (round(ra0) + 1) % 360]))
        decs.append(np.clip(np.array([round(dec0), min(90, round(dec0) + 1), round(dec0)]), -90, 90))
    ras.append(rng.integers(0, 361, 40))            # 360 itself is a legal spelling of 0
    decs.append(rng.integers(-90, 91, 40))
    ras.append(np.array([0, 0, 0, 180, 360, 90]))
    decs.append(np.array([0, 90, -90, 0, 0, 45]))
    return np.concatenate(ras).astype(np.int64), np.concatenate(decs).astype(np.int64)


MECH_INT = 'sky2ang-integer-input-truncated'


def _mech_integer(witness):
    """mechanism key from the witness: the coordinates were handed over integer-typed (ra AND dec) in RADIANS, the
    case in which sky2ang keeps an integer array and truncates pi/2 - dec (integer degrees go through np.radians)"""
    sp = str(witness.get('spelling', '')) + ' ' + str(witness.get('add_circles_style', '')) + \
        ' ' + str(witness.get('add_poly_style', ''))
    all_int = 'int' in sp and 'float' not in sp
    return MECH_INT if (all_int and witness.get('units') == 'radians') else None


def _query_integers(o, reg, ira, idec, rng, degin=True):
    """the same whole-number positions through every integer-typed spelling of sky_within; every spelling must give
    the answer of the float spelling (a difference is judged only away from HEALPix cell edges).
    Returns that (float spelling) answer or None."""
    units = 'degrees' if degin else 'radians'
    fra, fdec = ira.astype(float), idec.astype(float)
    ok, ref = _call(o, reg.sky_within, 'sky_within(float whole %s, degin=%s)' % (units, degin), fra, fdec, degin=degin)
    if not ok:
        return None
    ref = np.asarray(ref)
    o.n_eval += len(ira)
    dra, ddec = (fra, fdec) if degin else (np.degrees(fra) % 360.0, np.degrees(fdec))

    def cmp(tag, got, idx):
        got = np.asarray(got)
        o.count('integer_spellings_compared' if degin else 'integer_radian_spellings_compared', len(idx))
        o.n_eval += len(idx)
        o.see('integer_spelling', tag)
        if got.shape != (len(idx),) or got.dtype != bool:
            o.violate('result_shape', {'spelling': tag, 'shape': list(got.shape), 'dtype': str(got.dtype)})
            return
        bad = np.flatnonzero(got != ref[idx])
        if len(bad):
            st = healmember.stable_cell(dra[idx[bad]], ddec[idx[bad]], reg.maxdepth)[1]
            o.count('undetermined', int((~st).sum()))
            for k in bad[st][:3]:
                i = idx[k]
                w = {'spelling': tag, 'units': units, 'ra': int(ira[i]), 'dec': int(idec[i]),
                     'integer_answer': bool(got[k]), 'float_answer': bool(ref[i]),
                     'n_differ': int(st.sum()), 'n': int(len(idx))}
                o.violate('integer_vs_float_' + units, w, _mech_integer(w))

    allidx = np.arange(len(ira))
    for tag, a, d in (('int64 arrays', ira.astype(np.int64), idec.astype(np.int64)),
                      ('int32 arrays', ira.astype(np.int32), idec.astype(np.int32)),
                      ('lists of python ints', [int(x) for x in ira], [int(x) for x in idec]),
                      ('tuples of python ints', tuple(int(x) for x in ira), tuple(int(x) for x in idec)),
                      ('list of numpy int64 scalars', [np.int64(x) for x in ira], [np.int64(x) for x in idec]),
                      ('int ra array / float dec array', ira.astype(np.int64), fdec),
                      ('float ra array / int dec array', fra, idec.astype(np.int64))):
        ok, got = _call(o, reg.sky_within, 'sky_within(%s, degin=%s)' % (tag, degin), a, d, degin=degin)
        if ok:
            cmp(tag, got, allidx)
    # scalars: prefer the positions the float spelling reports inside, they are the informative ones
    inside = np.flatnonzero(ref)
    pick = list(rng.choice(inside, min(len(inside), 25), replace=False)) if len(inside) else []
    pick += list(rng.integers(0, len(ira), 15))
    for i in pick:
        for tag, a, d in (('python int scalars', int(ira[i]), int(idec[i])),
                          ('numpy int64 scalars', np.int64(ira[i]), np.int64(idec[i])),
                          ('numpy int32 scalars', np.int32(ira[i]), np.int32(idec[i]))):
            ok, got = _call(o, reg.sky_within, 'sky_within(%s, degin=%s)' % (tag, degin), a, d, degin=degin)
            if ok:
                cmp(tag, np.asarray(got).ravel(), np.array([i]))
    return ref


def _stored_pixels(reg):
    """[(level, int ids)] from a deep copy of the pixeldict"""
    import copy
    pd = copy.deepcopy(reg.pixeldict)
    out = []
    for d, s in pd.items():
        if len(s) and 0 <= int(d) <= reg.maxdepth:
            ids = np.array(sorted(int(p) for p in s), dtype=np.int64)
            out.append((int(d), ids))
    return out


def _pixel_outer_points(level, ids, step=2, pull=1e-3):
    """points just inside each pixel's outline (corners and edge points), as (ra, dec) deg arrays of shape (N, 4*step)"""
    b = hp.boundaries(2 ** level, ids, step=step, nest=True)          # (N, 3, 4*step)
    b = np.moveaxis(np.atleast_3d(b) if b.ndim == 3 else b[None, ...], 1, 2)   # (N, 4*step, 3)
    c = np.array(hp.pix2vec(2 ** level, ids, nest=True)).T[:, None, :]
    p = (1 - pull) * b + pull * c
    p /= np.linalg.norm(p, axis=-1, keepdims=True)
    return sphere.radec(p)


def _examine_pixels(o, reg, centres, radii_deg, pix, tag, limit=400000, mech=None):
    """every stored pixel: its outline must lie within radius + 3 pixel sizes of (one of) the centre(s)"""
    worst = -np.inf
    n = 0
    for level, ids in _stored_pixels(reg):
        if len(ids) > limit:
            sel = np.random.default_rng(0).choice(len(ids), limit, replace=False)
            ids = ids[sel]
        for k in range(0, len(ids), 50000):
            chunk = ids[k:k + 50000]
            ra, dec = _pixel_outer_points(level, chunk)
            excess = np.full(ra.shape, np.inf)
            for (ra0, dec0), r in zip(centres, radii_deg):
                excess = np.minimum(excess, sphere.sep(ra0, dec0, ra, dec) - r)
            n += len(chunk)
            worst = max(worst, float(excess.max()))
            bad = np.argwhere(excess > BAND * pix + EPS_DEG)
            for i, j in bad[:3]:
                o.violate(tag + '_stored_pixel_far', {
                    'level': level, 'pixel': int(chunk[i]), 'point_inside_pixel_deg': [ra[i, j], dec[i, j]],
                    'excess_over_radius_in_pixel_sizes': float(excess[i, j] / pix), 'allowed': BAND}, mech)
    o.count('stored_pixels_examined', n)
    o.n_eval += n
    if n:
        o.worst(tag + '_stored_pixel_excess_pixsizes', worst / pix)
    return n


def _cap_sr(r_deg):
    return SPHERE_SR if r_deg >= 180 else 2 * math.pi * (1 - math.cos(math.radians(r_deg)))


def _judge(o, tag, res, model_in, must_in, must_out, free, ra, dec, stable_fn, extra, mech=None):
    """res: subject answer; model_in: probe's own cell is in the stored pixel set"""
    o.count(tag + '_probe_inside_judged', int(must_in.sum()))
    o.count(tag + '_probe_far_judged', int(must_out.sum()))
    o.count(tag + '_probe_free_band', int(free.sum()))
    o.count('undetermined', int((~must_in & ~must_out & ~free).sum()))
    o.count(tag + '_free_band_reported_inside', int((free & res).sum()))
    for i in np.flatnonzero(must_in & ~res)[:3]:
        o.violate(tag + '_interior_reported_outside', dict(extra(i), probe_deg=[ra[i], dec[i]]), mech)
    for i in np.flatnonzero(must_out & res)[:3]:
        o.violate(tag + '_far_reported_inside', dict(extra(i), probe_deg=[ra[i], dec[i]]), mech)
    for i in np.flatnonzero(must_in & ~model_in)[:3]:
        o.violate(tag + '_interior_not_in_stored_pixels', dict(extra(i), probe_deg=[ra[i], dec[i]]), mech)
    for i in np.flatnonzero(must_out & model_in)[:3]:
        o.violate(tag + '_far_in_stored_pixels', dict(extra(i), probe_deg=[ra[i], dec[i]]), mech)
    dis = np.flatnonzero(res != model_in)
    if len(dis):
        st = stable_fn(dis)
        o.count('undetermined', int((~st).sum()))
        for i in dis[st][:3]:
            o.violate('sky_within_vs_stored_pixels', dict(extra(i), probe_deg=[ra[i], dec[i]],
                                                          sky_within=bool(res[i]), cell_in_pixeldict=bool(model_in[i])), mech)
    o.count('sky_within_vs_stored_pixels_compared', len(res))


# ----------------------------------------------------------------------------- shapes (shared by integer probes and builds)
def _poly_geom(vra, vdec):
    """edge-plane normals of a convex polygon given by its vertices (deg), oriented towards the interior"""
    vv = sphere.vec(np.asarray(vra, dtype=float), np.asarray(vdec, dtype=float))
    nrm = np.cross(vv, np.roll(vv, -1, axis=0))
    nrm /= np.linalg.norm(nrm, axis=1, keepdims=True)
    sgn = np.sign(nrm @ vv.mean(axis=0))
    if not np.all(sgn == sgn[0]) or sgn[0] == 0:
        raise RuntimeError('harness: generated polygon is not convex')
    return nrm * sgn[0]


def _circle_shape(ra0, dec0, r):
    return {'kind': 'circle', 'cen': (ra0, dec0), 'R': r}


def _poly_shape(ra0, dec0, vra, vdec):
    return {'kind': 'poly', 'cen': (ra0, dec0), 'R': float(sphere.sep(ra0, dec0, vra, vdec).max()),
            'nrm': _poly_geom(vra, vdec), 'vertices': [[float(a), float(d)] for a, d in zip(vra, vdec)]}


def _union_margins(shapes, ra, dec):
    """inner: how far (deg) a position is inside the union of the exact shapes (max over shapes; > 0 inside);
    outer: distance beyond the nearest (circumscribed) circle (min over shapes; > 0 outside all of them)"""
    inner = np.full(np.shape(ra), -np.inf)
    outer = np.full(np.shape(ra), np.inf)
    pv = None
    for sh in shapes:
        d = sphere.sep(sh['cen'][0], sh['cen'][1], ra, dec)
        outer = np.minimum(outer, d - sh['R'])
        if sh['kind'] == 'circle':
            inner = np.maximum(inner, sh['R'] - d)
        else:
            if pv is None:
                pv = sphere.vec(ra, dec)
            h = np.degrees(np.arcsin(np.clip(pv @ sh['nrm'].T, -1, 1))).min(axis=-1)
            inner = np.maximum(inner, h - sh.get('inner_margin', 0.0))
    return inner, outer


def _shape_summary(shapes):
    return [{'kind': sh['kind'], 'centre_deg': list(sh['cen']), 'radius_deg': sh['R'],
             **({'vertices_deg': sh['vertices']} if sh['kind'] == 'poly' else {})} for sh in shapes]


def _classify(shapes, ra, dec, pix):
    inner, outer = _union_margins(shapes, ra, dec)
    must_in = inner >= EPS_DEG
    must_out = outer > BAND * pix + EPS_DEG
    free = ~must_in & ~must_out & (np.abs(inner) > EPS_DEG) & (np.abs(outer - BAND * pix) > EPS_DEG)
    return inner, outer, must_in, must_out, free


def _integer_section(o, reg, shapes, pix, md, iv, rng):
    """whole-degree positions in integer-typed spellings (degrees): equal to the float spelling, and judged geometrically"""
    ira, idec = _whole_degree_probes(rng, [sh['cen'] for sh in shapes], [sh['R'] for sh in shapes], pix)
    ref = _query_integers(o, reg, ira, idec, rng)
    if ref is None:
        return
    fra, fdec = ira.astype(float), idec.astype(float)
    inner, outer, must_in, must_out, free = _classify(shapes, fra, fdec, pix)
    model_in = healmember.member(iv, healmember.cell(fra, fdec, md))
    summ = _shape_summary(shapes)

    def extra(i):
        return {'shapes': summ, 'pixel_size_deg': pix, 'maxdepth': md, 'whole_degree_position': True,
                'inside_margin_deg': float(inner[i]), 'distance_beyond_circle_deg': float(outer[i])}
    _judge(o, 'integer', ref, model_in, must_in, must_out, free, fra, fdec,
           lambda idx: healmember.stable_cell(fra[idx], fdec[idx], md)[1], extra)
    o.n_nontrivial += n_distinct_rows(fra[must_in | must_out], fdec[must_in | must_out])
    # whole radians: every (ra, dec) in 0..6 x -1..1, integer-typed, degin=False
    A, D = np.meshgrid(np.arange(0, 7), np.arange(-1, 2))
    ira, idec = A.ravel().astype(np.int64), D.ravel().astype(np.int64)
    ref = _query_integers(o, reg, ira, idec, rng, degin=False)
    if ref is None:
        return
    dra, ddec = np.degrees(ira.astype(float)) % 360.0, np.degrees(idec.astype(float))
    inner, outer, must_in, must_out, free = _classify(shapes, dra, ddec, pix)
    model_in = healmember.member(iv, healmember.cell(dra, ddec, md))

    def extra_r(i):
        return {'shapes': summ, 'pixel_size_deg': pix, 'maxdepth': md, 'whole_radian_position': [int(ira[i]), int(idec[i])],
                'inside_margin_deg': float(inner[i]), 'distance_beyond_circle_deg': float(outer[i])}
    _judge(o, 'integer_radian', ref, model_in, must_in, must_out, free, dra, ddec,
           lambda idx: healmember.stable_cell(dra[idx], ddec[idx], md)[1], extra_r)


# ----------------------------------------------------------------------------- regions obtained by another route
def _judge_region(o, reg, shapes, pix, md, rng, tag, n, extra_info):
    """the usual clauses for a finished region that should hold `shapes`: stored pixels not far, probes through
    sky_within and through the stored pixels; `pix` is the pixel size the 3-pixel band is measured in"""
    iv = healmember.intervals(reg.pixeldict, md, ignore_deeper=True)
    ok, area = _call(o, reg.get_area, 'get_area() [%s]' % tag)
    if ok:
        want = healmember.n_deepest(iv) * SPHERE_SR / (12 * 4 ** md) * SQDEG
        o.n_eval += 1
        if abs(area - want) > 1e-9 * max(want, 1e-300):
            o.violate('area_vs_stored_pixels', dict(extra_info, area_sqdeg=area, stored_pixels_sqdeg=want))
    _examine_pixels(o, reg, [sh['cen'] for sh in shapes], [sh['R'] for sh in shapes], pix, tag)
    n_each = max(200, n // len(shapes))
    pra, pdec = [], []
    for sh in shapes:
        x, y = _probes_about(rng, sh['cen'][0], sh['cen'][1], sh['R'], pix, n_each)
        pra.append(np.concatenate([[sh['cen'][0]], x]))
        pdec.append(np.concatenate([[sh['cen'][1]], y]))
    pra, pdec = np.concatenate(pra), np.concatenate(pdec)
    res = _query_all(o, reg, pra, pdec, rng)
    if res is None:
        return None
    inner, outer, must_in, must_out, free = _classify(shapes, pra, pdec, pix)
    model_in = healmember.member(iv, healmember.cell(pra, pdec, md))
    summ = _shape_summary(shapes)

    def extra(i):
        return dict(extra_info, shapes=summ, band_pixel_size_deg=pix, maxdepth=md, inside_margin_deg=float(inner[i]),
                    distance_beyond_circle_deg=float(outer[i]))
    _judge(o, tag, res, model_in, must_in, must_out, free, pra, pdec,
           lambda idx: healmember.stable_cell(pra[idx], pdec[idx], md)[1], extra)
    o.n_nontrivial += n_distinct_rows(pra[must_in | must_out], pdec[must_in | must_out])
    return {'deepest_pixels': healmember.n_deepest(iv), 'probes': len(pra), 'must_in': int(must_in.sum()),
            'must_out': int(must_out.sum()), 'reported_inside': int(res.sum())}


def _shape_from_spec(o, reg, sp, k):
    """add one circle / polygon (spec in degrees) to reg; returns the shape or None"""
    if sp['op'] == 'circle':
        ok, _ = _call(o, reg.add_circles, 'add_circles (shape %d)' % k, math.radians(sp['ra']), math.radians(sp['dec']),
                      math.radians(sp['r']))
        return _circle_shape(sp['ra'], sp['dec'], sp['r']) if ok else None
    ang = list(sp['angles'])[::sp.get('orient', 1)]
    vra, vdec = sphere.destination(sp['ra'], sp['dec'], np.full(len(ang), sp['r']), np.array(ang))
    ok, _ = _call(o, reg.add_poly, 'add_poly (shape %d)' % k, [[math.radians(a), math.radians(d)] for a, d in zip(vra, vdec)])
    return _poly_shape(sp['ra'], sp['dec'], vra, vdec) if ok else None


def _run_via(o, case, rng):
    """shapes built in a region of depth D reach the judged region of depth d through Region.union or through
    `MIMAS -depth d +r file.mim -o out.mim`"""
    import os
    import shutil
    from aegmon.common import scratch_dir
    from AegeanTools.regions import Region
    D, d = case['D'], case['d']
    ok, r1 = _call(o, Region, 'Region(maxdepth=%d)' % D, maxdepth=D)
    if not ok:
        return o.result()
    shapes = []
    for k, sp in enumerate(case['shapes']):
        sh = _shape_from_spec(o, r1, sp, k)
        if sh is None:
            return o.result()
        shapes.append(sh)
    if case.get('query_first'):
        c = shapes[0]['cen']
        _call(o, r1.sky_within, 'sky_within on the source region before the union', c[0], c[1], degin=True)
        o.count('via_source_queried_first')
    o.see('via_depths', '%d->%d' % (D, d))
    o.see('via_route', case['route'])
    o.count('via_deeper_into_shallower' if D > d else ('via_shallower_into_deeper' if D < d else 'via_equal_depth'))
    if D - d >= 2:
        o.count('via_depth_gap_2_or_more')
    if case['route'] == 'api':
        ok, reg = _call(o, Region, 'Region(maxdepth=%d)' % d, maxdepth=d)
        if not ok:
            return o.result()
        ok, _ = _call(o, reg.union, 'Region(maxdepth=%d).union(region of depth %d)' % (d, D), r1)
        if not ok:
            return o.result()
    else:
        from AegeanTools.CLI import MIMAS as cli
        tmp = scratch_dir()
        try:
            f1, f2 = os.path.join(tmp, 'deep.mim'), os.path.join(tmp, 'out.mim')
            r1.save(f1)
            ok, _ = _call(o, cli.main, 'MIMAS -depth %d +r deep.mim -o out.mim' % d, ['-depth', str(d), '+r', f1, '-o', f2])
            o.count('cli_runs')
            if not ok:
                return o.result()
            if not os.path.exists(f2):
                o.violate('no_output_file', {'route': 'MIMAS -depth +r -o'})
                return o.result()
            reg = Region.load(f2)
        finally:
            shutil.rmtree(tmp, ignore_errors=True)
    if reg.maxdepth != d:
        o.violate('result_maxdepth', {'asked': d, 'got': reg.maxdepth})
        return o.result()
    # the source obeys the statement at its own resolution (3 pixel sizes of depth D); degrading to a coarser depth
    # replaces every pixel by its ancestor, whose diameter is < 3 pixel sizes of depth d
    pix = resol_deg(D) + resol_deg(d) if d < D else resol_deg(D)
    info = {'source_depth': D, 'final_depth': d, 'route': case['route'], 'query_first': bool(case.get('query_first'))}
    o.sample = _judge_region(o, reg, shapes, pix, d, rng, 'via', case['n'], info)
    return o.result()


# ----------------------------------------------------------------------------- DS9 region files
def _sexa(value_deg, hours, nd):
    """(string, exact value in degrees of that string): independent sexagesimal formatter, sign kept for -00:.."""
    unit = 3600 * 10 ** nd
    v = abs(value_deg) / (15.0 if hours else 1.0)
    total = int(round(v * unit))
    whole, frac = divmod(total, 10 ** nd)
    dd, rem = divmod(whole, 3600)
    mm, ss = divmod(rem, 60)
    neg = value_deg < 0 and total > 0
    txt = '%s%02d:%02d:%02d' % ('-' if neg else ('+' if (not hours and total % 2) else ''), dd, mm, ss)
    if nd:
        txt += '.%0*d' % (nd, frac)
    exact = (-1 if neg else 1) * total / float(unit) * (15.0 if hours else 1.0)
    return txt, exact


def _coord(ra, dec, fmt):
    """(ra text, dec text, ra value, dec value) as written to the file"""
    if fmt == 'sexagesimal':
        ta, va = _sexa(ra % 360.0, True, 5)
        td, vd = _sexa(dec, False, 4)
        return ta, td, va % 360.0, vd
    ta, td = '%.8f' % (ra % 360.0), '%.8f' % dec
    return ta, td, float(ta) % 360.0, float(td)


def _run_regfile(o, case, rng):
    """circles / polygons / boxes written to a DS9 region file (fk5; decimal degrees or sexagesimal; sizes in
    arcsec) and converted with MIMAS.reg2mim or `MIMAS --reg2mim`; the resulting region must hold those shapes"""
    import os
    import shutil
    from aegmon.common import scratch_dir
    from AegeanTools import MIMAS
    from AegeanTools.regions import Region
    md = case['maxdepth']
    pix = resol_deg(md)
    fmt = case['format']
    o.see('regfile_format', fmt)
    lines = ['# Region file format: DS9 version 4.1', 'fk5']
    shapes = []
    for sp in case['shapes']:
        if sp['op'] == 'circle':
            ta, td, va, vd = _coord(sp['ra'], sp['dec'], fmt)
            rtxt = '%.3f' % (sp['r'] * 3600)
            lines.append('circle(%s,%s,%s")' % (ta, td, rtxt))
            shapes.append(_circle_shape(va, vd, float(rtxt) / 3600))
        elif sp['op'] == 'poly':
            ang = list(sp['angles'])[::sp.get('orient', 1)]
            vra, vdec = sphere.destination(sp['ra'], sp['dec'], np.full(len(ang), sp['r']), np.array(ang))
            words, wra, wdec = [], [], []
            for a, dd in zip(vra, vdec):
                ta, td, va, vd = _coord(float(a), float(dd), fmt)
                words += [ta, td]
                wra.append(va)
                wdec.append(vd)
            lines.append('polygon(%s)' % ','.join(words))
            shapes.append(_poly_shape(sp['ra'], sp['dec'], np.array(wra), np.array(wdec)))
        else:
            # box: judged as the rectangle with those corners, with 2 % of its smaller side as margin on both clauses
            # (the conversion ignores cos(dec) in the RA extent; boxes are only placed within 1 deg of the equator)
            ta, td, va, vd = _coord(sp['ra'], sp['dec'], fmt)
            wt, ht = '%.3f' % (sp['w'] * 3600), '%.3f' % (sp['h'] * 3600)
            lines.append('box(%s,%s,%s",%s",0)' % (ta, td, wt, ht))
            w, h = float(wt) / 3600, float(ht) / 3600
            cra = np.array([va + w / 2, va - w / 2, va - w / 2, va + w / 2]) % 360.0
            cdec = np.array([vd + h / 2, vd + h / 2, vd - h / 2, vd - h / 2])
            sh = _poly_shape(va, vd, cra, cdec)
            sh['inner_margin'] = 0.02 * min(w, h)
            sh['R'] += sh['inner_margin']
            shapes.append(sh)
        o.see('regfile_shape', sp['op'])
        if -1 < shapes[-1]['cen'][1] < 0:
            o.count('regfile_shapes_dec_between_minus1_and_0')
    tmp = scratch_dir()
    try:
        regf, mimf = os.path.join(tmp, 'shapes.reg'), os.path.join(tmp, 'shapes.mim')
        with open(regf, 'w') as f:
            f.write('\n'.join(lines) + '\n')
        if case['route'] == 'cli':
            from AegeanTools.CLI import MIMAS as cli
            ok, _ = _call(o, cli.main, 'MIMAS --reg2mim shapes.reg shapes.mim -depth %d' % md,
                          ['--reg2mim', regf, mimf, '-depth', str(md)])
            o.count('cli_runs')
        else:
            ok, _ = _call(o, MIMAS.reg2mim, 'reg2mim(shapes.reg, shapes.mim, %d)' % md, regf, mimf, md)
        if not ok:
            o.sample = {'region_file': lines}
            return o.result()
        if not os.path.exists(mimf):
            o.violate('no_output_file', {'route': case['route'], 'region_file': lines})
            return o.result()
        reg = Region.load(mimf)
    finally:
        shutil.rmtree(tmp, ignore_errors=True)
    o.count('regfile_regions')
    if fmt == 'sexagesimal':
        o.count('regfile_sexagesimal')
    if reg.maxdepth != md:
        o.violate('result_maxdepth', {'asked': md, 'got': reg.maxdepth})
        return o.result()
    smp = _judge_region(o, reg, shapes, pix, md, rng, 'regfile', case['n'], {'region_file': lines, 'route': case['route']})
    o.sample = dict(smp or {}, region_file=lines)
    return o.result()


# ----------------------------------------------------------------------------- multi-step builds
NMC = 300000


def _mc_union_areas(shapes, pix, rng):
    """(lower, sigma_lower, upper, sigma_upper) in steradian: area of the union of the exact shapes, and of the union of
    the (circumscribed) caps grown by 3 pixel sizes, from NMC points uniform in a bounding cap"""
    cv = np.array([sphere.vec(*sh['cen']) for sh in shapes])
    m = cv.mean(axis=0)
    m /= np.linalg.norm(m)
    ra_c, dec_c = sphere.radec(m)
    ra_c, dec_c = float(ra_c), float(dec_c)
    rb = max(float(sphere.sep(ra_c, dec_c, sh['cen'][0], sh['cen'][1])) + sh['R'] for sh in shapes) + BAND * pix + 0.01
    if rb >= 179:
        return None
    cosb = math.cos(math.radians(rb))
    s = np.degrees(np.arccos(1 - rng.uniform(0, 1, NMC) * (1 - cosb)))
    ra, dec = sphere.destination(ra_c, dec_c, s, rng.uniform(0, 360, NMC))
    inner, outer = _union_margins(shapes, ra, dec)
    acap = 2 * math.pi * (1 - cosb)
    out = []
    for p in (float((inner >= 0).mean()), float((outer <= BAND * pix).mean())):
        out += [p * acap, acap * math.sqrt(max(p * (1 - p), 1.0 / NMC) / NMC)]
    return tuple(out)


def _gen_build(rng, md):
    """2..4 shapes: each later one placed relative to an earlier one (nested inside, swallowing it, partial overlap,
    disjoint).  Angles in degrees; converted to the API's radians in the runner."""
    pix = resol_deg(md)
    r0 = pix * rng.uniform(8, 40)
    ra0 = float(rng.choice([rng.uniform(0, 360), 0.0, 359.9]))
    dec0 = float(rng.choice([math.degrees(math.asin(rng.uniform(-0.95, 0.95))), 0.0, 89.0 - 2 * r0, -88.0 + 2 * r0]))
    steps = [{'ra': ra0, 'dec': dec0, 'r': r0, 'rel': 'first'}]
    for _ in range(int(rng.integers(1, 4))):
        b = steps[int(rng.integers(0, len(steps)))]
        rel = str(rng.choice(['nested_small', 'nested_big', 'partial', 'partial', 'disjoint']))
        if rel == 'nested_small':
            r = b['r'] * rng.uniform(0.2, 0.75)
            off = rng.uniform(0, 1) * (b['r'] - r)
        elif rel == 'nested_big':
            r = min(b['r'] * rng.uniform(1.3, 2.5), 60 * pix)
            off = rng.uniform(0, 1) * max(r - b['r'], 0)
        elif rel == 'partial':
            r = b['r'] * rng.uniform(0.5, 1.5)
            off = rng.uniform(abs(b['r'] - r) + pix, b['r'] + r - pix)
        else:
            r = b['r'] * rng.uniform(0.4, 1.2)
            off = b['r'] + r + pix * rng.uniform(0.5, 8)
        a, d = sphere.destination(b['ra'], b['dec'], off, rng.uniform(0, 360))
        steps.append({'ra': float(a) % 360.0, 'dec': float(np.clip(d, -89.5, 89.5)), 'r': float(r), 'rel': rel})
    for st in steps:
        if rng.random() < 0.35:
            st['op'] = 'poly'
            st['angles'] = _angles(rng, int(rng.integers(3, 9)), mingap=8.0)
            st['orient'] = int(rng.choice([1, -1]))
        else:
            st['op'] = 'circle'
    return steps


TOUCHING = ('vector', 'list', 'scalar', 'get_demoted')       # queries that make the region build / use its cache
QUERIES = TOUCHING + ('area',)


def _step_query(o, reg, shapes, pix, md, rng, q, k, case):
    """a query in the middle of a build; afterwards every shape added so far must still be covered, by sky_within
    (when the query was one) and by the stored pixels"""
    pra, pdec = [], []
    for sh in shapes:
        x, y = _probes_about(rng, sh['cen'][0], sh['cen'][1], sh['R'], pix, 150)
        pra.append(np.concatenate([[sh['cen'][0]], x]))
        pdec.append(np.concatenate([[sh['cen'][1]], y]))
    pra, pdec = np.concatenate(pra), np.concatenate(pdec)
    o.see('build_interleaved_query', q)
    res = None
    if q == 'vector':
        ok, res = _call(o, reg.sky_within, 'sky_within(arrays, degin=True) after step %d of a build' % k, pra, pdec, degin=True)
    elif q == 'list':
        ok, res = _call(o, reg.sky_within, 'sky_within(lists) after step %d of a build' % k,
                        [float(x) for x in np.radians(pra)], [float(x) for x in np.radians(pdec)])
    elif q == 'scalar':
        sel = np.unique(np.concatenate([np.arange(0, len(pra), 151), rng.integers(0, len(pra), 40)]))
        pra, pdec = pra[sel], pdec[sel]
        out = []
        ok = True
        for a, d in zip(pra, pdec):
            ok1, r1 = _call(o, reg.sky_within, 'sky_within(float, float, degin=True) after step %d of a build' % k,
                            float(a), float(d), degin=True)
            ok = ok and ok1
            out.append(bool(np.asarray(r1).ravel()[0]) if ok1 else False)
        res = np.array(out)
    elif q == 'get_demoted':
        ok, dem = _call(o, reg.get_demoted, 'get_demoted() after step %d of a build' % k)
    else:
        ok, _a = _call(o, reg.get_area, 'get_area() (extra) after step %d of a build' % k)
    if not ok:
        return
    o.count('build_interleaved_queries')
    iv = healmember.intervals(reg.pixeldict, md, ignore_deeper=True)     # read after the query
    inner, outer, must_in, must_out, free = _classify(shapes, pra, pdec, pix)
    model_in = healmember.member(iv, healmember.cell(pra, pdec, md))
    summ = _shape_summary(shapes)

    def extra(i):
        return {'shapes_so_far': summ, 'after_step': k, 'query': q, 'queries': case.get('queries'),
                'pixel_size_deg': pix, 'maxdepth': md, 'inside_margin_deg': float(inner[i]),
                'distance_beyond_circle_deg': float(outer[i])}
    if res is not None:
        res = np.asarray(res)
        o.n_eval += len(pra)
        _judge(o, 'build', res, model_in, must_in, must_out, free, pra, pdec,
               lambda idx: healmember.stable_cell(pra[idx], pdec[idx], md)[1], extra)
    else:
        o.n_eval += len(pra)
        o.count('build_probe_inside_judged', int(must_in.sum()))
        o.count('build_probe_far_judged', int(must_out.sum()))
        for i in np.flatnonzero(must_in & ~model_in)[:3]:
            o.violate('build_interior_not_in_stored_pixels', dict(extra(i), probe_deg=[pra[i], pdec[i]]))
        for i in np.flatnonzero(must_out & model_in)[:3]:
            o.violate('build_far_in_stored_pixels', dict(extra(i), probe_deg=[pra[i], pdec[i]]))


def _run_build(o, reg, case, rng, md, pix):
    shapes = []
    prev_area = None
    for k, st in enumerate(case['steps']):
        if st['op'] == 'circle' and st.get('extra'):
            # one vector call adding several circles
            allc = [(st['ra'], st['dec'], st['r'])] + [tuple(e) for e in st['extra']]
            ok, _ = _call(o, reg.add_circles, 'add_circles (vector of %d, step %d of a build)' % (len(allc), k),
                          [math.radians(c[0]) for c in allc], [math.radians(c[1]) for c in allc],
                          [math.radians(c[2]) for c in allc])
            shapes.extend(_circle_shape(*c) for c in allc)
            o.count('build_vector_add_circles')
        elif st['op'] == 'circle':
            ok, _ = _call(o, reg.add_circles, 'add_circles (step %d of a build)' % k, math.radians(st['ra']),
                          math.radians(st['dec']), math.radians(st['r']))
            shapes.append(_circle_shape(st['ra'], st['dec'], st['r']))
        else:
            ang = list(st['angles'])[::st['orient']]
            vra, vdec = sphere.destination(st['ra'], st['dec'], np.full(len(ang), st['r']), np.array(ang))
            ok, _ = _call(o, reg.add_poly, 'add_poly (step %d of a build)' % k,
                          [[math.radians(a), math.radians(d)] for a, d in zip(vra, vdec)])
            shapes.append(_poly_shape(st['ra'], st['dec'], vra, vdec))
        if not ok:
            return o.result()
        o.see('build_step', '%s/%s' % (st['op'], st['rel']))
        # after every step, still before any query: the area is that of the stored pixels, and never shrinks
        ok, a = _call(o, reg.get_area, 'get_area() after step %d, before any query' % k)
        if not ok:
            return o.result()
        iv = healmember.intervals(reg.pixeldict, md, ignore_deeper=True)
        want = healmember.n_deepest(iv) * SPHERE_SR / (12 * 4 ** md) * SQDEG
        o.n_eval += 1
        o.worst('build_area_vs_stored_pixels_rel', abs(a - want) / want)
        if abs(a - want) > 1e-9 * want:
            o.violate('area_vs_stored_pixels', {'step': k, 'steps': case['steps'], 'get_area_sqdeg': a,
                                                'stored_pixels_sqdeg': want, 'maxdepth': md, 'before_any_query': True})
        prev_area = a
        q = (case.get('queries') or ['none'] * len(case['steps']))[k]
        if q != 'none':
            _step_query(o, reg, shapes, pix, md, rng, q, k, case)
    touched = any(q in TOUCHING for q in (case.get('queries') or []))
    if touched:
        o.count('builds_with_interleaved_queries')
    summ = _shape_summary(shapes)
    overlap = any(float(sphere.sep(a['cen'][0], a['cen'][1], b['cen'][0], b['cen'][1])) < a['R'] + b['R']
                  for i, a in enumerate(shapes) for b in shapes[i + 1:])
    if overlap:
        o.count('builds_with_overlap')
    o.worst('radius_over_pixel', max(sh['R'] for sh in shapes) / pix)
    # ---- area before any query, against the union of the shapes
    area_before = {}
    for degrees in (True, False):
        ok, a = _call(o, reg.get_area, 'get_area(degrees=%s) before any query' % degrees, degrees=degrees)
        if ok:
            area_before[degrees] = a
    if not touched:
        o.count('builds_area_before_query')
    mc = _mc_union_areas(shapes, pix, rng_for(*case['seed'], 'mc'))
    if mc is not None and True in area_before:
        lo, slo, hi, shi = mc
        a_sr = area_before[True] / SQDEG
        o.n_eval += 1
        o.count('area_checked')
        o.worst('build_area_position_in_band_max', (a_sr - lo) / (hi - lo))
        o.worst('build_area_position_in_band_neg_min', -(a_sr - lo) / (hi - lo))
        o.worst('build_mc_6sigma_over_band', 6 * max(slo, shi) / (hi - lo))
        if not (lo - 6 * slo <= a_sr <= hi + 6 * shi):
            o.violate('area_outside_union_of_caps', {
                'shapes': summ, 'steps': case['steps'], 'maxdepth': md, 'pixel_size_deg': pix,
                'get_area_sqdeg_before_any_query': area_before[True],
                'union_of_shapes_sqdeg': [lo * SQDEG, '+-%g (1 sigma, Monte-Carlo)' % (slo * SQDEG)],
                'union_of_grown_caps_sqdeg': [hi * SQDEG, '+-%g (1 sigma, Monte-Carlo)' % (shi * SQDEG)]})
    iv = healmember.intervals(reg.pixeldict, md, ignore_deeper=True)
    _examine_pixels(o, reg, [sh['cen'] for sh in shapes], [sh['R'] for sh in shapes], pix, 'build')
    # ---- probes (the first query of this region's life)
    n_each = case['n'] // len(shapes)
    pra, pdec = [], []
    for sh in shapes:
        x, y = _probes_about(rng, sh['cen'][0], sh['cen'][1], sh['R'], pix, n_each)
        pra.append(x)
        pdec.append(y)
    pra, pdec = np.concatenate(pra), np.concatenate(pdec)
    res = _query_all(o, reg, pra, pdec, rng)
    if res is None:
        return o.result()
    # ---- the area must not depend on whether a query has happened
    for degrees, before in area_before.items():
        ok, after = _call(o, reg.get_area, 'get_area(degrees=%s) after a query' % degrees, degrees=degrees)
        if ok:
            o.n_eval += 1
            o.count('builds_area_after_query_compared')
            o.worst('build_area_change_by_query_rel', abs(after - before) / max(before, 1e-300))
            if abs(after - before) > 1e-9 * max(before, 1e-300):
                o.violate('area_changed_by_query', {'shapes': summ, 'steps': case['steps'], 'maxdepth': md,
                                                    'degrees': degrees, 'get_area_before_any_query': before,
                                                    'get_area_after_sky_within': after})
    inner, outer, must_in, must_out, free = _classify(shapes, pra, pdec, pix)
    model_in = healmember.member(iv, healmember.cell(pra, pdec, md))

    def extra(i):
        return {'shapes': summ, 'pixel_size_deg': pix, 'maxdepth': md, 'inside_margin_deg': float(inner[i]),
                'distance_beyond_circle_deg': float(outer[i])}
    _judge(o, 'build', res, model_in, must_in, must_out, free, pra, pdec,
           lambda idx: healmember.stable_cell(pra[idx], pdec[idx], md)[1], extra)
    o.n_nontrivial += n_distinct_rows(pra[must_in | must_out], pdec[must_in | must_out])
    _integer_section(o, reg, shapes, pix, md, iv, rng)
    o.sample = {'steps': case['steps'], 'maxdepth': md, 'pixel_size_deg': pix, 'area_before_query_sqdeg': area_before.get(True),
                'union_bounds_sqdeg': None if mc is None else [mc[0] * SQDEG, mc[2] * SQDEG],
                'deepest_pixels': healmember.n_deepest(iv), 'overlap': bool(overlap)}
    return o.result()


# ----------------------------------------------------------------------------- run
def run(case):
    from AegeanTools.regions import Region
    sphere.selfcheck()
    healmember.selfcheck()
    o = Obs()
    rng = rng_for(*case['seed'])
    md = case['maxdepth']
    dp = case.get('depth')
    eff = md if dp is None else min(dp, md)
    pix = resol_deg(eff)
    o.see('maxdepth', md)
    o.see('depth_argument', 'None' if dp is None else ('coarser' if dp < md else ('equal' if dp == md else 'deeper')))
    if case['kind'] == 'via':
        return _run_via(o, case, rng)
    if case['kind'] == 'regfile':
        return _run_regfile(o, case, rng)
    ok, reg = _call(o, Region, 'Region(maxdepth=%d)' % md, maxdepth=md)
    if not ok:
        return o.result()
    kind = case['kind']
    if kind in ('circle', 'circles'):
        return _run_circles(o, reg, case, rng, md, dp, pix)
    if kind == 'build':
        return _run_build(o, reg, case, rng, md, pix)
    return _run_poly(o, reg, case, rng, md, dp, pix)


def _run_circles(o, reg, case, rng, md, dp, pix):
    multi = case['kind'] == 'circles'
    ras = case['ra'] if multi else [case['ra']]
    decs = case['dec'] if multi else [case['dec']]
    rs = case['r'] if multi else [case['r']]
    style = case['style']
    o.see('add_circles_style', style)
    if case.get('concentric'):
        o.count('vector_calls_with_concentric_circles')
    if style.startswith('int'):
        # whole radians handed over integer-typed (the radius too when it is a whole number)
        rr = [int(r) if float(r).is_integer() else float(r) for r in rs]
        if style == 'int_scalar':
            args = (int(ras[0]), int(decs[0]), rr[0])
        elif style == 'int_list':
            args = ([int(x) for x in ras], [int(x) for x in decs], rr)
        else:
            args = (np.array(ras, dtype=np.int64), np.array(decs, dtype=np.int64), np.array(rr))
        o.count('integer_constructor_calls')
    elif style == 'scalar':
        args = (float(ras[0]), float(decs[0]), float(rs[0]))
    elif style == 'list':
        args = (list(ras), list(decs), list(rs))
    else:
        args = (np.array(ras), np.array(decs), np.array(rs))
    kw = {} if dp is None else {'depth': dp}
    ok, _ = _call(o, reg.add_circles, 'add_circles(%s, depth=%r)' % (style, dp), *args, **kw)
    if not ok:
        return o.result()
    cen = [(math.degrees(a) % 360.0, math.degrees(d)) for a, d in zip(ras, decs)]
    rdeg = [math.degrees(r) for r in rs]
    if any(abs(d) > 89.99 for _, d in cen):
        o.count('shapes_at_pole')
    if any(min(a, 360 - a) < r / max(math.cos(math.radians(d)), 1e-9) for (a, d), r in zip(cen, rdeg)):
        o.count('shapes_across_ra0')
    o.worst('radius_over_pixel', max(rdeg) / pix)
    iv = healmember.intervals(reg.pixeldict, md, ignore_deeper=True)          # observe without touching
    # area (single circles: between the two caps)
    for degrees in (True, False):
        ok, area = _call(o, reg.get_area, 'get_area(degrees=%s)' % degrees, degrees=degrees)
        if ok and not multi:
            a_sr = area / SQDEG if degrees else area
            lo, hi = _cap_sr(rdeg[0]), _cap_sr(rdeg[0] + BAND * pix)
            o.count('area_checked')
            o.n_eval += 1
            if hi > lo:
                o.worst('area_position_in_band_max', (a_sr - lo) / (hi - lo))
                o.worst('area_position_in_band_neg_min', -(a_sr - lo) / (hi - lo))
            if not (lo * (1 - 1e-12) <= a_sr <= hi * (1 + 1e-12)):
                o.violate('area_outside_caps', {'area_sr': a_sr, 'cap_r_sr': lo, 'cap_r_plus_3pix_sr': hi,
                                                'degrees': degrees, 'r_deg': rdeg[0], 'pix_deg': pix,
                                                'add_circles_style': style},
                          _mech_integer({'add_circles_style': style, 'units': 'radians'}))
            # and the area must be that of the stored pixels
            want = healmember.n_deepest(iv) * SPHERE_SR / (12 * 4 ** md)
            if abs(a_sr - want) > 1e-9 * max(want, 1e-300):
                o.violate('area_vs_stored_pixels', {'area_sr': a_sr, 'stored_pixels_sr': want})
    _examine_pixels(o, reg, cen, rdeg, pix, 'circle', mech=_mech_integer({'add_circles_style': style, 'units': 'radians'}))
    # probes
    n_each = case['n'] // len(cen)
    pra, pdec = [], []
    for (a, d), r in zip(cen, rdeg):
        x, y = _probes_about(rng, a, d, r, pix, n_each)
        pra.append(x)
        pdec.append(y)
    pra, pdec = np.concatenate(pra), np.concatenate(pdec)
    res = _query_all(o, reg, pra, pdec, rng)
    if res is None:
        return o.result()
    excess = np.full(pra.shape, np.inf)
    for (a, d), r in zip(cen, rdeg):
        excess = np.minimum(excess, sphere.sep(a, d, pra, pdec) - r)
    must_in = excess <= -EPS_DEG
    must_out = excess > BAND * pix + EPS_DEG
    free = (excess > EPS_DEG) & (excess <= BAND * pix - EPS_DEG)
    model_in = healmember.member(iv, healmember.cell(pra, pdec, md))
    inside_band = res & (excess > 0)
    if inside_band.any():
        o.worst('circle_probe_excess_pixsizes', float(excess[inside_band].max() / pix))

    def extra(i):
        return {'centres_deg': cen, 'radii_deg': rdeg, 'pixel_size_deg': pix, 'maxdepth': md, 'depth': dp,
                'distance_minus_radius_deg': float(excess[i]), 'add_circles_style': style,
                'add_circles_args_radians': [ras, decs, rs]}
    _judge(o, 'circle', res, model_in, must_in, must_out, free, pra, pdec,
           lambda idx: healmember.stable_cell(pra[idx], pdec[idx], md)[1], extra,
           _mech_integer({'add_circles_style': style, 'units': 'radians'}))
    o.n_nontrivial += n_distinct_rows(pra[must_in | must_out], pdec[must_in | must_out])
    _integer_section(o, reg, [_circle_shape(a, d, r) for (a, d), r in zip(cen, rdeg)], pix, md, iv, rng)
    o.sample = {'centres_deg': cen, 'radii_deg': rdeg, 'maxdepth': md, 'depth': dp, 'pixel_size_deg': pix,
                'deepest_pixels': healmember.n_deepest(iv), 'probes': len(pra), 'must_in': int(must_in.sum()),
                'must_out': int(must_out.sum()), 'reported_inside': int(res.sum())}
    return o.result()


def _run_poly(o, reg, case, rng, md, dp, pix):
    pstyle = 'float'
    if 'vertices_int_rad' in case:
        # a triangle given by whole-radian vertices, handed over as python ints / an int array; its circumscribed
        # circle is the small circle through the three vertices
        vint = [[int(a), int(d)] for a, d in case['vertices_int_rad']]
        vra, vdec = np.degrees([v[0] for v in vint]) % 360.0, np.degrees([v[1] for v in vint])
        positions = vint if case.get('vertex_container') != 'array' else np.array(vint, dtype=np.int64)
        pstyle = 'int ' + str(case.get('vertex_container', 'list'))
        o.count('integer_constructor_calls')
        v = sphere.vec(vra, vdec)
        axis = np.cross(v[1] - v[0], v[2] - v[0])
        axis /= np.linalg.norm(axis)
        if axis @ v[0] < 0:
            axis = -axis
        ra0, dec0 = (float(x) for x in sphere.radec(axis))
        R = float(sphere.sep(ra0, dec0, vra, vdec).max())
        ang = [0.0] * len(vint)
    else:
        ra0, dec0, R = math.degrees(case['ra']) % 360.0, math.degrees(case['dec']), math.degrees(case['R'])
        ang = list(case['angles'])
        if case['orient'] < 0:
            ang = ang[::-1]
        vra, vdec = sphere.destination(ra0, dec0, np.full(len(ang), R), np.array(ang))
        positions = [[math.radians(a), math.radians(d)] for a, d in zip(vra, vdec)]
    o.see('add_poly_style', pstyle)
    if dp is not None:
        o.count('add_poly_with_depth_argument')
        o.see('add_poly_depth_argument', 'coarser' if dp < md else ('equal' if dp == md else 'deeper'))
    pmech = _mech_integer({'add_poly_style': pstyle, 'units': 'radians'})
    o.see('polygon_vertices', len(ang))
    o.see('polygon_orientation', case.get('orient', 0))
    kw = {} if dp is None else {'depth': dp}
    ok, _ = _call(o, reg.add_poly, 'add_poly(%d vertices, depth=%r)' % (len(ang), dp), positions, **kw)
    if not ok:
        return o.result()
    # the circumscribed circle as actually realised by the vertex coordinates handed over
    vv = sphere.vec(vra, vdec)
    Rv = sphere.sep(ra0, dec0, vra, vdec)
    Rmax = float(Rv.max())
    if abs(dec0) + R > 90:
        o.count('shapes_at_pole')
    if min(ra0, 360 - ra0) < R / max(math.cos(math.radians(dec0)), 1e-9):
        o.count('shapes_across_ra0')
    o.worst('radius_over_pixel', R / pix)
    iv = healmember.intervals(reg.pixeldict, md, ignore_deeper=True)
    ok, area = _call(o, reg.get_area, 'get_area()')
    if ok:
        want = healmember.n_deepest(iv) * SPHERE_SR / (12 * 4 ** md) * SQDEG
        o.n_eval += 1
        if abs(area - want) > 1e-9 * max(want, 1e-300):
            o.violate('area_vs_stored_pixels', {'area_sqdeg': area, 'stored_pixels_sqdeg': want})
    _examine_pixels(o, reg, [(ra0, dec0)], [Rmax], pix, 'poly', mech=pmech)
    # probes: around the circumcircle, plus points built inside the polygon (convex combinations of vertices)
    pra, pdec = _probes_about(rng, ra0, dec0, R, pix, case['n'] - 600)
    w = rng.dirichlet(np.full(len(ang), 0.6), 400)
    inner = w @ vv
    nearv = vv[rng.integers(0, len(ang), 200)] * (1 - 10 ** rng.uniform(-9, -1, 200))[:, None] \
        + (w[:200] @ vv) * (10 ** rng.uniform(-9, -1, 200))[:, None]
    ira, idec = sphere.radec(np.concatenate([inner, nearv]))
    pra, pdec = np.concatenate([pra, ira]), np.concatenate([pdec, idec])
    res = _query_all(o, reg, pra, pdec, rng)
    if res is None:
        return o.result()
    # interior test: same side of every edge plane as the polygon's own vertex mean
    pv = sphere.vec(pra, pdec)
    nrm = np.cross(vv, np.roll(vv, -1, axis=0))
    nrm /= np.linalg.norm(nrm, axis=1, keepdims=True)
    cen = vv.mean(axis=0)
    sgn = np.sign(nrm @ cen)
    if not np.all(sgn == sgn[0]) or sgn[0] == 0:
        raise RuntimeError('harness: generated polygon is not convex')
    h = np.arcsin(np.clip((pv @ nrm.T) * sgn[0], -1, 1))       # signed distance (rad) from each edge plane
    hmin = h.min(axis=1)
    must_in = hmin > EPS_RAD
    excess = sphere.sep(ra0, dec0, pra, pdec) - Rmax
    must_out = excess > BAND * pix + EPS_DEG
    free = ~must_in & ~must_out & (np.abs(hmin) > EPS_RAD) & (np.abs(excess - BAND * pix) > EPS_DEG)
    model_in = healmember.member(iv, healmember.cell(pra, pdec, md))
    inside_out = res & (excess > 0)
    if inside_out.any():
        o.worst('poly_probe_excess_over_circumcircle_pixsizes', float(excess[inside_out].max() / pix))

    def extra(i):
        return {'vertices_deg': [[float(a), float(d)] for a, d in zip(vra, vdec)], 'circumcentre_deg': [ra0, dec0],
                'circumradius_deg': Rmax, 'pixel_size_deg': pix, 'maxdepth': md,
                'min_signed_distance_from_edges_rad': float(hmin[i]), 'add_poly_style': pstyle,
                'distance_minus_circumradius_deg': float(excess[i])}
    _judge(o, 'poly', res, model_in, must_in, must_out, free, pra, pdec,
           lambda idx: healmember.stable_cell(pra[idx], pdec[idx], md)[1], extra, pmech)
    o.n_nontrivial += n_distinct_rows(pra[must_in | must_out], pdec[must_in | must_out])
    _integer_section(o, reg, [_poly_shape(ra0, dec0, vra, vdec)], pix, md, iv, rng)
    o.sample = {'vertices_deg': [[float(a), float(d)] for a, d in zip(vra, vdec)], 'maxdepth': md,
                'pixel_size_deg': pix, 'deepest_pixels': healmember.n_deepest(iv), 'probes': len(pra),
                'must_in': int(must_in.sum()), 'must_out': int(must_out.sum()), 'reported_inside': int(res.sum())}
    return o.result()
