"""C02 - islands are exactly the seeded, flood-thresholded 8-connected pixel groups.

The real `AegeanTools.source_finder.find_islands` is called on generated images; its return value (bounding_box +
mask of every PixelIsland) is compared with the explicit BFS of aegmon/refs/floodfill.py.  The last clause of the
statement (no component is fitted from a pixel group that is not such an island) is observed by wrapping
`SourceFinder._fit_island` during real `find_sources_in_image` runs.
"""
import os
import shutil
import traceback

import numpy as np

from aegmon.common import Obs, rng_for, scratch_dir
from aegmon.refs import floodfill

ID = 'C02'
LEVEL = 'exploration'
RULE = ('cases: (i) bounded-exhaustive - all 3^9 3x3 images over three level triples (generic; below/exactly-flood/'
        'above-seed; below/exactly-seed/just-above-seed) and all 2^12 3x4 images over {snr 0, snr 6} plain, made of '
        'zero-valued pixels under bkg=-6, and with a seeded NaN mask; (ii) a fixed library of hostile patterns (rings, '
        'L and U shapes with a foreign island inside the bounding box, diagonal-only contacts, checkerboards, frames '
        'touching every edge, 1xN, Nx1, 1x1, all-NaN, threshold ties, flood == seed, mixed signs, zero-valued island '
        'pixels under a non-zero background) x 4 orientations x 2 paddings x 4 bkg/rms/sign variants; (iii) seeded '
        'random images quantised on a 0.5 grid (ties with the thresholds), NaN blocks, zero-valued pixels under '
        'bkg != 0, varying bkg and rms > 0, 0 < flood <= seed, each evaluated at seed and at seed\' > seed '
        '(monotonicity); (iv) find_sources_in_image on small rendered fields with _fit_island wrapped; (v) memory '
        'layouts: random and pattern images handed over as C, Fortran, .T view, windows of larger C/F arrays, stepped '
        'and negative strides, planes of cubes (row axis fastest; plane index fastest), non-native byte order, '
        'read-only, all three maps alike and mixed between im/bkg/rms - judged against the oracle and against the '
        'C-contiguous native copy.  '
        'An evaluation = one find_islands call (or one _fit_island call) judged against the oracle; non-trivial = '
        'the image has >= 1 finite pixel with snr >= flood; distinct = distinct (image bytes, bkg, rms, seed, flood) '
        'within a case, cases with equal hash counted once')
ASSUMPTIONS = ['oracle: explicit BFS over the 8 neighbours on isfinite(snr) & (snr >= flood), group kept iff one of its '
               'own pixels has snr > seed (aegmon/refs/floodfill.py), self-checked against hand-made cases and '
               'scipy.ndimage.label on inputs where every group is seeded',
               'snr = |im-bkg|/rms evaluated by numpy in the dtype of the inputs in both subject and oracle, so exact '
               'ties with a threshold are ties in both',
               'domain: rms > 0 and finite, bkg finite, image pixels finite or NaN (no infinities)']
MIN_REACH = {'source_finder:find_islands': 1, 'models:PixelIsland.calc_bounding_box': 1,
             'source_finder:SourceFinder._fit_island': 1}
MIN_COUNTERS = {'find_islands_judged': 1000, 'nontrivial_images': 500, 'oracle_islands': 1000,
                'unseeded_group_with_seed_pixel_in_its_box': 20, 'island_box_contains_foreign_group': 20,
                'island_pixels_with_value_zero': 20, 'pixels_snr_equal_flood': 20, 'pixels_snr_equal_seed': 20,
                'images_where_4_connectivity_differs': 20, 'monotonicity_pairs': 100, 'fit_island_calls_judged': 20,
                'components_traced_to_island': 20, 'finder_unseeded_group_with_seed_pixel_in_its_box': 3,
                'layout_base_images_2d': 200, 'layout_evals_2d_not_c_contiguous': 2000, 'layout_F': 100,
                'layout_T_view': 100, 'layout_window': 100, 'layout_window_F': 100, 'layout_step': 100,
                'layout_neg_strides': 100, 'layout_neg_rows': 100, 'layout_cube_row_fastest': 100,
                'layout_cube_plane_last_axis': 100, 'layout_byteswapped': 100, 'layout_byteswapped_F': 100,
                'layout_readonly': 100, 'layout_readonly_F': 100, 'layout_mixed': 300}

BATCHES_PER_JOB = 1     # importing AegeanTools + oracle self-checks cost ~8 s per worker process

_checked = False


def _selfcheck():
    global _checked
    if not _checked:
        floodfill.selfcheck()
        _checked = True


# ----------------------------------------------------------------------------- observation of one island
def island_pixels(isl):
    """(pixel frozenset or None, (r0, r1, c0, c1), mask shape)"""
    bb = np.asarray(isl.bounding_box)
    r0, r1, c0, c1 = int(bb[0][0]), int(bb[0][1]), int(bb[1][0]), int(bb[1][1])
    m = np.asarray(isl.mask)
    if m.ndim != 2 or m.shape != (r1 - r0, c1 - c0) or m.dtype != bool:
        return None, (r0, r1, c0, c1), tuple(m.shape)
    rr, cc = np.where(~m)
    return frozenset(zip((rr + r0).tolist(), (cc + c0).tolist())), (r0, r1, c0, c1), tuple(m.shape)


def _lst(a):
    a = np.asarray(a)
    if a.size > 700:
        return {'shape': list(a.shape), 'dtype': str(a.dtype), 'omitted': True}
    return {'dtype': str(a.dtype), 'values': a.astype(float).tolist()}


def _sets(ss):
    return sorted(sorted(list(p) for p in s) for s in ss)[:12]


def _mech(extra, missing, unseeded, snr, im, seed, exc=None):
    """mechanism key from a predicate over the witness"""
    with np.errstate(all='ignore'):
        for s in extra:
            if s in unseeded:
                (r0, r1), (c0, c1) = floodfill.tight_box(s)
                if np.any(snr[r0:r1, c0:c1] > seed):
                    return 'seed-test-over-bounding-box'
    return None


def judge(o, fi, im, bkg, rms, seed, flood, label):
    """call the real find_islands, compare with the oracle; returns the set of observed pixel sets (or None)"""
    snr = floodfill.snr_image(im, bkg, rms)
    want, unseeded = floodfill.islands_from_snr(snr, seed, flood)
    want_s = set(want)
    uns_s = set(unseeded)
    o.n_eval += 1
    o.count('find_islands_judged')
    if want or unseeded:
        o.count('nontrivial_images')
    o.count('oracle_islands', len(want))
    o.count('oracle_unseeded_groups', len(unseeded))
    _sensitivity(o, snr, im, want, unseeded, seed, flood)
    im_in = np.array(im, copy=True)
    wit = {'label': label, 'im': _lst(im), 'bkg': _lst(bkg), 'rms': _lst(rms), 'seed': seed, 'flood': flood,
           'expected_islands': _sets(want)}
    zero_in_island = bool(any(im[p] == 0 for s in list(want) + list(unseeded) for p in s))
    try:
        with np.errstate(invalid='ignore'):
            got = fi(im, bkg, rms, seed_clip=seed, flood_clip=flood)
    except Exception:
        wit['traceback'] = traceback.format_exc()[-800:]
        o.violate('raises', wit, 'bounding-box-from-pixel-truthiness' if zero_in_island else None)
        return None
    if not np.array_equal(im_in, np.asarray(im), equal_nan=True):
        o.violate('input_image_modified', wit)
    got_sets = []
    ok = True
    for k, isl in enumerate(got):
        pix, box, mshape = island_pixels(isl)
        if pix is None:
            w = dict(wit, island_index=k, bounding_box=list(box), mask_shape=list(mshape))
            o.violate('box_and_mask_inconsistent', w, 'bounding-box-from-pixel-truthiness' if zero_in_island else None)
            ok = False
            continue
        if not pix:
            o.violate('empty_island', dict(wit, island_index=k, bounding_box=list(box)))
            ok = False
            continue
        if any(not (0 <= p[0] < im.shape[0] and 0 <= p[1] < im.shape[1]) for p in pix):
            o.violate('island_outside_image', dict(wit, island_index=k, bounding_box=list(box)))
            ok = False
            continue
        tb = floodfill.tight_box(pix)
        if (box[0], box[1]) != tb[0] or (box[2], box[3]) != tb[1]:
            o.violate('box_not_tight', dict(wit, island_index=k, bounding_box=list(box), tight=[list(tb[0]), list(tb[1])]),
                      'bounding-box-from-pixel-truthiness' if zero_in_island else None)
        nanpix = [p for p in pix if not np.isfinite(im[p])]
        if nanpix:
            o.violate('blank_pixel_in_island', dict(wit, island_index=k, pixels=sorted(nanpix)[:5]))
        got_sets.append(pix)
    o.count('islands_returned', len(got))
    # pairwise disjoint
    seen = {}
    for k, s in enumerate(got_sets):
        for p in s:
            if p in seen:
                o.violate('islands_share_pixel', dict(wit, pixel=list(p), islands=[seen[p], k]))
                break
            seen[p] = k
    got_s = set(got_sets)
    if ok and (got_s != want_s or len(got_sets) != len(got_s)):
        extra = got_s - want_s
        missing = want_s - got_s
        w = dict(wit, observed_islands=_sets(got_sets), extra=_sets(extra), missing=_sets(missing))
        mech = _mech(extra, missing, uns_s, snr, im, seed)
        if mech is None and zero_in_island:
            mech = 'bounding-box-from-pixel-truthiness'
        o.violate('island_sets_differ', w, mech)
    return got_s if ok else None


def _sensitivity(o, snr, im, want, unseeded, seed, flood):
    """how often the situations that separate the statement from its plausible mis-implementations occurred"""
    with np.errstate(all='ignore'):
        above = snr > seed
        cand = np.isfinite(snr) & (snr >= flood)
        o.count('pixels_snr_equal_flood', int(np.sum(snr == flood)))
        o.count('pixels_snr_equal_seed', int(np.sum(snr == seed)))
        o.count('nan_pixels', int(np.sum(~np.isfinite(snr))))
    for g in unseeded:
        (r0, r1), (c0, c1) = floodfill.tight_box(g)
        if above[r0:r1, c0:c1].any():
            o.count('unseeded_group_with_seed_pixel_in_its_box')
    rows, cols = snr.shape
    for g in want:
        (r0, r1), (c0, c1) = floodfill.tight_box(g)
        if int(cand[r0:r1, c0:c1].sum()) > len(g):
            o.count('island_box_contains_foreign_group')
        if r0 == 0 or c0 == 0 or r1 == rows or c1 == cols:
            o.count('islands_touching_image_edge')
        nz = sum(1 for p in g if im[p] == 0)
        if nz:
            o.count('island_pixels_with_value_zero', nz)
    if want or unseeded:
        if len(floodfill.groups(cand, floodfill.NEIGH4)) != len(want) + len(unseeded):
            o.count('images_where_4_connectivity_differs')


# ----------------------------------------------------------------------------- workload
LEVELS = {
    # (flood, seed, three snr levels)
    'generic': (4.0, 5.0, (1.0, 4.5, 6.0)),
    'flood_tie': (4.0, 5.0, (float(np.nextafter(4.0, 0.0)), 4.0, float(np.nextafter(5.0, 9.0)))),
    'seed_tie': (4.0, 5.0, (0.0, 5.0, float(np.nextafter(5.0, 9.0)))),
}
N3 = 3 ** 9
CH3 = 27


def cases(seed, tier):
    out = []
    for lev in LEVELS:
        for k in range(CH3):
            out.append({'kind': 'exh3x3', 'levels': lev, 'chunk': k})
    for var in ('plain', 'zero_valued', 'nan_mask'):
        for k in range(8):
            out.append({'kind': 'exh3x4', 'variant': var, 'chunk': k, 'seed': [0, 'exh3x4', var, k]})
    for k in range(4):
        out.append({'kind': 'patterns', 'variant': k})
    nrand = 240 if tier == 'quick' else 4800
    per = 150 if tier == 'quick' else 250
    for k in range(nrand):
        out.append({'kind': 'random', 'n': per, 'seed': [seed, 'random', k]})
    nl = 32 if tier == 'quick' else 320
    for k in range(nl):
        out.append({'kind': 'layouts', 'n': 24 if tier == 'quick' else 40, 'seed': [seed, 'layouts', k]})
    nf = 60 if tier == 'quick' else 600
    for k in range(nf):
        out.append({'kind': 'finder', 'nested': k % 3 == 0, 'seed': [seed, 'finder', k]})
    return out


def _digits(n, base, k):
    d = []
    for _ in range(k):
        d.append(n % base)
        n //= base
    return d


Z, F, S, N = 0.0, 4.5, 7.0, float('nan')


def _ring(h, w, v):
    a = np.zeros((h, w))
    a[0, :] = a[-1, :] = a[:, 0] = a[:, -1] = v
    return a


def pattern_library():
    """name -> snr-level image for flood 4, seed 5 (F = flood only, S = seeded, N = blank)"""
    P = {}
    for rv, rn in ((F, 'unseeded'), (S, 'seeded')):
        for fv, fn in ((S, 'seeded'), (F, 'unseeded')):
            a = _ring(5, 5, rv)
            a[2, 2] = fv
            P['ring5x5_%s_foreign_%s' % (rn, fn)] = a
            a = _ring(5, 8, rv)
            a[2, 2] = fv
            a[2, 5] = S
            P['ring5x8_%s_two_foreign_%s' % (rn, fn)] = a
    a = _ring(5, 5, F)
    a[0, 0] = S
    a[2, 2] = F
    P['ring_seeded_at_corner_foreign_unseeded'] = a
    for lv, ln in ((F, 'unseeded'), (S, 'seeded')):
        a = np.zeros((5, 5))
        a[:, 0] = lv
        a[4, :] = lv
        a[1, 3] = S
        P['L_%s_foreign_seeded' % ln] = a
        a = np.zeros((5, 7))
        a[:, 0] = lv
        a[4, :] = lv
        a[:, 6] = lv
        a[1, 3] = S
        a[1, 2] = F
        P['U_%s_foreign_seeded_pair' % ln] = a
    a = np.zeros((6, 6))
    for k in range(6):
        a[k, k] = F if k % 2 else S
    P['diagonal_only_contacts'] = a
    a = np.zeros((5, 5))
    for k in range(5):
        a[k, k] = F
    P['diagonal_unseeded'] = a
    a = np.zeros((6, 7))
    a[::2, ::2] = F
    a[1::2, 1::2] = F
    a[3, 3] = S
    P['checkerboard_one_seed'] = a
    a = np.zeros((6, 7))
    a[::2, ::2] = F
    a[0, 0] = S
    P['isolated_grid_one_seed'] = a
    a = np.zeros((5, 5))
    a[:, 0] = S
    a[:, 2] = F
    a[:, 4] = S
    P['bars_gap_of_one'] = a
    a = np.zeros((5, 3))
    a[:, 0] = S
    a[:, 1] = N
    a[:, 2] = F
    P['bars_split_by_nan_column'] = a
    a = np.zeros((4, 4))
    a[0:2, 0:2] = F
    a[2:4, 2:4] = F
    a[3, 3] = S
    P['blocks_touching_at_a_corner'] = a
    a = np.zeros((4, 5))
    a[0:2, 0:2] = F
    a[2:4, 3:5] = F
    a[3, 4] = S
    P['blocks_not_touching'] = a
    P['full_image_island'] = np.full((4, 6), S)
    P['full_image_unseeded'] = np.full((4, 6), F)
    a = _ring(6, 7, F)
    a[3, 3] = S
    P['frame_touching_every_edge_unseeded_centre_seeded'] = a
    a = _ring(6, 7, F)
    a[0, 3] = S
    a[3, 3] = F
    P['frame_seeded_centre_unseeded'] = a
    P['row_1xN'] = np.array([[S, F, Z, F, S, F, F, Z, F, Z, S]])
    P['row_1xN_nan'] = np.array([[S, N, F, F, N, S, N]])
    P['1x1_seed'] = np.array([[S]])
    P['1x1_flood'] = np.array([[F]])
    P['1x1_zero'] = np.array([[Z]])
    P['1x1_nan'] = np.array([[N]])
    P['all_nan'] = np.full((3, 4), N)
    P['all_zero'] = np.zeros((3, 4))
    P['tie_flood_and_seed'] = np.array([[4.0, 5.0, Z, 4.0, 5.5, Z, 5.0, Z, 4.0]])
    P['below_flood_neighbour_of_seed'] = np.array([[float(np.nextafter(4.0, 0)), S, float(np.nextafter(4.0, 0))]])
    a = np.zeros((5, 5))
    a[2, :] = F
    a[:, 2] = F
    a[2, 2] = N
    a[0, 2] = S
    P['cross_cut_by_nan_centre'] = a
    a = np.full((7, 7), 3.5)
    a[1:6, 1:6] = np.where(_ring(5, 5, S) > 0, S, 3.5)
    a[3, 3] = F
    P['ring_on_pedestal_below_flood'] = a
    a = np.zeros((3, 9))
    a[1, :] = F
    a[1, 8] = S
    a[0, 0] = S
    P['long_bar_seed_at_far_end'] = a
    a = np.zeros((8, 8))
    a[0:3, 0:3] = _ring(3, 3, F)
    a[1, 1] = Z
    a[5:8, 5:8] = S
    a[2, 2] = F
    a[3, 3] = F
    a[4, 4] = F
    P['blob_and_ring_joined_by_diagonal'] = a
    return P


def _embed(a, orient, pad):
    if orient == 1:
        a = a.T
    elif orient == 2:
        a = a[::-1, :]
    elif orient == 3:
        a = a.T[:, ::-1]
    a = np.array(a, dtype=float)
    if pad:
        b = np.zeros((a.shape[0] + 2 * pad, a.shape[1] + 2 * pad + 1))
        b[pad:pad + a.shape[0], pad:pad + a.shape[1]] = a
        a = b
    return a


def _realise(level, variant, rng=None):
    """level image -> (im, bkg, rms) with |im-bkg|/rms == level exactly (binary-exact arithmetic)"""
    shape = level.shape
    if variant == 0:
        bkg = np.zeros(shape)
        rms = np.ones(shape)
        sign = np.ones(shape)
    elif variant == 1:
        bkg = np.full(shape, 2.5)
        rms = np.full(shape, 0.5)
        sign = -np.ones(shape)
    elif variant == 2:
        # F-level pixels get the image value exactly 0
        rms = np.ones(shape)
        bkg = np.full(shape, -F)
        sign = np.ones(shape)
    else:
        # every island pixel has the image value exactly 0: bkg = -level*rms, mixed signs on a checkerboard
        ii, jj = np.indices(shape)
        sign = np.where((ii + jj) % 2 == 0, 1.0, -1.0)
        rms = np.where(ii % 2 == 0, 2.0, 0.5)
        lv = np.where(np.isfinite(level), level, 0.0)
        bkg = -sign * lv * rms
        bkg = np.where(lv >= 4.0, bkg, 1.0)
    lv = np.where(np.isfinite(level), level, 0.0)
    im = bkg + sign * lv * rms
    im = np.where(np.isfinite(level), im, np.nan)
    return im, bkg, rms


def _random_image(rng):
    sizes = [1, 2, 3, 4, 5, 6, 8, 10, 12, 16, 20, 24]
    rows = int(rng.choice(sizes))
    cols = int(rng.choice(sizes))
    shape = (rows, cols)
    style = rng.integers(0, 4)
    s = float(rng.choice([1.5, 2.5, 3.5, 5.0]))
    lv = np.round(rng.normal(0, s, shape) * 2) / 2
    if style >= 2 and rows * cols >= 16:
        # smooth bumps: extended islands, rings, nested structures
        ii, jj = np.indices(shape)
        f = np.zeros(shape)
        for _ in range(int(rng.integers(1, 5))):
            r0, c0 = rng.uniform(0, rows), rng.uniform(0, cols)
            w = rng.uniform(0.8, 4.0)
            rad = rng.uniform(0, 5) if style == 3 else 0.0
            d = np.hypot(ii - r0, jj - c0)
            f += rng.uniform(4, 9) * rng.choice([-1, 1]) * np.exp(-0.5 * ((d - rad) / w) ** 2)
        lv = np.round((f + rng.normal(0, 1.0, shape)) * 2) / 2
    # rms: powers of two keep snr exact on the 0.5 grid; arbitrary positive values give generic floats
    k = rng.integers(0, 4)
    if k == 0:
        rms = np.ones(shape)
    elif k == 1:
        rms = np.full(shape, float(rng.choice([0.25, 0.5, 2.0, 8.0])))
    elif k == 2:
        rms = rng.choice([0.5, 1.0, 2.0], shape)
    else:
        rms = rng.uniform(0.3, 3.0, shape)
    k = rng.integers(0, 3)
    if k == 0:
        bkg = np.zeros(shape)
    elif k == 1:
        bkg = np.full(shape, float(rng.choice([-3.0, 0.5, 10.0])))
    else:
        bkg = np.round(rng.normal(0, 3, shape) * 2) / 2
    im = bkg + lv * rms
    # zero-valued pixels under a non-zero background
    if rng.random() < 0.5:
        nz = int(rng.integers(1, max(2, rows * cols // 6)))
        rr = rng.integers(0, rows, nz)
        cc = rng.integers(0, cols, nz)
        q = rng.choice([3.5, 4.0, 4.5, 5.0, 5.5, 7.0], nz) * rng.choice([-1, 1], nz)
        bkg = bkg.copy()
        bkg[rr, cc] = q * rms[rr, cc]
        im[rr, cc] = 0.0
    # blanks
    k = rng.random()
    if k < 0.35:
        nb = int(rng.integers(1, 4))
        for _ in range(nb):
            r0, c0 = int(rng.integers(0, rows)), int(rng.integers(0, cols))
            im[r0:r0 + int(rng.integers(1, 5)), c0:c0 + int(rng.integers(1, 5))] = np.nan
    elif k < 0.5:
        im[rng.random(shape) < 0.15] = np.nan
    flood = float(rng.choice([3.0, 3.5, 4.0, 4.5, 5.0]))
    seed = flood + float(rng.choice([0.0, 0.5, 1.0, 2.0]))
    seed2 = seed + float(rng.choice([0.5, 1.0, 3.0]))
    if rng.random() < 0.2:
        im, bkg, rms = im.astype(np.float32), bkg.astype(np.float32), rms.astype(np.float32)
    return im, bkg, rms, seed, flood, seed2


def _key(im, bkg, rms, seed, flood):
    return hash((im.tobytes(), im.shape, bkg.tobytes(), rms.tobytes(), seed, flood))


def run(case):
    _selfcheck()
    from AegeanTools.source_finder import find_islands
    o = Obs()
    kind = case['kind']
    distinct = set()

    def ev(im, bkg, rms, seed, flood, label):
        k = _key(im, bkg, rms, seed, flood)
        snr = floodfill.snr_image(im, bkg, rms)
        with np.errstate(all='ignore'):
            if np.any(np.isfinite(snr) & (snr >= flood)):
                distinct.add(k)
        return judge(o, find_islands, im, bkg, rms, seed, flood, label)

    if kind == 'exh3x3':
        flood, seed, lv = LEVELS[case['levels']]
        lv = np.array(lv)
        per = N3 // CH3
        for n in range(case['chunk'] * per, (case['chunk'] + 1) * per):
            im = lv[np.array(_digits(n, 3, 9))].reshape(3, 3)
            ev(im, np.zeros((3, 3)), np.ones((3, 3)), seed, flood, 'exh3x3 %s #%d' % (case['levels'], n))
        o.sample = {'last_image': im.tolist(), 'flood': flood, 'seed': seed}
    elif kind == 'exh3x4':
        rng = rng_for(*case['seed'])
        per = 4096 // 8
        for n in range(case['chunk'] * per, (case['chunk'] + 1) * per):
            bits = np.array(_digits(n, 2, 12), dtype=float).reshape(3, 4)
            if case['variant'] == 'plain':
                im, bkg = bits * 6.0, np.zeros((3, 4))
            elif case['variant'] == 'zero_valued':
                bkg = np.full((3, 4), -6.0)
                im = np.where(bits > 0, 0.0, -6.0)
            else:
                im, bkg = bits * 6.0, np.zeros((3, 4))
                im[rng.random((3, 4)) < 0.25] = np.nan
            ev(im, bkg, np.ones((3, 4)), 5.0, 4.0, 'exh3x4 %s #%d' % (case['variant'], n))
        o.sample = {'last_image': im.tolist(), 'bkg': float(bkg[0, 0])}
    elif kind == 'patterns':
        lib = pattern_library()
        for name in sorted(lib):
            for orient in range(4):
                for pad in (0, 2):
                    level = _embed(lib[name], orient, pad)
                    im, bkg, rms = _realise(level, case['variant'])
                    g1 = ev(im, bkg, rms, 5.0, 4.0, 'pattern %s orient=%d pad=%d variant=%d' % (
                        name, orient, pad, case['variant']))
                    g2 = ev(im, bkg, rms, 4.0, 4.0, 'pattern %s orient=%d pad=%d variant=%d flood==seed' % (
                        name, orient, pad, case['variant']))
                    _mono(o, g2, g1, im, bkg, rms, 4.0, 5.0, 4.0)
        o.sample = {'patterns': len(lib), 'example': 'ring5x5_unseeded_foreign_seeded',
                    'level_image': lib['ring5x5_unseeded_foreign_seeded'].tolist()}
    elif kind == 'random':
        rng = rng_for(*case['seed'])
        for _ in range(case['n']):
            im, bkg, rms, seed, flood, seed2 = _random_image(rng)
            g1 = ev(im, bkg, rms, seed, flood, 'random')
            g2 = ev(im, bkg, rms, seed2, flood, 'random')
            _mono(o, g1, g2, im, bkg, rms, seed, seed2, flood)
            # the statement is about signal-to-noise only: the same maps in other units (all three scaled by an exact
            # power of two, down to 1e-18 and up to 1e+9 of the original) have exactly the same snr, ties included
            if _ % 3 == 0:
                k = float(2.0 ** int(rng.choice([-60, -40, -24, 30])))
                g3 = ev(im * k, bkg * k, rms * k, seed, flood, 'random, units scaled by 2^%d' % int(np.log2(k)))
                o.count('unit_scaled_images')
                if g1 is not None and g3 is not None and g1 != g3:
                    o.violate('islands_depend_on_units', {'im': _lst(im), 'bkg': _lst(bkg), 'rms': _lst(rms), 'seed': seed,
                                                           'flood': flood, 'scale': k, 'islands': _sets(g1), 'islands_scaled': _sets(g3)})
        o.sample = {'last_shape': list(im.shape), 'seed': seed, 'flood': flood, 'seed2': seed2,
                    'islands_at_seed': None if g1 is None else len(g1), 'islands_at_seed2': None if g2 is None else len(g2)}
    elif kind == 'layouts':
        _layout_case(o, case, ev)
    elif kind == 'finder':
        _finder_case(o, case, distinct)
    o.n_nontrivial = len(distinct)
    return o.result()


# ----------------------------------------------------------------------------- memory layouts of the input maps
def _lay_C(a, rng):
    return np.ascontiguousarray(a)


def _lay_F(a, rng):
    return np.asfortranarray(a)


def _lay_T_view(a, rng):
    """a .T view of a C-contiguous array that holds the transpose"""
    return np.ascontiguousarray(a.T).T


def _lay_window(a, rng):
    """a window of a larger C-ordered array (row-major, not contiguous)"""
    r, c = a.shape
    big = np.full((r + 3, c + 5), 99.0, dtype=a.dtype)
    big[1:1 + r, 2:2 + c] = a
    return big[1:1 + r, 2:2 + c]


def _lay_window_F(a, rng):
    """a window of a larger Fortran-ordered array"""
    r, c = a.shape
    big = np.asfortranarray(np.full((r + 4, c + 2), 99.0, dtype=a.dtype))
    big[3:3 + r, 1:1 + c] = a
    return big[3:3 + r, 1:1 + c]


def _lay_step(a, rng):
    """every second row and every third column of a larger array"""
    r, c = a.shape
    big = np.full((2 * r, 3 * c), 99.0, dtype=a.dtype)
    big[::2, ::3] = a
    return big[::2, ::3]


def _lay_neg(a, rng):
    """negative strides on both axes"""
    return np.ascontiguousarray(a[::-1, ::-1])[::-1, ::-1]


def _lay_neg_rows(a, rng):
    return np.ascontiguousarray(a[::-1, :])[::-1, :]


def _lay_cube_rowfast(a, rng):
    """a plane of a cube in which the row axis of the plane is the fastest axis in memory"""
    r, c = a.shape
    cube = np.full((3, c, r), 99.0, dtype=a.dtype)
    k = int(rng.integers(0, 3))
    cube[k] = a.T
    return cube.transpose(0, 2, 1)[k]


def _lay_cube_last(a, rng):
    """a plane image[:, :, k] of a cube with the plane index fastest (both axes strided)"""
    r, c = a.shape
    cube = np.full((r, c, 3), 99.0, dtype=a.dtype)
    k = int(rng.integers(0, 3))
    cube[:, :, k] = a
    return cube[:, :, k]


def _lay_swapped(a, rng):
    """non-native byte order, as astropy hands over FITS data ('>f4' / '>f8')"""
    return a.astype(a.dtype.newbyteorder('S'))


def _lay_swapped_F(a, rng):
    return np.asfortranarray(a.astype(a.dtype.newbyteorder('S')))


def _lay_readonly(a, rng):
    b = np.array(a, copy=True)
    b.setflags(write=False)
    return b


def _lay_readonly_F(a, rng):
    b = np.asfortranarray(np.array(a, copy=True))
    b.setflags(write=False)
    return b


LAYOUTS = {'C': _lay_C, 'F': _lay_F, 'T_view': _lay_T_view, 'window': _lay_window, 'window_F': _lay_window_F,
           'step': _lay_step, 'neg_strides': _lay_neg, 'neg_rows': _lay_neg_rows, 'cube_row_fastest': _lay_cube_rowfast,
           'cube_plane_last_axis': _lay_cube_last, 'byteswapped': _lay_swapped, 'byteswapped_F': _lay_swapped_F,
           'readonly': _lay_readonly, 'readonly_F': _lay_readonly_F}
LAYOUT_NAMES = sorted(LAYOUTS)


def _layout_case(o, case, ev):
    """the same pixel values handed over in different memory layouts (all three maps alike, and mixed): the islands
    must be those of the oracle, hence those of the C-contiguous native copy"""
    rng = rng_for(*case['seed'])
    lib = pattern_library()
    names = sorted(lib)
    for n in range(case['n']):
        if n % 4 == 3:
            name = names[int(rng.integers(0, len(names)))]
            level = _embed(lib[name], int(rng.integers(0, 4)), int(rng.choice([0, 2])))
            im, bkg, rms = _realise(level, int(rng.integers(0, 4)))
            seed, flood = 5.0, 4.0
            label = 'pattern ' + name
        else:
            im, bkg, rms, seed, flood, _s2 = _random_image(rng)
            label = 'random'
        im, bkg, rms = [np.ascontiguousarray(x) for x in (im, bkg, rms)]
        base = ev(im, bkg, rms, seed, flood, label + ', layout C')
        o.count('layout_base_images')
        if min(im.shape) > 1:
            o.count('layout_base_images_2d')
        # every layout applied to all three maps, then a few mixed combinations
        combos = [(k, k, k) for k in LAYOUT_NAMES if k != 'C']
        for _ in range(4):
            combos.append(tuple(LAYOUT_NAMES[int(j)] for j in rng.integers(0, len(LAYOUT_NAMES), 3)))
        for (ki, kb, kr) in combos:
            a = LAYOUTS[ki](im, rng)
            b = LAYOUTS[kb](bkg, rng)
            r = LAYOUTS[kr](rms, rng)
            for x, y in ((a, im), (b, bkg), (r, rms)):
                if x.shape != y.shape or not np.array_equal(x, y, equal_nan=True):
                    raise RuntimeError('harness: layout %s/%s/%s changed the pixel values' % (ki, kb, kr))
            tag = ki if ki == kb == kr else 'mixed'
            g = ev(a, b, r, seed, flood, '%s, layout im=%s bkg=%s rms=%s' % (label, ki, kb, kr))
            o.count('layout_' + tag)
            if min(im.shape) > 1 and not (a.flags['C_CONTIGUOUS'] and b.flags['C_CONTIGUOUS'] and r.flags['C_CONTIGUOUS']):
                o.count('layout_evals_2d_not_c_contiguous')
            o.see('layout_flags', '%s: C=%s F=%s strides_sign=%s byteorder=%s writeable=%s' % (
                ki, a.flags['C_CONTIGUOUS'], a.flags['F_CONTIGUOUS'], [int(np.sign(v)) for v in a.strides],
                a.dtype.byteorder, a.flags['WRITEABLE']))
            if base is not None and g is not None and g != base:
                o.violate('islands_depend_on_memory_layout',
                          {'label': label, 'im': _lst(im), 'bkg': _lst(bkg), 'rms': _lst(rms), 'seed': seed, 'flood': flood,
                           'layout': {'im': ki, 'bkg': kb, 'rms': kr}, 'islands_c_contiguous': _sets(base),
                           'islands_layout': _sets(g)})
    o.sample = {'layouts': LAYOUT_NAMES, 'last_shape': list(im.shape), 'last_label': label}


def _mono(o, g_low, g_high, im, bkg, rms, seed_low, seed_high, flood):
    """raising the seed threshold can only remove islands"""
    if g_low is None or g_high is None:
        return
    o.count('monotonicity_pairs')
    added = g_high - g_low
    o.count('islands_removed_by_higher_seed', len(g_low - g_high))
    if added:
        o.violate('seed_monotonicity', {'im': _lst(im), 'bkg': _lst(bkg), 'rms': _lst(rms), 'flood': flood,
                                        'seed_low': seed_low, 'seed_high': seed_high, 'added': _sets(added)})


# ----------------------------------------------------------------------------- find_sources_in_image level
def _finder_case(o, case, distinct):
    from astropy.io import fits
    from AegeanTools import source_finder as sf_mod
    from aegmon.refs import render, wcs_zenithal
    rng = rng_for(*case['seed'])
    rows, cols = int(rng.integers(28, 64)), int(rng.integers(28, 64))
    pix = 1.0 / 360
    beam = (float(rng.uniform(2.2, 3.6)) * pix, float(rng.uniform(1.6, 2.2)) * pix, float(rng.uniform(-90, 90)))
    hdr = wcs_zenithal.make_header(proj=str(rng.choice(['SIN', 'TAN', 'ZEA'])),
                                   crval=(float(rng.uniform(0, 360)), float(rng.uniform(-60, 60))),
                                   crpix=(cols / 2.0 + 0.5, rows / 2.0 + 0.5), cdelt=(-pix, pix), shape=(rows, cols),
                                   beam=beam)
    z = wcs_zenithal.ZenithalWCS(hdr)
    sigma = float(rng.choice([1.0, 0.01, 3.0]))
    srcs = []
    for _ in range(int(rng.integers(2, 7))):
        ra, dec = z.index2sky(rng.uniform(0, rows - 1), rng.uniform(0, cols - 1))
        srcs.append({'ra': float(ra), 'dec': float(dec), 'peak': float(sigma * rng.uniform(4.5, 30) * rng.choice([1, 1, 1, -1])),
                     'a': beam[0] * 3600 * float(rng.uniform(1, 2.5)), 'b': beam[1] * 3600, 'pa': float(rng.uniform(-90, 90))})
    bkg = float(rng.choice([0.0, 0.0, 2.5 * sigma, -1.0 * sigma]))
    noise = sigma
    inner = float(rng.choice([5.0, 4.0, 6.0]))
    outer = min(float(rng.choice([4.0, 3.0, inner])), inner)
    if case.get('nested'):
        # a long faint bar (outer < peak/rms < inner: an unseeded group) along a pixel diagonal; bright compact
        # sources sit in the empty corners of the bar's bounding box
        inner, outer = (5.0, 4.0) if rng.random() < 0.5 else (6.0, 3.0)
        noise = 0.02 * sigma
        r_c, c_c = rows / 2.0 + float(rng.uniform(-3, 3)), cols / 2.0 + float(rng.uniform(-3, 3))
        ra, dec = z.index2sky(r_c, c_c)
        srcs = [{'ra': float(ra), 'dec': float(dec), 'peak': sigma * (0.15 * outer + 0.85 * inner) * float(rng.choice([1, -1])),
                 'a': 3600 * pix * 1.2 * max(rows, cols), 'b': beam[1] * 3600, 'pa': 45.0}]
        for sg in (1, -1):
            if sg == 1 or rng.random() < 0.5:
                dd = float(rng.uniform(5, 8))
                ra, dec = z.index2sky(r_c + sg * dd, c_c + sg * dd)
                srcs.append({'ra': float(ra), 'dec': float(dec), 'peak': sigma * float(rng.uniform(8, 30)) * float(rng.choice([1, -1])),
                             'a': beam[0] * 3600, 'b': beam[1] * 3600, 'pa': beam[2]})
    img = render.render(z, (rows, cols), srcs) + bkg
    img += render.correlated_noise(rng, (rows, cols), noise, (beam[0] / pix / 2.355, beam[1] / pix / 2.355), beam[2])
    if rng.random() < 0.4:
        r0, c0 = int(rng.integers(0, rows)), int(rng.integers(0, cols))
        img[r0:r0 + int(rng.integers(1, 8)), c0:c0 + int(rng.integers(1, 8))] = np.nan
    data32 = img.astype(np.float32)
    d = scratch_dir()
    try:
        fn = os.path.join(d, 'img.fits')
        fits.PrimaryHDU(data=data32, header=hdr).writeto(fn)
        calls = []
        orig = sf_mod.SourceFinder._fit_island

        def spy(self, island_data):
            xmin, xmax, ymin, ymax = island_data.offsets
            rr, cc = np.where(np.isfinite(island_data.i))
            calls.append((int(island_data.isle_num), frozenset(zip((rr + int(xmin)).tolist(), (cc + int(ymin)).tolist())),
                          tuple(np.asarray(island_data.i).shape), (int(xmin), int(xmax), int(ymin), int(ymax))))
            return orig(self, island_data)

        sf_mod.SourceFinder._fit_island = spy
        try:
            finder = sf_mod.SourceFinder()
            try:
                sources = finder.find_sources_in_image(fn, rms=sigma, bkg=bkg, cores=1, innerclip=inner, outerclip=outer)
            except Exception:
                o.violate('raises', {'where': 'find_sources_in_image', 'case': case, 'traceback': traceback.format_exc()[-800:]})
                return
        finally:
            sf_mod.SourceFinder._fit_island = orig
    finally:
        shutil.rmtree(d, ignore_errors=True)
    # oracle on the same float32 arithmetic: (data - float32(bkg)) / float32(rms)
    sub = data32 - np.float32(bkg)
    snr = floodfill.snr_image(sub, np.zeros_like(sub), np.full(sub.shape, np.float32(sigma)))
    want, unseeded = floodfill.islands_from_snr(snr, inner, outer)
    want_s = set(want)
    if want or unseeded:
        distinct.add(hash(data32.tobytes()))
    o.count('finder_runs')
    o.n_eval += 1          # the set of fitted pixel groups vs the oracle's islands
    o.count('finder_oracle_islands', len(want))
    o.count('finder_oracle_unseeded_groups', len(unseeded))
    _sensitivity(o, snr, sub, [], unseeded, inner, outer)
    with np.errstate(all='ignore'):
        for g in unseeded:
            (r0, r1), (c0, c1) = floodfill.tight_box(g)
            if (snr[r0:r1, c0:c1] > inner).any():
                o.count('finder_unseeded_group_with_seed_pixel_in_its_box')
    good_nums = set()
    for num, pix_set, ishape, offs in calls:
        o.n_eval += 1
        o.count('fit_island_calls_judged')
        if ishape != (offs[1] - offs[0], offs[3] - offs[2]):
            o.violate('fit_island_shape_vs_offsets', {'case': case, 'isle_num': num, 'shape': list(ishape), 'offsets': list(offs)})
        if pix_set in want_s:
            good_nums.add(num)
        else:
            o.violate('fitted_group_is_not_an_island', {'case': case, 'isle_num': num, 'pixels': sorted(pix_set)[:40],
                                                       'is_unseeded_group': pix_set in set(unseeded),
                                                       'inner': inner, 'outer': outer, 'rms': sigma, 'bkg': bkg},
                      'seed-test-over-bounding-box' if pix_set in set(unseeded) else None)
    fitted = set(c[1] for c in calls)
    if fitted != want_s:
        o.violate('finder_islands_differ', {'case': case, 'missing': _sets(want_s - fitted), 'extra': _sets(fitted - want_s),
                                            'inner': inner, 'outer': outer, 'rms': sigma, 'bkg': bkg},
                  'seed-test-over-bounding-box' if (fitted - want_s) and (fitted - want_s) <= set(unseeded) else None)
    all_nums = set(c[0] for c in calls)
    for s in sources:
        o.count('components_seen')
        if int(s.island) in good_nums:
            o.count('components_traced_to_island')
        elif int(s.island) not in all_nums:
            o.violate('component_of_unknown_island', {'case': case, 'island': int(s.island), 'source': int(s.source)})
    o.sample = {'shape': [rows, cols], 'n_injected': len(srcs), 'oracle_islands': len(want), 'fit_island_calls': len(calls),
                'components': len(sources), 'inner': inner, 'outer': outer}
